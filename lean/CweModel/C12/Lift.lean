/-
C12 — the LIFTING half of the property: the IR produced by the lifting of P-Code
(`CweModel.C11.Lift`: `add_load_defs_for_implicit_ram_access`, `into_ir_def` / `From<Jmp>`,
`replace_subregister_in_block` incl. the Piece/Subpiece expressions of the sub-register replacement, the
`loaded_value` temporaries and the cast-to-base fusion) is size-consistent (`WellSized…` of C12/Model.lean)
for every P-Code project of the extractor domain, and stays so under `normalize_basic` (model of C09) and
`normalize_optimize` (models of C10): the statement of the property END TO END on the models.

Domain (all decidable, evaluated by the C11 driver on every case):
* `tableOk` / `blkOk` / `projectOk` (C11/PcodeSem.lean): consistent register table, well formed varnodes;
* `pcodeBlkSized` / `projectSized` (C11/Sized.lean): the operand sizes of every P-Code instruction are
  consistent with its operation — what Ghidra guarantees for the P-Code it emits (P-Code reference manual).
-/
import CweModel.C11.Props
import CweModel.C12.Model
set_option linter.unusedSimpArgs false
set_option linter.unusedVariables false

namespace CweModel.C12
open CweModel CweModel.IR CweModel.Gen.PcodeOps CweModel.C11 CweModel.C11.Lift

/-! ### variables that fit the register table -/

/-- an IR variable of raw lifted IR: positive size, not larger than the register it is named after -/
def VarFits (tbl : RegTable) (v : Variable) : Prop :=
  0 < v.size ∧ ∀ r, regGet tbl v.name = some r → v.size ≤ r.size

/-- the same for a P-Code varnode (RAM and constant varnodes have no name) -/
def varFit (tbl : RegTable) (v : Pcode.Var) : Prop :=
  0 < v.size ∧ ∀ n r, v.name = some n → regGet tbl n = some r → v.size ≤ r.size

/-- a well-sized raw expression all of whose variables fit the table -/
def GoodExpr (tbl : RegTable) (e : Expression) : Prop := WellSized e ∧ ∀ w ∈ e.inputVars, VarFits tbl w

def DefVarsFit (tbl : RegTable) : Def → Prop
  | .Assign v e => VarFits tbl v ∧ ∀ w ∈ e.inputVars, VarFits tbl w
  | .Load v a => VarFits tbl v ∧ ∀ w ∈ a.inputVars, VarFits tbl w
  | .Store a e => (∀ w ∈ a.inputVars, VarFits tbl w) ∧ ∀ w ∈ e.inputVars, VarFits tbl w

def JmpVarsFit (tbl : RegTable) : Jmp → Prop
  | .BranchInd e | .CallInd e _ | .Return e | .CBranch _ e => ∀ w ∈ e.inputVars, VarFits tbl w
  | _ => True

/-- a raw lifted def: size-consistent, variables fit the table -/
def GoodDef (tbl : RegTable) (ptr : Nat) (d : Def) : Prop := WellSizedDef ptr d ∧ DefVarsFit tbl d
def GoodJmp (tbl : RegTable) (ptr : Nat) (j : Jmp) : Prop := WellSizedJmp ptr j ∧ JmpVarsFit tbl j

theorem varOk_varFit {tbl : RegTable} {v : Pcode.Var} (h : varOk tbl v = true) : varFit tbl v := by
  unfold varOk at h
  simp only [Bool.and_eq_true, decide_eq_true_eq] at h
  refine ⟨h.1, fun n r hn hr => ?_⟩
  have h2 := h.2
  cases hk : v.kind with
  | bad => simp [hk] at h2
  | reg m =>
    obtain ⟨h1, _⟩ := kind_reg hk
    rw [h1] at hn; cases hn
    simp only [hk, hr, Bool.and_eq_true, decide_eq_true_eq] at h2
    exact h2.2
  | tmp m =>
    obtain ⟨h1, _⟩ := kind_tmp hk
    rw [h1] at hn; cases hn
    simp [hk, hr] at h2
  | const x => obtain ⟨h1, _⟩ := kind_const hk; rw [h1] at hn; cases hn
  | ram x => obtain ⟨h1, _⟩ := kind_ram hk; rw [h1] at hn; cases hn

/-- the temporaries introduced by the lifting fit every consistent table (they are not in it) -/
theorem liftTemp_varFit {tbl : RegTable} (ht : tableOk tbl = true) {n : String} (hn : n ∈ liftTempNames)
    {s : Nat} (hs : 0 < s) : varFit tbl { name := some n, size := s, isVirtual := true } := by
  refine ⟨hs, fun m r hm hr => ?_⟩
  simp only [Option.some.injEq] at hm
  subst hm
  rw [tableOk_fresh ht hn] at hr; cases hr

theorem varToIrVar_fits {tbl : RegTable} {v : Pcode.Var} (hv : varFit tbl v) {w : Variable}
    (h : varToIrVar v = some w) : VarFits tbl w ∧ w.size = v.size := by
  simp only [varToIrVar, Option.bind_eq_bind] at h
  cases hn : v.name with
  | none => simp [hn] at h
  | some n =>
    simp only [hn, Option.bind_some, Option.some.injEq] at h
    subst h
    exact ⟨⟨hv.1, fun r hr => hv.2 n r hn hr⟩, rfl⟩

theorem varToIrExpr_good {tbl : RegTable} {v : Pcode.Var} (hv : varFit tbl v) {e : Expression}
    (h : varToIrExpr v = some e) : GoodExpr tbl e ∧ e.bytesize = v.size := by
  unfold varToIrExpr at h
  split at h
  · simp only [Option.bind_eq_bind] at h
    cases hw : varToIrVar v with
    | none => simp [hw] at h
    | some w =>
      simp only [hw, Option.bind_some, Option.some.injEq] at h
      subst h
      obtain ⟨h1, h2⟩ := varToIrVar_fits hv hw
      refine ⟨⟨h1.1, fun u hu => ?_⟩, h2⟩
      simp only [Expression.inputVars, List.mem_singleton] at hu
      subst hu; exact h1
  · simp only [parseConst, Option.bind_eq_bind] at h
    cases hx : v.value with
    | none => simp [hx] at h
    | some s =>
      cases hp : parseHex s with
      | none => simp [hx, hp] at h
      | some x =>
        simp only [hx, hp, Option.bind_some, Option.some.injEq] at h
        subst h
        exact ⟨⟨hv.1, fun u hu => by simp [Expression.inputVars] at hu⟩, rfl⟩
  · cases h

/-! ### sizes of the lifted operations -/

theorem binSizesOk_of (op : BinOpType) (a b : Nat)
    (h : ((!binSameSize op || a == b) && (!binBoolOperands op || a == 1)) = true) : binSizesOk op a b := by
  cases op <;> simp_all [binSameSize, binBoolOperands, binSizesOk, binClass] <;> omega

theorem bytesize_binOp (op : BinOpType) (l r : Expression) :
    (Expression.BinOp op l r).bytesize = binResultSize op l.bytesize r.bytesize := by
  cases op <;> rfl

theorem unSizeOk_of (op : UnOpType) (a : Nat) (h : (op != .BoolNegate || a == 1) = true) : unSizeOk op a := by
  cases op <;> simp_all [unSizeOk] <;> (rcases h with h | h; exact absurd h (by decide); exact h)

theorem bytesize_unOp (op : UnOpType) (a : Expression) :
    (Expression.UnOp op a).bytesize = unResultSize op a.bytesize := by
  cases op <;> rfl

theorem castSizeOk_of (op : CastOpType) (s a : Nat)
    (h : (match op with | .IntZExt | .IntSExt => decide (a ≤ s) | _ => true) = true) : castSizeOk op s a := by
  cases op <;> simp_all [castSizeOk]

/-! ### `Def::into_ir_def` on normalized, size-consistent P-Code -/

/-- an instruction of NORMALIZED P-Code (after `add_load_defs_for_implicit_ram_access`) of the size domain:
operands fit the table (`$load_temp` temporaries included), operand sizes consistent with the operation -/
structure NDef (tbl : RegTable) (ptr : Nat) (d : Pcode.Def) : Prop where
  in0 : ∀ v, d.rhs.input0 = some v → varFit tbl v
  in1 : ∀ v, d.rhs.input1 = some v → varFit tbl v
  in2 : ∀ v, d.rhs.input2 = some v → varFit tbl v
  out : opKind d.rhs.mnemonic ≠ .store → ∀ v, d.lhs = some v → varFit tbl v
  sized : pcodeDefSized ptr d = true
  off : opKind d.rhs.mnemonic = .subpiece → ∀ c, d.rhs.input1 = some c → subpieceOffsetOk c = true

/-- the common tail of `into_ir_def`: assignment to the target, or store at the address of a RAM target -/
theorem finish_good {tbl : RegTable} {ptr : Nat} (hp0 : 0 < ptr) {target : Pcode.Var} (ht : varFit tbl target)
    {value : Expression} (hv : GoodExpr tbl value) (hs : value.bytesize = target.size) {d' : Def}
    (h : (if target.address.isSome then (do some (Def.Store (← parseAddress target ptr) value))
          else (do some (Def.Assign (← varToIrVar target) value))) = some d') : GoodDef tbl ptr d' := by
  split at h
  · simp only [parseAddress, Option.bind_eq_bind] at h
    cases ha : target.address with
    | none => simp [ha] at h
    | some a =>
      cases hx : parseHex a with
      | none => simp [ha, hx] at h
      | some x =>
        simp only [ha, hx, Option.bind_some, Option.some.injEq] at h
        subst h
        exact ⟨⟨⟨hp0, rfl⟩, hv.1⟩, ⟨fun w hw => by simp [Expression.inputVars] at hw, hv.2⟩⟩
  · simp only [Option.bind_eq_bind] at h
    cases hw : varToIrVar target with
    | none => simp [hw] at h
    | some w =>
      simp only [hw, Option.bind_some, Option.some.injEq] at h
      subst h
      obtain ⟨h1, h2⟩ := varToIrVar_fits ht hw
      exact ⟨⟨h1.1, hv.1, by rw [hs, h2]⟩, ⟨h1, hv.2⟩⟩

theorem defToIr_good {tbl : RegTable} {ptr : Nat} (hp0 : 0 < ptr) {d : Pcode.Def} (hd : NDef tbl ptr d)
    {d' : Def} (h : defToIr ptr d = some d') : GoodDef tbl ptr d' := by
  have hs := hd.sized
  unfold pcodeDefSized at hs
  unfold defToIr at h
  cases hk : opKind d.rhs.mnemonic with
  | load =>
    simp only [hk, beq_iff_eq] at hs
    simp only [arms_load hk, Option.bind_eq_bind] at h
    cases hl : d.lhs with
    | none => simp [hl] at h
    | some o =>
    cases hw : varToIrVar o with
    | none => simp [hl, hw] at h
    | some w =>
    cases hi : d.rhs.input1 with
    | none => simp [hl, hw, hi] at h
    | some i1 =>
    cases he : varToIrExpr i1 with
    | none => simp [hl, hw, hi, he] at h
    | some a =>
      simp only [hl, hw, hi, he, Option.bind_some, Option.some.injEq] at h
      subst h
      obtain ⟨h1, _⟩ := varToIrVar_fits (hd.out (by simp [hk]) o hl) hw
      obtain ⟨h3, h4⟩ := varToIrExpr_good (hd.in1 i1 hi) he
      simp only [hi, vsize] at hs
      exact ⟨⟨h1.1, h3.1, h4.trans hs⟩, ⟨h1, h3.2⟩⟩
  | store =>
    simp only [hk, beq_iff_eq] at hs
    simp only [arms_store hk, Option.bind_eq_bind] at h
    cases hi : d.rhs.input1 with
    | none => simp [hi] at h
    | some i1 =>
    cases he : varToIrExpr i1 with
    | none => simp [hi, he] at h
    | some a =>
    cases hi2 : d.rhs.input2 with
    | none => simp [hi, he, hi2] at h
    | some i2 =>
    cases he2 : varToIrExpr i2 with
    | none => simp [hi, he, hi2, he2] at h
    | some v =>
      simp only [hi, he, hi2, he2, Option.bind_some, Option.some.injEq] at h
      subst h
      obtain ⟨h3, h4⟩ := varToIrExpr_good (hd.in1 i1 hi) he
      obtain ⟨h5, _⟩ := varToIrExpr_good (hd.in2 i2 hi2) he2
      simp only [hi, vsize] at hs
      exact ⟨⟨⟨h3.1, h4.trans hs⟩, h5.1⟩, ⟨h3.2, h5.2⟩⟩
  | subpiece =>
    simp only [hk] at hs
    simp only [arms_subpiece hk, Option.bind_eq_bind] at h
    cases hl : d.lhs with
    | none => simp [hl] at h
    | some o =>
    cases hi1 : d.rhs.input1 with
    | none => simp [hi1] at hs
    | some c =>
    cases hc : constOperand c with
    | none => simp [hi1, hc] at hs
    | some low =>
    cases hi0 : d.rhs.input0 with
    | none => simp [hl, hi1, subpiece_offset (hd.off hk c hi1) hc, hi0] at h
    | some i0 =>
    cases he : varToIrExpr i0 with
    | none => simp [hl, hi1, subpiece_offset (hd.off hk c hi1) hc, hi0, he] at h
    | some a =>
      simp only [hl, hi1, subpiece_offset (hd.off hk c hi1) hc, hi0, he, Option.bind_some] at h
      obtain ⟨h3, h4⟩ := varToIrExpr_good (hd.in0 i0 hi0) he
      have ho := hd.out (by simp [hk]) o hl
      simp only [hi1, hc, hl, hi0, vsize, Bool.and_eq_true, decide_eq_true_eq] at hs
      refine finish_good hp0 ho (value := .Subpiece low o.size a) ⟨⟨h3.1, ho.1, ?_⟩, h3.2⟩ rfl h
      rw [h4]; exact hs.1
  | cast op =>
    simp only [hk] at hs
    obtain ⟨harm, hmap⟩ := arms_cast hk
    simp only [harm, hmap, Option.bind_eq_bind] at h
    cases hl : d.lhs with
    | none => simp [hl] at h
    | some o =>
    cases hi0 : d.rhs.input0 with
    | none => simp [hl, hi0] at h
    | some i0 =>
    cases he : varToIrExpr i0 with
    | none => simp [hl, hi0, he] at h
    | some a =>
      simp only [hl, hi0, he, Option.bind_some] at h
      obtain ⟨h3, h4⟩ := varToIrExpr_good (hd.in0 i0 hi0) he
      have ho := hd.out (by simp [hk]) o hl
      simp only [hl, hi0, vsize] at hs
      refine finish_good hp0 ho (value := .Cast op o.size a) ⟨⟨h3.1, ho.1, ?_⟩, h3.2⟩ rfl h
      rw [h4]; exact castSizeOk_of op _ _ hs
  | copy =>
    simp only [hk, beq_iff_eq] at hs
    obtain ⟨harm, hearm⟩ := arms_copy hk
    simp only [harm, exprToIr, hearm, Option.bind_eq_bind] at h
    cases hl : d.lhs with
    | none => simp [hl] at h
    | some o =>
    cases hi0 : d.rhs.input0 with
    | none => simp [hl, hi0] at h
    | some i0 =>
    cases he : varToIrExpr i0 with
    | none => simp [hl, hi0, he] at h
    | some a =>
      simp only [hl, hi0, he, Option.bind_some] at h
      obtain ⟨h3, h4⟩ := varToIrExpr_good (hd.in0 i0 hi0) he
      simp only [hl, hi0, vsize] at hs
      exact finish_good hp0 (hd.out (by simp [hk]) o hl) h3 (by rw [h4, hs]) h
  | bin op =>
    simp only [hk, Bool.and_eq_true, beq_iff_eq] at hs
    obtain ⟨harm, hearm, hmap⟩ := arms_bin hk
    simp only [harm, exprToIr, hearm, hmap, Option.bind_eq_bind] at h
    cases hl : d.lhs with
    | none => simp [hl] at h
    | some o =>
    cases hi0 : d.rhs.input0 with
    | none => simp [hl, hi0] at h
    | some i0 =>
    cases he : varToIrExpr i0 with
    | none => simp [hl, hi0, he] at h
    | some a =>
    cases hi1 : d.rhs.input1 with
    | none => simp [hl, hi0, he, hi1] at h
    | some i1 =>
    cases he1 : varToIrExpr i1 with
    | none => simp [hl, hi0, he, hi1, he1] at h
    | some b =>
      simp only [hl, hi0, he, hi1, he1, Option.bind_some] at h
      obtain ⟨h3, h4⟩ := varToIrExpr_good (hd.in0 i0 hi0) he
      obtain ⟨h5, h6⟩ := varToIrExpr_good (hd.in1 i1 hi1) he1
      simp only [hl, hi0, hi1, vsize] at hs
      refine finish_good hp0 (hd.out (by simp [hk]) o hl) (value := .BinOp op a b) ⟨⟨h3.1, h5.1, ?_⟩, ?_⟩ ?_ h
      · rw [h4, h6]; exact binSizesOk_of op _ _ (by simp [hs.1.1, hs.1.2])
      · intro w hw
        simp only [Expression.inputVars, List.mem_append] at hw
        exact hw.elim (h3.2 w) (h5.2 w)
      · rw [bytesize_binOp, h4, h6, hs.2]
  | un op =>
    simp only [hk, Bool.and_eq_true, beq_iff_eq] at hs
    obtain ⟨harm, hearm, hmap⟩ := arms_un hk
    simp only [harm, exprToIr, hearm, hmap, Option.bind_eq_bind] at h
    cases hl : d.lhs with
    | none => simp [hl] at h
    | some o =>
    cases hi0 : d.rhs.input0 with
    | none => simp [hl, hi0] at h
    | some i0 =>
    cases he : varToIrExpr i0 with
    | none => simp [hl, hi0, he] at h
    | some a =>
      simp only [hl, hi0, he, Option.bind_some] at h
      obtain ⟨h3, h4⟩ := varToIrExpr_good (hd.in0 i0 hi0) he
      simp only [hl, hi0, vsize] at hs
      refine finish_good hp0 (hd.out (by simp [hk]) o hl) (value := .UnOp op a) ⟨⟨h3.1, ?_⟩, h3.2⟩ ?_ h
      · rw [h4]; exact unSizeOk_of op _ hs.1
      · rw [bytesize_unOp, h4, hs.2]

/-! ### `From<Jmp> for IrJmp` -/

/-- a jump of normalized P-Code of the size domain -/
structure NJmp (tbl : RegTable) (ptr : Nat) (j : Pcode.Jmp) : Prop where
  operand : ∀ v, jmpOperand j = some v → varFit tbl v
  sized : pcodeJmpSized ptr j = true

theorem jmpToIr_good {tbl : RegTable} {ptr : Nat} {j : Pcode.Jmp} (hj : NJmp tbl ptr j) {j' : Jmp}
    (h : jmpToIr j = some j') : GoodJmp tbl ptr j' := by
  have hs := hj.sized
  have hop := hj.operand
  unfold pcodeJmpSized at hs
  unfold jmpOperand at hop
  unfold jmpToIr at h
  cases hm : j.mnemonic with
  | BRANCH =>
    simp only [hm, Option.bind_eq_bind] at h
    cases hg : j.goto with
    | none => simp [hg] at h
    | some l =>
      cases hd : labelDirect l with
      | none => simp [hg, hd] at h
      | some t => simp [hg, hd] at h; subst h; exact ⟨trivial, trivial⟩
  | CBRANCH =>
    simp only [hm, Option.bind_eq_bind, beq_iff_eq] at h hs hop
    cases hg : j.goto with
    | none => simp [hg] at h
    | some l =>
    cases hd : labelDirect l with
    | none => simp [hg, hd] at h
    | some t =>
    cases hc : j.condition with
    | none => simp [hg, hd, hc] at h
    | some c =>
    cases he : varToIrExpr c with
    | none => simp [hg, hd, hc, he] at h
    | some e =>
      simp only [hg, hd, hc, he, Option.bind_some, Option.some.injEq] at h
      subst h
      obtain ⟨h1, h2⟩ := varToIrExpr_good (hop c hc) he
      simp only [hc, vsize] at hs
      exact ⟨⟨h1.1, h2.trans hs⟩, h1.2⟩
  | BRANCHIND =>
    simp only [hm, Option.bind_eq_bind] at h hs hop
    cases hg : j.goto with
    | none => simp [hg] at h
    | some l =>
    cases l with
    | Direct t => simp [hg, labelIndirect] at h
    | Indirect v =>
    cases he : varToIrExpr v with
    | none => simp [hg, labelIndirect, he] at h
    | some e =>
      simp only [hg, labelIndirect, he, Option.bind_some, Option.some.injEq] at h
      subst h
      obtain ⟨h1, h2⟩ := varToIrExpr_good (hop v (by simp [hg, Pcode.Label.indirect?])) he
      simp only [hg, beq_iff_eq] at hs
      exact ⟨⟨h1.1, h2.trans hs⟩, h1.2⟩
  | RETURN =>
    simp only [hm, Option.bind_eq_bind] at h hs hop
    cases hg : j.goto with
    | none => simp [hg] at h
    | some l =>
    cases l with
    | Direct t => simp [hg, labelIndirect] at h
    | Indirect v =>
    cases he : varToIrExpr v with
    | none => simp [hg, labelIndirect, he] at h
    | some e =>
      simp only [hg, labelIndirect, he, Option.bind_some, Option.some.injEq] at h
      subst h
      obtain ⟨h1, h2⟩ := varToIrExpr_good (hop v (by simp [hg, Pcode.Label.indirect?])) he
      simp only [hg, beq_iff_eq] at hs
      exact ⟨⟨h1.1, h2.trans hs⟩, h1.2⟩
  | CALL =>
    simp only [hm, Option.bind_eq_bind] at h
    cases hc : j.call with
    | none => simp [hc] at h
    | some c =>
    cases hg : c.target with
    | none => simp [hc, hg] at h
    | some l =>
    cases hd : labelDirect l with
    | none => simp [hc, hg, hd] at h
    | some t =>
    cases hr : returnLabel c.ret with
    | none => simp [hc, hg, hd, hr] at h
    | some r => simp [hc, hg, hd, hr] at h; subst h; exact ⟨trivial, trivial⟩
  | CALLIND =>
    simp only [hm, Option.bind_eq_bind] at h hs hop
    cases hc : j.call with
    | none => simp [hc] at h
    | some c =>
    cases hg : c.target with
    | none => simp [hc, hg] at h
    | some l =>
    cases l with
    | Direct t => simp [hc, hg, labelIndirect] at h
    | Indirect v =>
    cases he : varToIrExpr v with
    | none => simp [hc, hg, labelIndirect, he] at h
    | some e =>
    cases hr : returnLabel c.ret with
    | none => simp [hc, hg, labelIndirect, he, hr] at h
    | some r =>
      simp only [hc, hg, labelIndirect, he, hr, Option.bind_some, Option.some.injEq] at h
      subst h
      obtain ⟨h1, h2⟩ := varToIrExpr_good (hop v (by simp [hc, hg, Pcode.Label.indirect?])) he
      simp only [hc, hg, beq_iff_eq] at hs
      exact ⟨⟨h1.1, h2.trans hs⟩, h1.2⟩
  | CALLOTHER =>
    simp only [hm, Option.bind_eq_bind] at h
    cases hc : j.call with
    | none => simp [hc] at h
    | some c =>
    cases hg : c.callString with
    | none => simp [hc, hg] at h
    | some l =>
    cases hr : returnLabel c.ret with
    | none => simp [hc, hg, hr] at h
    | some r => simp [hc, hg, hr] at h; subst h; exact ⟨trivial, trivial⟩

/-! ### `replace_input_subregister`: Subpiece of the base register -/

/-- the same as `C12.substVar_wellSized` (Props.lean), restated here because Props.lean imports this file -/
theorem substVar_ws {v : Variable} {by_ : Expression} (hb : WellSized by_) (hs : by_.bytesize = v.size) :
    ∀ e, WellSized e → WellSized (e.substVar v by_) ∧ (e.substVar v by_).bytesize = e.bytesize := by
  intro e
  induction e with
  | Var w =>
    intro hw
    simp only [Expression.substVar]
    split
    · next h => subst h; exact ⟨hb, hs⟩
    · exact ⟨hw, rfl⟩
  | Const b x => intro hw; exact ⟨hw, rfl⟩
  | Unknown d s => intro hw; exact ⟨hw, rfl⟩
  | BinOp op l r ihl ihr =>
    intro hw
    obtain ⟨hl1, hl2⟩ := ihl hw.1
    obtain ⟨hr1, hr2⟩ := ihr hw.2.1
    refine ⟨⟨hl1, hr1, ?_⟩, ?_⟩
    · rw [hl2, hr2]; exact hw.2.2
    · cases op <;> simp only [Expression.substVar, Expression.bytesize, hl2, hr2]
  | UnOp op a ih =>
    intro hw
    obtain ⟨h1, h2⟩ := ih hw.1
    refine ⟨⟨h1, ?_⟩, ?_⟩
    · rw [h2]; exact hw.2
    · cases op <;> simp only [Expression.substVar, Expression.bytesize, h2]
  | Cast op s a ih =>
    intro hw
    obtain ⟨h1, h2⟩ := ih hw.1
    exact ⟨⟨h1, hw.2.1, by rw [h2]; exact hw.2.2⟩, rfl⟩
  | Subpiece lb s a ih =>
    intro hw
    obtain ⟨h1, h2⟩ := ih hw.1
    exact ⟨⟨h1, hw.2.1, by rw [h2]; exact hw.2.2⟩, rfl⟩

/-- what the table says about a variable that fits: the bytes `[lsb, lsb+size)` lie inside the base register -/
theorem fits_inside {tbl : RegTable} (ht : tableOk tbl = true) {v : Variable} (hv : VarFits tbl v)
    {r : Pcode.RegisterProperties} (hr : regGet tbl v.name = some r) :
    ∃ b, regGet tbl r.baseRegister = some b ∧ r.lsb + v.size ≤ b.size ∧ 0 < b.size ∧
      (r.register ≠ r.baseRegister → v.size < b.size) := by
  obtain ⟨b, hb⟩ := tableOk_get ht hr
  have := hv.2 r hr
  have h1 := hb.inside
  have h2 := hb.size_pos
  exact ⟨b, hb.base, by omega, by omega, fun hne => by have := hb.proper hne; omega⟩

/-- `create_subpiece_from_sub_register` for a variable that fits: a well-sized expression of its size -/
theorem replacementFor_ws {tbl : RegTable} (ht : tableOk tbl = true) {v : Variable} (hv : VarFits tbl v)
    {w : Variable} {e : Expression} (h : replacementFor tbl v = some (some (w, e))) :
    w = v ∧ WellSized e ∧ e.bytesize = v.size := by
  unfold replacementFor at h
  cases hr : regGet tbl v.name with
  | none => simp [hr] at h
  | some r =>
    simp only [hr] at h
    split at h
    · obtain ⟨b, hb, h1, h2, _⟩ := fits_inside ht hv hr
      simp only [createSubpiece, hb, Option.bind_eq_bind, Option.bind_some, Option.some.injEq, Prod.mk.injEq] at h
      obtain ⟨rfl, rfl⟩ := h
      exact ⟨rfl, ⟨h2, hv.1, h1⟩, rfl⟩
    · simp at h

theorem foldl_substStep_ws (pairs : List (Option (Variable × Expression)))
    (hp : ∀ p ∈ pairs, ∀ v r, p = some (v, r) → WellSized r ∧ r.bytesize = v.size) :
    ∀ acc, WellSized acc → WellSized (pairs.foldl substStep acc) ∧ (pairs.foldl substStep acc).bytesize = acc.bytesize := by
  induction pairs with
  | nil => intro acc h; exact ⟨h, rfl⟩
  | cons p ps ih =>
    intro acc h
    simp only [List.foldl]
    have hstep : WellSized (substStep acc p) ∧ (substStep acc p).bytesize = acc.bytesize := by
      cases p with
      | none => exact ⟨h, rfl⟩
      | some q =>
        obtain ⟨v, r⟩ := q
        obtain ⟨h1, h2⟩ := hp (some (v, r)) List.mem_cons_self v r rfl
        exact substVar_ws h1 h2 acc h
    obtain ⟨h3, h4⟩ := ih (fun p hp' => hp p (List.mem_cons_of_mem _ hp')) _ hstep.1
    exact ⟨h3, h4.trans hstep.2⟩

/-- **`replace_input_subregister`** keeps a raw expression well-sized and of the same size: every
sub-register variable becomes `Subpiece(lsb, size, base)` with `lsb + size ≤ base.size`. -/
theorem replaceInput_ws {tbl : RegTable} (ht : tableOk tbl = true) {e : Expression} (he : GoodExpr tbl e)
    {e' : Expression} (h : replaceInputSubregister tbl e = some e') : WellSized e' ∧ e'.bytesize = e.bytesize := by
  simp only [replaceInputSubregister, Option.bind_eq_bind] at h
  cases hm : mapOpt (replacementFor tbl) e.inputVars with
  | none => simp [hm] at h
  | some pairs =>
    simp only [hm, Option.bind_some, Option.some.injEq] at h
    subst h
    apply foldl_substStep_ws pairs _ e he.1
    intro p hp v r hpv
    obtain ⟨u, hu, hfu⟩ := (mapOpt_some _ _ _ hm).2 p hp
    subst hpv
    obtain ⟨rfl, h1, h2⟩ := replacementFor_ws ht (he.2 u hu) hfu
    exact ⟨h1, h2⟩

/-! ### `replace_output_subregister`: piecing the base register together -/

/-- **`piece_base_register_assignment_expression_together`**: the three Piece shapes (sub-register at the
top, in the middle, at the bottom of the base register) are well-sized and have the size of the base
register. -/
theorem pieceTogether_ws {input : Expression} {bn : String} {B l s : Nat} (hi : WellSized input)
    (hs : input.bytesize = s) (hs0 : 0 < s) (hin : l + s ≤ B) (hlow : l = 0 → s < B) :
    WellSizedAs (pieceTogether input bn B l s) B := by
  unfold pieceTogether
  simp only
  split
  · next hc =>
    simp only [Bool.and_eq_true, decide_eq_true_eq, beq_iff_eq] at hc
    refine ⟨⟨hi, ⟨?_, hc.1, ?_⟩, trivial⟩, ?_⟩
    · show 0 < B; omega
    · show 0 + l ≤ B; omega
    · show input.bytesize + l = B; omega
  · next hc =>
    split
    · next hl =>
      simp only [Bool.and_eq_true, decide_eq_true_eq, beq_iff_eq, not_and] at hc
      have hne := hc hl
      refine ⟨⟨⟨⟨?_, ?_, ?_⟩, hi, trivial⟩, ⟨?_, hl, ?_⟩, trivial⟩, ?_⟩
      · show 0 < B; omega
      · omega
      · show l + s + (B - (l + s)) ≤ B; omega
      · show 0 < B; omega
      · show 0 + l ≤ B; omega
      · show B - (l + s) + input.bytesize + l = B; omega
    · next hl =>
      have := hlow (by omega)
      refine ⟨⟨⟨?_, ?_, ?_⟩, hi, trivial⟩, ?_⟩
      · show 0 < B; omega
      · omega
      · show s + (B - s) ≤ B; omega
      · show B - s + input.bytesize = B; omega

/-- an assigned variable that has to be replaced: its bytes lie inside the base register and do not cover it -/
theorem outputSub_facts {tbl : RegTable} (ht : tableOk tbl = true) {v : Variable} (hv : VarFits tbl v)
    {r b : Pcode.RegisterProperties} (h : outputSubregister tbl v = some (some (r, b))) :
    r.lsb + v.size ≤ b.size ∧ 0 < b.size ∧ (r.lsb = 0 → v.size < b.size) := by
  unfold outputSubregister at h
  cases hr : regGet tbl v.name with
  | none => simp [hr] at h
  | some r' =>
    obtain ⟨b', hb', h1, h2, h3⟩ := fits_inside ht hv hr
    simp only [hr, hb', Option.bind_eq_bind, Option.bind_some] at h
    split at h
    · next hsub =>
      simp only [Option.some.injEq, Prod.mk.injEq] at h
      obtain ⟨rfl, rfl⟩ := h
      refine ⟨h1, h2, fun _ => ?_⟩
      simp only [isSubregisterAssignment, Bool.or_eq_true, bne_iff_ne, ne_eq, decide_eq_true_eq] at hsub
      rcases hsub with hne | hlt
      · apply h3
        rw [regGet_name hr, ← regGet_name hb']
        exact hne
      · exact hlt
    · simp at h

/-! ### `compute_replacement_defs_for_block` -/

theorem replaceInputsDef_good {tbl : RegTable} (ht : tableOk tbl = true) {ptr : Nat} {d d' : Def}
    (hd : GoodDef tbl ptr d) (h : replaceInputsDef tbl d = some d') :
    WellSizedDef ptr d' ∧
      (∀ v e, d' = .Assign v e → ∃ e₀, d = .Assign v e₀ ∧ VarFits tbl v) ∧
      (∀ v a, d' = .Load v a → ∃ a₀, d = .Load v a₀ ∧ VarFits tbl v) := by
  obtain ⟨hws, hfit⟩ := hd
  cases d with
  | Assign v e =>
    simp only [replaceInputsDef, Option.bind_eq_bind] at h
    cases hr : replaceInputSubregister tbl e with
    | none => simp [hr] at h
    | some e' =>
      simp only [hr, Option.bind_some, Option.some.injEq] at h
      subst h
      obtain ⟨h1, h2⟩ := replaceInput_ws ht ⟨hws.2.1, hfit.2⟩ hr
      refine ⟨⟨hws.1, h1, h2.trans hws.2.2⟩, ?_, ?_⟩
      · intro v' e'' heq; cases heq; exact ⟨e, rfl, hfit.1⟩
      · intro v' a heq; cases heq
  | Load v a =>
    simp only [replaceInputsDef, Option.bind_eq_bind] at h
    cases hr : replaceInputSubregister tbl a with
    | none => simp [hr] at h
    | some a' =>
      simp only [hr, Option.bind_some, Option.some.injEq] at h
      subst h
      obtain ⟨h1, h2⟩ := replaceInput_ws ht ⟨hws.2.1, hfit.2⟩ hr
      refine ⟨⟨hws.1, h1, h2.trans hws.2.2⟩, ?_, ?_⟩
      · intro v' e heq; cases heq
      · intro v' a'' heq; cases heq; exact ⟨a, rfl, hfit.1⟩
  | Store a e =>
    simp only [replaceInputsDef, Option.bind_eq_bind] at h
    cases hr : replaceInputSubregister tbl a with
    | none => simp [hr] at h
    | some a' =>
    cases hr2 : replaceInputSubregister tbl e with
    | none => simp [hr, hr2] at h
    | some e' =>
      simp only [hr, hr2, Option.bind_some, Option.some.injEq] at h
      subst h
      obtain ⟨h1, h2⟩ := replaceInput_ws ht ⟨hws.1.1, hfit.1⟩ hr
      obtain ⟨h3, _⟩ := replaceInput_ws ht ⟨hws.2, hfit.2⟩ hr2
      refine ⟨⟨⟨h1, h2.trans hws.1.2⟩, h3⟩, ?_, ?_⟩
      · intro v' e heq; cases heq
      · intro v' a'' heq; cases heq

/-- one iteration of the loop: every def pushed to the output is size-consistent — the ordinary def with
replaced inputs, the assignment of the pieced-together base register, the load into `loaded_value`, and the
cast def of a cast-to-base fusion with the sub-register replaced by its value -/
theorem replaceStep_ws {tbl : RegTable} (ht : tableOk tbl = true) {ptr : Nat} {d : Term Def}
    {next : Option (Term Def)} (hd : GoodDef tbl ptr d.term) (hn : ∀ nd, next = some nd → GoodDef tbl ptr nd.term)
    {outs : List (Term Def)} {c : Bool} (h : replaceStep tbl d next = some (outs, c)) :
    ∀ x ∈ outs, WellSizedDef ptr x.term := by
  simp only [replaceStep, Option.bind_eq_bind] at h
  cases hr : replaceInputsDef tbl d.term with
  | none => simp [hr] at h
  | some d' =>
  obtain ⟨hws, hA, hL⟩ := replaceInputsDef_good ht hd hr
  simp only [hr, Option.bind_some] at h
  cases d' with
  | Store a e =>
    simp only [Option.some.injEq, Prod.mk.injEq] at h
    obtain ⟨rfl, _⟩ := h
    intro x hx; simp only [List.mem_singleton] at hx; subst hx; exact hws
  | Assign var value =>
    obtain ⟨e₀, _, hfit⟩ := hA var value rfl
    simp only at h
    cases ho : outputSubregister tbl var with
    | none => simp [ho] at h
    | some o =>
    simp only [ho, Option.bind_some] at h
    cases o with
    | none =>
      simp only [Option.some.injEq, Prod.mk.injEq] at h
      obtain ⟨rfl, _⟩ := h
      intro x hx; simp only [List.mem_singleton] at hx; subst hx; exact hws
    | some rb =>
      obtain ⟨r, b⟩ := rb
      obtain ⟨f1, f2, f3⟩ := outputSub_facts ht hfit ho
      simp only at h
      split at h
      · -- cast-to-base fusion
        split at h
        · next t w castExpr hcast =>
          simp only [Option.some.injEq, Prod.mk.injEq] at h
          obtain ⟨rfl, _⟩ := h
          intro x hx; simp only [List.mem_singleton] at hx; subst hx
          obtain ⟨hnw, _⟩ := hn _ rfl
          obtain ⟨g1, g2⟩ := substVar_ws hws.2.1 hws.2.2 castExpr hnw.2.1
          exact ⟨hnw.1, g1, g2.trans hnw.2.2⟩
        · cases h
      · simp only [Option.some.injEq, Prod.mk.injEq] at h
        obtain ⟨rfl, _⟩ := h
        intro x hx; simp only [List.mem_singleton] at hx; subst hx
        exact ⟨f2, pieceTogether_ws hws.2.1 hws.2.2 hws.1 f1 f3⟩
  | Load var address =>
    obtain ⟨a₀, _, hfit⟩ := hL var address rfl
    simp only at h
    cases ho : outputSubregister tbl var with
    | none => simp [ho] at h
    | some o =>
    simp only [ho, Option.bind_some] at h
    cases o with
    | none =>
      simp only [Option.some.injEq, Prod.mk.injEq] at h
      obtain ⟨rfl, _⟩ := h
      intro x hx; simp only [List.mem_singleton] at hx; subst hx; exact hws
    | some rb =>
      obtain ⟨r, b⟩ := rb
      obtain ⟨f1, f2, f3⟩ := outputSub_facts ht hfit ho
      have hload : WellSizedDef ptr (.Load ⟨"loaded_value", var.size, true⟩ address) := ⟨hws.1, hws.2⟩
      have htemp : WellSized (.Var ⟨"loaded_value", var.size, true⟩) := hws.1
      simp only at h
      split at h
      · split at h
        · next t w castExpr hcast =>
          simp only [Option.some.injEq, Prod.mk.injEq] at h
          obtain ⟨rfl, _⟩ := h
          intro x hx
          simp only [List.mem_cons, List.mem_nil_iff, or_false] at hx
          rcases hx with rfl | rfl
          · exact hload
          · obtain ⟨hnw, _⟩ := hn _ rfl
            obtain ⟨g1, g2⟩ := substVar_ws (v := var) htemp rfl castExpr hnw.2.1
            exact ⟨hnw.1, g1, g2.trans hnw.2.2⟩
        · cases h
      · simp only [Option.some.injEq, Prod.mk.injEq] at h
        obtain ⟨rfl, _⟩ := h
        intro x hx
        simp only [List.mem_cons, List.mem_nil_iff, or_false] at hx
        rcases hx with rfl | rfl
        · exact hload
        · exact ⟨f2, pieceTogether_ws htemp rfl hws.1 f1 f3⟩

/-- **`compute_replacement_defs_for_block`** maps size-consistent raw defs to size-consistent defs. -/
theorem replaceDefs_ws {tbl : RegTable} (ht : tableOk tbl = true) {ptr : Nat} :
    ∀ (n : Nat) (l : List (Term Def)), l.length ≤ n → (∀ d ∈ l, GoodDef tbl ptr d.term) →
      ∀ out, replaceDefs tbl l = some out → ∀ x ∈ out, WellSizedDef ptr x.term := by
  intro n
  induction n with
  | zero =>
    intro l hl _ out h
    have : l = [] := List.eq_nil_of_length_eq_zero (by omega)
    subst this
    simp [replaceDefs] at h; subst h
    intro x hx; cases hx
  | succ n ih =>
    intro l hl hg out h
    cases l with
    | nil => simp [replaceDefs] at h; subst h; intro x hx; cases hx
    | cons d rest =>
      rw [replaceDefs] at h
      simp only [Option.bind_eq_bind] at h
      cases hs : replaceStep tbl d rest.head? with
      | none => simp [hs] at h
      | some oc =>
        obtain ⟨outs, c⟩ := oc
        simp only [hs, Option.bind_some] at h
        cases ht' : replaceDefs tbl (if c = true then rest.tail else rest) with
        | none => simp [ht'] at h
        | some tail =>
          simp only [ht', Option.bind_some, Option.some.injEq] at h
          subst h
          have hrest : ∀ d' ∈ rest, GoodDef tbl ptr d'.term := fun d' hd' => hg d' (List.mem_cons_of_mem _ hd')
          have h1 := replaceStep_ws ht (hg d List.mem_cons_self)
            (fun nd hnd => hrest nd (List.mem_of_mem_head? hnd)) hs
          have h2 : ∀ x ∈ tail, WellSizedDef ptr x.term := by
            apply ih _ _ _ tail ht'
            · simp only [List.length_cons] at hl
              split
              · simp only [List.length_tail]; omega
              · omega
            · intro d' hd'
              split at hd'
              · exact hrest d' (List.mem_of_mem_tail hd')
              · exact hrest d' hd'
          intro x hx
          rcases List.mem_append.mp hx with hx | hx
          · exact h1 x hx
          · exact h2 x hx

theorem replaceJump_ws {tbl : RegTable} (ht : tableOk tbl = true) {ptr : Nat} {j j' : Jmp}
    (hj : GoodJmp tbl ptr j) (h : replaceSubregisterInJump tbl j = some j') : WellSizedJmp ptr j' := by
  obtain ⟨hws, hfit⟩ := hj
  cases j with
  | Branch t => simp [replaceSubregisterInJump] at h; subst h; exact hws
  | Call t r => simp [replaceSubregisterInJump] at h; subst h; exact hws
  | CallOther s r => simp [replaceSubregisterInJump] at h; subst h; exact hws
  | BranchInd e =>
    simp only [replaceSubregisterInJump, Option.bind_eq_bind] at h
    cases hr : replaceInputSubregister tbl e with
    | none => simp [hr] at h
    | some e' =>
      simp only [hr, Option.bind_some, Option.some.injEq] at h; subst h
      obtain ⟨h1, h2⟩ := replaceInput_ws ht ⟨hws.1, hfit⟩ hr
      exact ⟨h1, h2.trans hws.2⟩
  | CBranch t e =>
    simp only [replaceSubregisterInJump, Option.bind_eq_bind] at h
    cases hr : replaceInputSubregister tbl e with
    | none => simp [hr] at h
    | some e' =>
      simp only [hr, Option.bind_some, Option.some.injEq] at h; subst h
      obtain ⟨h1, h2⟩ := replaceInput_ws ht ⟨hws.1, hfit⟩ hr
      exact ⟨h1, h2.trans hws.2⟩
  | CallInd e r =>
    simp only [replaceSubregisterInJump, Option.bind_eq_bind] at h
    cases hr : replaceInputSubregister tbl e with
    | none => simp [hr] at h
    | some e' =>
      simp only [hr, Option.bind_some, Option.some.injEq] at h; subst h
      obtain ⟨h1, h2⟩ := replaceInput_ws ht ⟨hws.1, hfit⟩ hr
      exact ⟨h1, h2.trans hws.2⟩
  | Return e =>
    simp only [replaceSubregisterInJump, Option.bind_eq_bind] at h
    cases hr : replaceInputSubregister tbl e with
    | none => simp [hr] at h
    | some e' =>
      simp only [hr, Option.bind_some, Option.some.injEq] at h; subst h
      obtain ⟨h1, h2⟩ := replaceInput_ws ht ⟨hws.1, hfit⟩ hr
      exact ⟨h1, h2.trans hws.2⟩

/-- **`replace_subregister_in_block`** maps a block of size-consistent raw IR to a size-consistent block. -/
theorem replaceBlock_ws {tbl : RegTable} (ht : tableOk tbl = true) {ptr : Nat} {b b' : Blk}
    (hd : ∀ d ∈ b.defs, GoodDef tbl ptr d.term) (hj : ∀ j ∈ b.jmps, GoodJmp tbl ptr j.term)
    (h : replaceSubregisterInBlock tbl b = some b') : WellSizedBlk ptr b' := by
  simp only [replaceSubregisterInBlock, Option.bind_eq_bind] at h
  cases hm : mapOpt (fun j : Term Jmp => (replaceSubregisterInJump tbl j.term).bind
      fun r => some (⟨j.tid, r⟩ : Term Jmp)) b.jmps with
  | none => simp [hm] at h
  | some jmps =>
  cases hr : replaceDefs tbl b.defs with
  | none => simp [hm, hr] at h
  | some defs =>
    simp only [hm, hr, Option.bind_some, Option.some.injEq] at h
    subst h
    refine ⟨replaceDefs_ws ht _ b.defs (Nat.le_refl _) hd defs hr, ?_⟩
    intro j' hj'
    obtain ⟨j, hjm, hfj⟩ := (mapOpt_some _ _ _ hm).2 j' hj'
    cases hrj : replaceSubregisterInJump tbl j.term with
    | none => simp [hrj] at hfj
    | some jt =>
      simp only [hrj, Option.bind_some, Option.some.injEq] at hfj
      subst hfj
      exact replaceJump_ws ht (hj j hjm) hrj

/-! ### `add_load_defs_for_implicit_ram_access` -/

theorem vsize_some (v : Pcode.Var) : vsize (some v) = v.size := rfl

/-- the explicit load inserted for a RAM varnode: `$load_temp<i> = LOAD <address constant of pointer size>` -/
theorem toLoadDef_ndef {tbl : RegTable} (ht : tableOk tbl = true) {ptr : Nat} (hp0 : 0 < ptr) {v : Pcode.Var}
    (hv : 0 < v.size) {tmp : String} (htmp : tmp ∈ liftTempNames) {ld : Pcode.Def}
    (h : toLoadDef v tmp ptr = some ld) :
    NDef tbl ptr ld ∧ ld.lhs = some { name := some tmp, size := v.size, isVirtual := true } := by
  simp only [toLoadDef, Option.bind_eq_bind] at h
  cases ha : v.address with
  | none => simp [ha] at h
  | some a =>
    simp only [ha, Option.bind_some, Option.some.injEq] at h
    subst h
    refine ⟨⟨?_, ?_, ?_, ?_, ?_, ?_⟩, rfl⟩
    · intro w hw; cases hw
    · intro w hw
      simp only [Option.some.injEq] at hw; subst hw
      exact ⟨hp0, fun n r hn _ => by cases hn⟩
    · intro w hw; cases hw
    · intro _ w hw
      simp only [Option.some.injEq] at hw; subst hw
      exact liftTemp_varFit ht htmp hv
    · simp [pcodeDefSized, opKind, vsize]
    · intro hk; simp [opKind] at hk

theorem toLoadDef_mnemonic {v : Pcode.Var} {tmp : String} {ptr : Nat} {ld : Pcode.Def}
    (h : toLoadDef v tmp ptr = some ld) : ld.rhs.mnemonic = .LOAD := by
  simp only [toLoadDef, Option.bind_eq_bind] at h
  cases ha : v.address with
  | none => simp [ha] at h
  | some a => simp only [ha, Option.bind_some, Option.some.injEq] at h; subst h; rfl

/-- one input slot: the inserted load is in the size domain, the replacement operand fits and has the
size of the original operand; a non-RAM operand is unchanged -/
theorem loadFor_spec {tbl : RegTable} (ht : tableOk tbl = true) {ptr : Nat} (hp0 : 0 < ptr) {tid : Tid}
    {inp : Option Pcode.Var} (hin : optVarOk? tbl inp = true) {tmp sfx : String} (htmp : tmp ∈ liftTempNames)
    {l : List (Term Pcode.Def)} {i' : Option Pcode.Var} (h : loadFor tid inp tmp sfx ptr = some (l, i')) :
    (∀ x ∈ l, NDef tbl ptr x.term) ∧ (∀ w, i' = some w → varFit tbl w) ∧ vsize i' = vsize inp ∧
      (i' = inp ∨ ∃ v, inp = some v ∧ v.address.isSome = true) := by
  unfold loadFor at h
  cases inp with
  | none =>
    simp only [Option.some.injEq, Prod.mk.injEq] at h
    obtain ⟨rfl, rfl⟩ := h
    exact ⟨fun x hx => (by cases hx), fun w hw => (by cases hw), rfl, .inl rfl⟩
  | some v =>
    have hv : varOk tbl v = true := hin
    simp only at h
    split at h
    · next hadr =>
      simp only [Option.bind_eq_bind] at h
      cases hl : toLoadDef v tmp ptr with
      | none => simp [hl] at h
      | some ld =>
        simp only [hl, Option.bind_some, Option.some.injEq, Prod.mk.injEq] at h
        obtain ⟨rfl, rfl⟩ := h
        obtain ⟨h1, h2⟩ := toLoadDef_ndef ht hp0 (varOk_varFit hv).1 htmp hl
        refine ⟨?_, ?_, ?_, .inr ⟨v, rfl, hadr⟩⟩
        · intro x hx; simp only [List.mem_singleton] at hx; subst hx; exact h1
        · intro w hw; exact h1.out (by simp [toLoadDef_mnemonic hl, opKind]) w hw
        · rw [h2]; rfl
    · simp only [Option.some.injEq, Prod.mk.injEq] at h
      obtain ⟨rfl, rfl⟩ := h
      refine ⟨fun x hx => (by cases hx), ?_, rfl, .inl rfl⟩
      intro w hw; cases hw; exact varOk_varFit hv

/-- a constant varnode has no address -/
theorem constOperand_noaddr {c : Pcode.Var} (h : (constOperand c).isSome = true) : c.address = none := by
  unfold constOperand at h
  cases hk : c.kind with
  | const x => exact (kind_const hk).2.1
  | reg n => simp [hk] at h
  | tmp n => simp [hk] at h
  | ram a => simp [hk] at h
  | bad => simp [hk] at h

/-- **`add_load_defs_for_implicit_ram_access`, one instruction**: the explicit loads and the rewritten
instruction are in the size domain of normalized P-Code. -/
theorem addLoadsDef_ndef {tbl : RegTable} (ht : tableOk tbl = true) {ptr : Nat} (hp0 : 0 < ptr)
    {d : Term Pcode.Def} (hok : defOk tbl d.term = true) (hs : pcodeDefSized ptr d.term = true)
    {ds : List (Term Pcode.Def)} (h : addLoadsDef ptr d = some ds) : ∀ x ∈ ds, NDef tbl ptr x.term := by
  unfold defOk at hok
  simp only [Bool.and_eq_true] at hok
  obtain ⟨⟨⟨hi0, hi1⟩, hi2⟩, hkind⟩ := hok
  simp only [addLoadsDef, Option.bind_eq_bind] at h
  cases h0 : loadFor d.tid d.term.rhs.input0 "$load_temp0" "_load0" ptr with
  | none => simp [h0] at h
  | some p0 =>
  obtain ⟨l₀, i₀⟩ := p0
  cases h1 : loadFor d.tid d.term.rhs.input1 "$load_temp1" "_load1" ptr with
  | none => simp [h0, h1] at h
  | some p1 =>
  obtain ⟨l₁, i₁⟩ := p1
  cases h2 : loadFor d.tid d.term.rhs.input2 "$load_temp2" "_load2" ptr with
  | none => simp [h0, h1, h2] at h
  | some p2 =>
  obtain ⟨l₂, i₂⟩ := p2
  simp only [h0, h1, h2, Option.bind_some, Option.some.injEq] at h
  subst h
  obtain ⟨a1, a2, a3, _⟩ := loadFor_spec ht hp0 hi0 (by simp [liftTempNames]) h0
  obtain ⟨b1, b2, b3, b4⟩ := loadFor_spec ht hp0 hi1 (by simp [liftTempNames]) h1
  obtain ⟨c1, c2, _, _⟩ := loadFor_spec ht hp0 hi2 (by simp [liftTempNames]) h2
  -- the output operand is well formed whenever the instruction has one
  have hout : opKind d.term.rhs.mnemonic ≠ .store → ∀ v, d.term.lhs = some v → varFit tbl v := by
    intro hns v hv
    cases hk : opKind d.term.rhs.mnemonic <;> simp only [hk, hv, Bool.and_eq_true] at hkind
    all_goals first
      | exact absurd hk hns
      | exact varOk_varFit hkind.1.1
      | exact varOk_varFit hkind.1.1.1
  intro x hx
  simp only [List.mem_append, List.mem_singleton] at hx
  rcases hx with ((hx | hx) | hx) | hx
  · exact a1 x hx
  · exact b1 x hx
  · exact c1 x hx
  · subst hx
    have hsub : opKind d.term.rhs.mnemonic = .subpiece →
        i₁ = d.term.rhs.input1 ∧ ∀ c, d.term.rhs.input1 = some c → subpieceOffsetOk c = true := by
      intro hk
      simp only [hk, Bool.and_eq_true] at hkind
      cases hi : d.term.rhs.input1 with
      | none => simp [hi] at hkind
      | some c =>
        have hoff : subpieceOffsetOk c = true := by simpa [hi] using hkind.2
        refine ⟨?_, fun c' hc' => by cases hc'; exact hoff⟩
        rcases b4 with h | ⟨v, hv, hadr⟩
        · rw [h, hi]
        · rw [hi] at hv; cases hv
          have : (constOperand c).isSome = true := by
            unfold subpieceOffsetOk at hoff
            simp only [Bool.and_eq_true] at hoff
            exact hoff.1.2
          rw [constOperand_noaddr this] at hadr
          simp at hadr
    refine ⟨a2, b2, c2, hout, ?_, ?_⟩
    · unfold pcodeDefSized at hs ⊢
      simp only [a3, b3]
      cases hk : opKind d.term.rhs.mnemonic with
      | subpiece => rw [(hsub hk).1]; simpa [hk] using hs
      | _ => simpa [hk] using hs
    · intro hk c hc
      have := hsub hk
      exact this.2 c (by rw [← this.1]; exact hc)

/-- a well formed, size-consistent jump whose operand is not rewritten is in the size domain -/
theorem jmpOk_njmp {tbl : RegTable} {ptr : Nat} {j : Pcode.Jmp} (hok : jmpOk tbl j = true)
    (hs : pcodeJmpSized ptr j = true) : NJmp tbl ptr j := by
  refine ⟨?_, hs⟩
  intro v hv
  unfold jmpOk at hok
  unfold jmpOperand at hv
  cases hm : j.mnemonic <;> simp only [hm] at hok hv
  · cases hv
  · -- CBRANCH
    simp only [Bool.and_eq_true] at hok
    rw [hv] at hok
    simp only [Bool.and_eq_true] at hok
    exact varOk_varFit hok.2.1
  · -- BRANCHIND
    cases hg : j.goto with
    | none => simp [hg] at hv
    | some l =>
      cases l with
      | Direct t => simp [hg, Pcode.Label.indirect?] at hv
      | Indirect w =>
        simp only [hg, Option.bind_some, Pcode.Label.indirect?, Option.some.injEq] at hv
        subst hv
        simp only [hg] at hok
        exact varOk_varFit hok
  · cases hv
  · -- CALLIND
    cases hc : j.call with
    | none => simp [hc] at hv
    | some c =>
      cases hg : c.target with
      | none => simp [hc, hg] at hv
      | some l =>
        cases l with
        | Direct t => simp [hc, hg, Pcode.Label.indirect?] at hv
        | Indirect w =>
          simp only [hc, hg, Option.bind_some, Pcode.Label.indirect?, Option.some.injEq] at hv
          subst hv
          simp only [hc, hg, Bool.and_eq_true] at hok
          exact varOk_varFit hok.1
  · cases hv
  · -- RETURN
    cases hg : j.goto with
    | none => simp [hg] at hv
    | some l =>
      cases l with
      | Direct t => simp [hg, Pcode.Label.indirect?] at hv
      | Indirect w =>
        simp only [hg, Option.bind_some, Pcode.Label.indirect?, Option.some.injEq] at hv
        subst hv
        simp only [hg, Bool.and_eq_true] at hok
        exact varOk_varFit hok.1

/-- **`add_load_defs_for_implicit_ram_access`, the jump of a block** (first jump: temporary `$load_temp0`):
a RAM target of an indirect jump or call becomes an explicit load of pointer size. -/
theorem addLoadsJmp_spec {tbl : RegTable} (ht : tableOk tbl = true) {ptr : Nat} (hp0 : 0 < ptr)
    {j : Term Pcode.Jmp} (hok : jmpOk tbl j.term = true) (hs : pcodeJmpSized ptr j.term = true)
    {l : List (Term Pcode.Def)} {j' : Term Pcode.Jmp} (h : addLoadsJmp ptr 0 j = some (l, j')) :
    (∀ x ∈ l, NDef tbl ptr x.term) ∧ NJmp tbl ptr j'.term := by
  have hbase := jmpOk_njmp hok hs
  have hname : "$load_temp" ++ toString (0 : Nat) ∈ liftTempNames := by rw [loadTempName0]; simp [liftTempNames]
  unfold addLoadsJmp at h
  cases hm : j.term.mnemonic with
  | BRANCHIND =>
    simp only [hm, Option.bind_eq_bind] at h
    cases hg : j.term.goto with
    | none => simp [hg] at h
    | some lab =>
    cases lab with
    | Direct t => simp [hg, labelIndirect] at h
    | Indirect v =>
      simp only [hg, labelIndirect, Option.bind_some] at h
      have hv : varFit tbl v := hbase.operand v (by simp [jmpOperand, hm, hg, Pcode.Label.indirect?])
      have hsz : v.size = ptr := by
        have := hs; simp only [pcodeJmpSized, hm, hg, beq_iff_eq] at this; exact this
      split at h
      · cases hl : toLoadDef v ("$load_temp" ++ toString (0 : Nat)) ptr with
        | none => rw [hl] at h; simp at h
        | some ld =>
          obtain ⟨h1, h2⟩ := toLoadDef_ndef ht hp0 hv.1 hname hl
          rw [hl] at h
          simp only [h2, Option.bind_some, Option.some.injEq, Prod.mk.injEq] at h
          obtain ⟨rfl, rfl⟩ := h
          refine ⟨?_, ⟨?_, ?_⟩⟩
          · intro x hx; simp only [List.mem_singleton] at hx; subst hx; exact h1
          · intro w hw
            simp only [jmpOperand, hm, Option.bind_some, Pcode.Label.indirect?, Option.some.injEq] at hw
            subst hw
            exact liftTemp_varFit ht hname hv.1
          · simp [pcodeJmpSized, hm, hsz]
      · simp only [Option.some.injEq, Prod.mk.injEq] at h
        obtain ⟨rfl, rfl⟩ := h
        exact ⟨fun x hx => (by cases hx), hbase⟩
  | CALLIND =>
    simp only [hm, Option.bind_eq_bind] at h
    cases hc : j.term.call with
    | none => simp [hc] at h
    | some c =>
    cases hg : c.target with
    | none => simp [hc, hg] at h
    | some lab =>
    cases lab with
    | Direct t => simp [hc, hg, labelIndirect] at h
    | Indirect v =>
      simp only [hc, hg, labelIndirect, Option.bind_some] at h
      have hv : varFit tbl v := hbase.operand v (by simp [jmpOperand, hm, hc, hg, Pcode.Label.indirect?])
      have hsz : v.size = ptr := by
        have := hs; simp only [pcodeJmpSized, hm, hc, hg, beq_iff_eq] at this; exact this
      split at h
      · cases hl : toLoadDef v ("$load_temp" ++ toString (0 : Nat)) ptr with
        | none => rw [hl] at h; simp at h
        | some ld =>
          obtain ⟨h1, h2⟩ := toLoadDef_ndef ht hp0 hv.1 hname hl
          rw [hl] at h
          simp only [h2, Option.bind_some, Option.some.injEq, Prod.mk.injEq] at h
          obtain ⟨rfl, rfl⟩ := h
          refine ⟨?_, ⟨?_, ?_⟩⟩
          · intro x hx; simp only [List.mem_singleton] at hx; subst hx; exact h1
          · intro w hw
            simp only [jmpOperand, hm, Option.bind_some, Pcode.Label.indirect?, Option.some.injEq] at hw
            subst hw
            exact liftTemp_varFit ht hname hv.1
          · simp [pcodeJmpSized, hm, hsz]
      · simp only [Option.some.injEq, Prod.mk.injEq] at h
        obtain ⟨rfl, rfl⟩ := h
        exact ⟨fun x hx => (by cases hx), hbase⟩
  | _ =>
    simp only [hm, Option.some.injEq, Prod.mk.injEq] at h
    obtain ⟨rfl, rfl⟩ := h
    exact ⟨fun x hx => (by cases hx), hbase⟩

/-- the jumps of a block (`jmpsShapeOk`: none, one, or CBRANCH + BRANCH) -/
theorem addLoadsJmps_spec {tbl : RegTable} (ht : tableOk tbl = true) {ptr : Nat} (hp0 : 0 < ptr)
    {js : List (Term Pcode.Jmp)} (hok : ∀ j ∈ js, jmpOk tbl j.term = true)
    (hs : ∀ j ∈ js, pcodeJmpSized ptr j.term = true) (hshape : jmpsShapeOk js = true)
    {ls : List (Term Pcode.Def)} {js' : List (Term Pcode.Jmp)} (h : addLoadsJmps ptr 0 js = some (ls, js')) :
    (∀ x ∈ ls, NDef tbl ptr x.term) ∧ ∀ j' ∈ js', NJmp tbl ptr j'.term := by
  match js, hshape with
  | [], _ =>
    simp only [addLoadsJmps, Option.some.injEq, Prod.mk.injEq] at h
    obtain ⟨rfl, rfl⟩ := h
    exact ⟨fun x hx => (by cases hx), fun x hx => (by cases hx)⟩
  | [j], _ =>
    simp only [addLoadsJmps, Option.bind_eq_bind] at h
    cases h1 : addLoadsJmp ptr 0 j with
    | none => simp [h1] at h
    | some q =>
      obtain ⟨l, j'⟩ := q
      simp only [h1, Option.bind_some, Option.some.injEq, Prod.mk.injEq, List.append_nil] at h
      obtain ⟨rfl, rfl⟩ := h
      obtain ⟨g1, g2⟩ := addLoadsJmp_spec ht hp0 (hok j (by simp)) (hs j (by simp)) h1
      exact ⟨g1, fun x hx => by simp only [List.mem_singleton] at hx; subst hx; exact g2⟩
  | [c, b], hsh =>
    simp only [jmpsShapeOk, Bool.and_eq_true, decide_eq_true_eq] at hsh
    simp only [addLoadsJmps, addLoadsJmp, hsh.1, hsh.2, Option.bind_eq_bind, Option.bind_some,
      Option.some.injEq, Prod.mk.injEq, List.append_nil] at h
    obtain ⟨rfl, rfl⟩ := h
    refine ⟨fun x hx => (by cases hx), fun x hx => ?_⟩
    simp only [List.mem_cons, List.mem_nil_iff, or_false] at hx
    rcases hx with rfl | rfl
    · exact jmpOk_njmp (hok _ (by simp)) (hs _ (by simp))
    · exact jmpOk_njmp (hok _ (by simp)) (hs _ (by simp))
  | _ :: _ :: _ :: _, hsh => simp [jmpsShapeOk] at hsh

/-! ### the lifting of a block and of a project -/

/-- **C12-lift-block.** For every consistent register table and every block of in-domain, size-consistent
P-Code, the block produced by the lifting (`add_load_defs_for_implicit_ram_access`, `into_ir_blk`,
`replace_subregister_in_block`) is size-consistent: every def and jump is well-sized (incl. the
Piece/Subpiece expressions of the sub-register replacement, the `loaded_value` temporaries, the explicit
loads of RAM operands, the fused casts), assignments have the size of the assigned variable, load/store
addresses and indirect targets have pointer size, conditions one byte. -/
theorem liftBlk_wellSized {tbl : RegTable} (ht : tableOk tbl = true) {ptr : Nat} (hp0 : 0 < ptr)
    {b : Pcode.Blk} (hb : blkOk tbl b = true) (hs : pcodeBlkSized ptr b = true) {ib : Blk}
    (h : liftBlk tbl ptr b = some ib) : WellSizedBlk ptr ib := by
  unfold blkOk at hb
  simp only [Bool.and_eq_true, List.all_eq_true] at hb
  obtain ⟨⟨hdefs, hjmps⟩, hshape⟩ := hb
  unfold pcodeBlkSized at hs
  simp only [Bool.and_eq_true, List.all_eq_true] at hs
  obtain ⟨hsd, hsj⟩ := hs
  simp only [liftBlk, Option.bind_eq_bind] at h
  cases hal : addLoadDefs ptr b with
  | none => simp [hal] at h
  | some nb =>
  cases hir : blkToIr ptr nb with
  | none => simp [hal, hir] at h
  | some rb =>
  simp only [hal, hir, Option.bind_some] at h
  -- normalized P-Code
  simp only [addLoadDefs, Option.bind_eq_bind] at hal
  cases hm : mapOpt (addLoadsDef ptr) b.defs with
  | none => simp [hm] at hal
  | some ds =>
  cases hj : addLoadsJmps ptr 0 b.jmps with
  | none => simp [hm, hj] at hal
  | some q =>
  obtain ⟨ls, js⟩ := q
  simp only [hm, hj, Option.bind_some, Option.some.injEq] at hal
  subst hal
  obtain ⟨hls, hjs⟩ := addLoadsJmps_spec ht hp0 hjmps hsj hshape hj
  have hnd : ∀ x ∈ ds.flatten ++ ls, NDef tbl ptr x.term := by
    intro x hx
    rcases List.mem_append.mp hx with hx | hx
    · obtain ⟨l, hl, hxl⟩ := List.mem_flatten.mp hx
      obtain ⟨d, hd, hfd⟩ := (mapOpt_some _ _ _ hm).2 l hl
      exact addLoadsDef_ndef ht hp0 (hdefs d hd) (hsd d hd) hfd x hxl
    · exact hls x hx
  -- raw IR
  simp only [blkToIr, Option.bind_eq_bind] at hir
  cases hrd : mapOpt (fun d : Term Pcode.Def => (defToIr ptr d.term).bind fun r => some (⟨d.tid, r⟩ : Term Def))
      (ds.flatten ++ ls) with
  | none => simp [hrd] at hir
  | some rdefs =>
  cases hrj : mapOpt (fun j : Term Pcode.Jmp => (jmpToIr j.term).bind fun r => some (⟨j.tid, r⟩ : Term Jmp)) js with
  | none => simp [hrd, hrj] at hir
  | some rjmps =>
  simp only [hrd, hrj, Option.bind_some, Option.some.injEq] at hir
  subst hir
  apply replaceBlock_ws ht _ _ h
  · intro d' hd'
    obtain ⟨d, hd, hfd⟩ := (mapOpt_some _ _ _ hrd).2 d' hd'
    cases hdi : defToIr ptr d.term with
    | none => simp [hdi] at hfd
    | some t =>
      simp only [hdi, Option.bind_some, Option.some.injEq] at hfd
      subst hfd
      exact defToIr_good hp0 (hnd d hd) hdi
  · intro j' hj'
    obtain ⟨j, hjm, hfj⟩ := (mapOpt_some _ _ _ hrj).2 j' hj'
    cases hji : jmpToIr j.term with
    | none => simp [hji] at hfj
    | some t =>
      simp only [hji, Option.bind_some, Option.some.injEq] at hfj
      subst hfj
      exact jmpToIr_good (hjs j hjm) hji

/-- **C12-lift (the lifting half of the property).** For every P-Code project of the extractor domain
(`projectOk`: consistent register table, well formed varnodes and instructions; `projectSized`: operand
sizes consistent with the operations, as the P-Code manual prescribes) the program produced by
`parse_pcode_project_to_ir_project` (`Project::normalize` of the P-Code + `into_ir_project`, model
`C11.Lift.liftProject`) is size-consistent with the pointer size of the stack pointer register. -/
theorem lift_wellSized {p : Pcode.Project} (hp : projectOk p = true) (hs : projectSized p = true)
    {prog : Program} (h : liftProject p = some prog) : WellSizedProgram prog p.pointerSize := by
  unfold projectOk at hp
  simp only [Bool.and_eq_true, List.all_eq_true, decide_eq_true_eq] at hp
  obtain ⟨⟨ht, hp0⟩, hblk⟩ := hp
  unfold projectSized at hs
  simp only [List.all_eq_true] at hs
  intro s hsub ib hib
  obtain ⟨ps, hps, _, pb, hpb, _, hl⟩ := liftProject_blocks h s hsub ib hib
  exact liftBlk_wellSized ht hp0 (hblk ps hps pb hpb) (hs ps hps pb hpb) hl

/-! ### non-vacuity: the hypotheses hold for a concrete project with a sub-register write in the middle of
the base register (`AH`), a shift, a cast-to-base idiom, an implicit RAM load and an indirect jump through
RAM (the example block of C11), and its lifted program exists -/

def exProject : Pcode.Project :=
  { programTid := ⟨"prog", "1000"⟩,
    program := { subs := [⟨⟨"sub_1000", "1000"⟩, { name := "f", blocks := [⟨⟨"blk_1000", "1000"⟩, exBlk⟩] }⟩] },
    cpuArchitecture := "x86_64",
    stackPointerRegister := rv "RSP" 8,
    registerProperties := exTbl }

theorem exProject_ok : projectOk exProject = true := by decide
theorem exProject_sized : projectSized exProject = true := by decide
theorem exBlk_sized : pcodeBlkSized 8 exBlk = true := by decide

/-- the lifted block exists (by `C11.liftBlk_sim`, from a defined execution) and is size-consistent -/
example : ∃ ib, liftBlk exTbl 8 exBlk = some ib ∧ WellSizedBlk 8 ib := by
  obtain ⟨eff, h⟩ := Option.isSome_iff_exists.mp exExec
  obtain ⟨ib, _, _, _, _, h1, _⟩ :=
    liftBlk_sim exTbl_ok (by decide : 0 < 8) exEnv (by decide) exBlk exBlk_ok (WellTyped.initial exState rfl) rfl h
  exact ⟨ib, h1, liftBlk_wellSized exTbl_ok (by decide) exBlk_ok exBlk_sized h1⟩

example : ∀ prog, liftProject exProject = some prog → WellSizedProgram prog 8 :=
  fun _ h => lift_wellSized exProject_ok exProject_sized h

/-- an instruction outside the size domain: adding a 4-byte constant to an 8-byte register -/
example : pcodeDefSized 8 (ins "i" (rv "RAX" 8) .INT_ADD (rv "RAX" 8) (some (cv "1" 4))).term = false := by decide

end CweModel.C12
