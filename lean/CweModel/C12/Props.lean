/-
C12 — Lifted and normalized IR is size-consistent: preservation of `WellSized` by the optimizing
normalization passes (models of C10).

  "every expression in the lifted and fully normalized program is well-sized: operands of same-size
   operations have equal sizes, piece/subpiece/extension sizes are consistent with their operands, every
   assignment stores a value of the assigned variable's size, and every load/store address has pointer size."

The typing walk is `WellSizedProgram` (C12/Model.lean). The theorems here: every rewriting step the
optimizing passes perform maps well-sized terms to well-sized terms of the same size; with the lifting
half (`C12/Lift.lean`: `lift_wellSized`, over the model of the lifting of C11) and the basic normalization
(`C12/Basic.lean`: `normalizeBasic_wellSized`, over the model of C09) they compose to the statement of the
property end to end on the models: `lift_then_normalize_wellSized` at the end of this file.
-/
import CweModel.C10.TrivialProofs
import CweModel.C10.Propagation
import CweModel.C12.Lift
import CweModel.C12.Basic

namespace CweModel.C12
open CweModel CweModel.IR CweModel.C10

/-- an expression transformer that keeps sizes and well-sizedness -/
def SizePreserving (f : Expression → Expression) : Prop :=
  ∀ e, WellSized e → WellSized (f e) ∧ (f e).bytesize = e.bytesize

theorem wellSizedAs_map {f : Expression → Expression} (hf : SizePreserving f) {e : Expression} {n : Nat}
    (h : WellSizedAs e n) : WellSizedAs (f e) n :=
  ⟨(hf e h.1).1, (hf e h.1).2.trans h.2⟩

theorem wellSizedDef_map {f : Expression → Expression} (hf : SizePreserving f) {ptr : Nat} {d : Def}
    (h : WellSizedDef ptr d) : WellSizedDef ptr (mapDefExprs f d) := by
  cases d with
  | Assign v e => exact ⟨h.1, wellSizedAs_map hf h.2⟩
  | Load v a => exact ⟨h.1, wellSizedAs_map hf h.2⟩
  | Store a e => exact ⟨wellSizedAs_map hf h.1, (hf e h.2).1⟩

theorem wellSizedJmp_map {f : Expression → Expression} (hf : SizePreserving f) {ptr : Nat} {j : Jmp}
    (h : WellSizedJmp ptr j) : WellSizedJmp ptr (mapJmpExprs f j) := by
  cases j <;> first | exact wellSizedAs_map hf h | exact h

theorem wellSizedBlk_map {f : Expression → Expression} (hf : SizePreserving f) {ptr : Nat} {b : Term Blk}
    (h : WellSizedBlk ptr b.term) : WellSizedBlk ptr (mapBlkExprs f b).term := by
  constructor
  · intro d hd
    simp only [mapBlkExprs, List.mem_map] at hd
    obtain ⟨d₀, hd₀, rfl⟩ := hd
    exact wellSizedDef_map hf (h.1 d₀ hd₀)
  · intro j hj
    simp only [mapBlkExprs, List.mem_map] at hj
    obtain ⟨j₀, hj₀, rfl⟩ := hj
    exact wellSizedJmp_map hf (h.2 j₀ hj₀)

/-- lifting a block transformer to programs -/
theorem wellSizedProgram_mapBlocks {g : Term Blk → Term Blk} {ptr : Nat}
    (hg : ∀ b, WellSizedBlk ptr b.term → WellSizedBlk ptr (g b).term) {p : Program}
    (h : WellSizedProgram p ptr) : WellSizedProgram (mapProgramSubs (mapSubBlocks g) p) ptr := by
  intro s hs
  simp only [mapProgramSubs, List.mem_map] at hs
  obtain ⟨s₀, hs₀, rfl⟩ := hs
  intro b hb
  simp only [mapSubBlocks, List.mem_map] at hb
  obtain ⟨b₀, hb₀, rfl⟩ := hb
  exact hg b₀ (h s₀ hs₀ b₀ hb₀)

theorem substTrivial_sizePreserving : SizePreserving substTrivial :=
  fun _ hw => ⟨substTrivial_wellSized hw, substTrivial_bytesize hw⟩

/-- **C12-trivial-program.** `Project::substitute_trivial_expressions` keeps a program size-consistent. -/
theorem substTrivialProgram_wellSized {p : Program} {ptr : Nat} (h : WellSizedProgram p ptr) :
    WellSizedProgram (substTrivialProgram p) ptr :=
  wellSizedProgram_mapBlocks (fun _ hb => wellSizedBlk_map substTrivial_sizePreserving hb) h

/-- **C12-substitution.** Substituting a variable by a well-sized expression of the variable's size keeps
an expression well-sized and of the same size (`Expression::substitute_input_var`, used by expression
propagation and by the merging of assignments). -/
theorem substVar_wellSized {v : Variable} {by_ : Expression} (hb : WellSized by_) (hs : by_.bytesize = v.size) :
    SizePreserving (fun e => e.substVar v by_) :=
  substVar_ws hb hs   -- proved in C12/Lift.lean (needed there for the sub-register replacement)

/-- **C12-dead-defs.** Removing defs keeps a block size-consistent (dead-variable elimination). -/
theorem wellSizedBlk_filterDefs {ptr : Nat} {b : Blk} (h : WellSizedBlk ptr b) (keep : List (Term Def))
    (hsub : ∀ d ∈ keep, d ∈ b.defs) : WellSizedBlk ptr { b with defs := keep } :=
  ⟨fun d hd => h.1 d (hsub d hd), h.2⟩

/-- **C12-stack-alignment.** The rewrite of the stack alignment pass, `sp & mask ⇝ sp - offset` with a
constant of the mask's size, keeps the assignment well-sized. -/
theorem stackAlign_rewrite_wellSized {sp : Variable} {b x c : Nat}
    (h : WellSized (.BinOp .IntAnd (.Var sp) (.Const b x)) ∨ WellSized (.BinOp .IntAnd (.Const b x) (.Var sp))) :
    WellSized (.BinOp .IntSub (.Var sp) (.Const b c)) ∧
      (Expression.BinOp .IntSub (.Var sp) (.Const b c)).bytesize = sp.size := by
  rcases h with ⟨h1, h2, h3⟩ | ⟨h1, h2, h3⟩
  · exact ⟨⟨h1, h2, h3⟩, rfl⟩
  · have h3' : b = sp.size := h3
    exact ⟨⟨h2, h1, h3'.symm⟩, rfl⟩

/-! ### the pass models on programs -/

theorem mem_ite_cons {α : Type} {c : Bool} {x d : α} {l : List α}
    (h : d ∈ (if c = true then x :: l else l)) : d = x ∨ d ∈ l := by
  cases c <;> simp_all

theorem removeDeadDefs_subset (a : VarSet) (defs : List (Term Def)) :
    ∀ d ∈ (removeDeadDefs a defs).1, d ∈ defs := by
  induction defs with
  | nil => intro d hd; simp [removeDeadDefs] at hd
  | cons x xs ih =>
    intro d hd
    simp only [removeDeadDefs, List.foldr] at hd ih
    rcases mem_ite_cons hd with h | h
    · exact h ▸ List.mem_cons_self
    · exact List.mem_cons_of_mem _ (ih d h)

/-- **C12-dve.** `remove_dead_var_assignments` keeps a program size-consistent. -/
theorem removeDeadProgram_wellSized {phys : VarSet} {p : Program} {ptr : Nat} (h : WellSizedProgram p ptr) :
    WellSizedProgram (removeDeadProgram phys p) ptr := by
  intro s hs
  simp only [removeDeadProgram, mapProgramSubs, List.mem_map] at hs
  obtain ⟨s₀, hs₀, rfl⟩ := hs
  intro b hb
  simp only [removeDeadSub, mapSubBlocks, List.mem_map] at hb
  obtain ⟨b₀, hb₀, rfl⟩ := hb
  exact wellSizedBlk_filterDefs (h s₀ hs₀ b₀ hb₀) _ (removeDeadDefs_subset _ _)

theorem wellSizedJmp_retarget {ptr : Nat} (m : List (Tid × Tid)) {j : Term Jmp} (h : WellSizedJmp ptr j.term) :
    WellSizedJmp ptr (retargetJmp m j).term := by
  obtain ⟨tid, jt⟩ := j
  unfold retargetJmp
  split
  · exact h
  · cases jt with
    | CBranch t c => exact h
    | Call t r => cases r <;> exact h
    | CallInd e r => cases r <;> exact h
    | CallOther d r => cases r <;> exact h
    | _ => exact h

/-- **C12-cf.** `propagate_control_flow` (retargeting of jumps, removal of blocks) keeps a program size-consistent. -/
theorem propagateControlFlow_wellSized {p : Program} {ptr : Nat} (h : WellSizedProgram p ptr) :
    WellSizedProgram (propagateControlFlow p) ptr := by
  have h1 : WellSizedProgram (retargetJumps (allRetargets p) p) ptr := by
    unfold retargetJumps
    apply wellSizedProgram_mapBlocks _ h
    intro b hb
    refine ⟨hb.1, ?_⟩
    intro j hj
    simp only [List.mem_map] at hj
    obtain ⟨j₀, hj₀, rfl⟩ := hj
    exact wellSizedJmp_retarget _ (hb.2 j₀ hj₀)
  intro s hs
  simp only [propagateControlFlow, removeNewOrphanedBlocks, mapProgramSubs, List.mem_map] at hs
  obtain ⟨s₀, hs₀, rfl⟩ := hs
  have hs₀' := h1 s₀ hs₀
  split
  · exact hs₀'
  · next e rest heq =>
    intro b hb
    apply hs₀' b
    rw [heq]
    simp only [List.mem_cons, List.mem_filter] at hb ⊢
    rcases hb with hb | hb
    · exact .inl hb
    · exact .inr hb.1

theorem spConstPair_spec {sp : Variable} {l r : Expression} {b x : Nat} (h : spConstPair sp l r = some (b, x)) :
    (l = .Var sp ∧ r = .Const b x) ∨ (l = .Const b x ∧ r = .Var sp) := by
  unfold spConstPair at h
  split at h
  · split at h
    · next hv => cases h; subst hv; exact .inl ⟨rfl, rfl⟩
    · cases h
  · split at h
    · next hv => cases h; subst hv; exact .inr ⟨rfl, rfl⟩
    · cases h
  · cases h

theorem substituteAnd_wellSizedAs {sp : Variable} {e : Expression} {ea j : BitVec 64} {n : Nat}
    (h : WellSizedAs e n) : WellSizedAs (substituteAnd sp e ea j).1 n := by
  unfold substituteAnd
  split
  · next op l r =>
    split
    · next b x hp =>
      split
      · next hop =>
        subst hop
        split
        · exact h
        · obtain ⟨hw, hn⟩ := h
          rcases spConstPair_spec hp with ⟨rfl, rfl⟩ | ⟨rfl, rfl⟩
          · have := stackAlign_rewrite_wellSized (c := i64ToConst b (alignOffset j (constToI64 b x))) (.inl hw)
            exact ⟨this.1, this.2.trans hn⟩
          · have := stackAlign_rewrite_wellSized (c := i64ToConst b (alignOffset j (constToI64 b x))) (.inr hw)
            have hn' : b = n := hn
            obtain ⟨_, _, h3⟩ := hw
            have h3' : b = sp.size := h3
            exact ⟨this.1, by rw [this.2, ← h3', hn']⟩
      · exact h
    · exact h
  · exact h

theorem saStepDef_wellSized {sp : Variable} {ea : BitVec 64} {ptr : Nat} (acc : SaAcc) (d : Term Def)
    (hacc : ∀ x ∈ acc.defs, WellSizedDef ptr x.term) (hd : WellSizedDef ptr d.term) :
    ∀ x ∈ (saStepDef sp ea acc d).defs, WellSizedDef ptr x.term := by
  have keep : ∀ x ∈ d :: acc.defs, WellSizedDef ptr x.term := by
    intro x hx
    rcases List.mem_cons.mp hx with h | h
    · exact h ▸ hd
    · exact hacc x h
  unfold saStepDef
  split
  · exact keep
  · split
    · next v value hdt =>
      split
      · split
        · split <;> exact keep
        · split <;> exact keep
        · intro x hx
          simp only at hx
          rcases List.mem_cons.mp hx with h | h
          · subst h
            rw [hdt] at hd
            exact ⟨hd.1, substituteAnd_wellSizedAs hd.2⟩
          · exact hacc x h
        · exact keep
      · exact keep
    · split <;> exact keep
    · exact keep

theorem saFold_wellSized {sp : Variable} {ea : BitVec 64} {ptr : Nat} (defs : List (Term Def)) (acc : SaAcc)
    (hacc : ∀ x ∈ acc.defs, WellSizedDef ptr x.term) (hd : ∀ d ∈ defs, WellSizedDef ptr d.term) :
    ∀ x ∈ (defs.foldl (saStepDef sp ea) acc).defs, WellSizedDef ptr x.term := by
  induction defs generalizing acc with
  | nil => exact hacc
  | cons d ds ih =>
    simp only [List.foldl]
    exact ih _ (saStepDef_wellSized acc d hacc (hd d List.mem_cons_self))
      (fun x hx => hd x (List.mem_cons_of_mem _ hx))

theorem saSub_wellSized {sp : Variable} {ea : BitVec 64} {ptr : Nat} (logs : List String) (s : Term Sub)
    (h : WellSizedSub ptr s.term) : WellSizedSub ptr (saSub sp ea logs s).1.term := by
  unfold saSub
  split
  · exact h
  · next idx =>
    split
    · exact h
    · next blk hblk =>
      intro b hb
      simp only [replaceAt] at hb
      have hblkmem : blk ∈ s.term.blocks := List.mem_of_getElem? hblk
      rcases List.mem_or_eq_of_mem_set hb with hb | hb
      · exact h b hb
      · subst hb
        have hwb := h blk hblkmem
        refine ⟨fun d hd => ?_, hwb.2⟩
        simp only [List.mem_reverse] at hd
        exact saFold_wellSized blk.term.defs _ (by intro x hx; cases hx) hwb.1 d hd

/-- **C12-sa.** `substitute_and_on_stackpointer` keeps a program size-consistent. -/
theorem substituteAndOnStackpointer_wellSized {arch : String} {sp : Variable} {p : Program} {ptr : Nat}
    (h : WellSizedProgram p ptr) : WellSizedProgram (substituteAndOnStackpointer arch sp p).1 ptr := by
  unfold substituteAndOnStackpointer
  have key : ∀ (subs : List (Term Sub)) (acc : List (Term Sub) × List String),
      (∀ s ∈ subs, WellSizedSub ptr s.term) → (∀ s ∈ acc.1, WellSizedSub ptr s.term) →
      ∀ s ∈ (subs.foldl (fun (acc : List (Term Sub) × List String) s =>
        ((saSub sp (expectedAlignmentOf arch) acc.2 s).1 :: acc.1, (saSub sp (expectedAlignmentOf arch) acc.2 s).2))
        acc).1, WellSizedSub ptr s.term := by
    intro subs
    induction subs with
    | nil => intro acc _ hacc; exact hacc
    | cons x xs ih =>
      intro acc hx hacc
      simp only [List.foldl]
      apply ih
      · exact fun s hs => hx s (List.mem_cons_of_mem _ hs)
      · intro s hs
        rcases List.mem_cons.mp hs with e | e
        · subst e; exact saSub_wellSized _ _ (hx x List.mem_cons_self)
        · exact hacc s e
  intro s hs
  simp only [List.mem_reverse] at hs
  exact key p.subs ([], []) h (by intro s hs; cases hs) s hs

/-! ### expression propagation -/

/-- every entry of a table is a well-sized expression of the size of its variable -/
def TableWS (t : Table) : Prop := ∀ p ∈ t, WellSized p.2 ∧ p.2.bytesize = p.1.size

theorem tableWS_nil : TableWS [] := by intro p hp; cases hp

theorem tableWS_filter {t : Table} (h : TableWS t) (f : Variable × Expression → Bool) : TableWS (t.filter f) :=
  fun p hp => h p (List.mem_filter.mp hp).1

theorem tableWS_insert {t : Table} (h : TableWS t) {v : Variable} {e : Expression}
    (he : WellSized e ∧ e.bytesize = v.size) : TableWS (t.insert v e) := by
  intro p hp
  rcases List.mem_cons.mp hp with e' | e'
  · subst e'; exact he
  · exact tableWS_filter h _ p e'

theorem tableWS_get {t : Table} (h : TableWS t) {v : Variable} {e : Expression} (hg : t.get v = some e) :
    WellSized e ∧ e.bytesize = v.size := by
  unfold Table.get at hg
  split at hg
  · next p hp =>
    cases hg
    have hm := List.mem_of_find?_eq_some hp
    have hv : p.1 = v := by simpa using List.find?_some hp
    rw [← hv]; exact h p hm
  · cases hg

theorem sizePreserving_id : SizePreserving id := fun _ hw => ⟨hw, rfl⟩

theorem SizePreserving.comp {f g : Expression → Expression} (hf : SizePreserving f) (hg : SizePreserving g) :
    SizePreserving (fun e => g (f e)) := fun e hw =>
  let ⟨h1, h2⟩ := hf e hw
  let ⟨h3, h4⟩ := hg (f e) h1
  ⟨h3, h4.trans h2⟩

theorem substAll_sizePreserving {t : Table} (h : TableWS t) : SizePreserving (substAll t) := by
  unfold substAll
  induction t with
  | nil => exact sizePreserving_id
  | cons p ps ih =>
    intro e hw
    simp only [List.foldl]
    have hp := h p List.mem_cons_self
    obtain ⟨h1, h2⟩ := substVar_wellSized hp.1 hp.2 e hw
    obtain ⟨h3, h4⟩ := ih (fun q hq => h q (List.mem_cons_of_mem _ hq)) _ h1
    exact ⟨h3, h4.trans h2⟩

theorem extendFold_sizePreserving {t : Table} (h : TableWS t) (vars : List Variable) :
    SizePreserving (fun e => vars.foldl (fun acc v =>
      match t.get v with
      | some x => if recursionDepth x < 10 then acc.substVar v x else acc
      | none => acc) e) := by
  induction vars with
  | nil => exact sizePreserving_id
  | cons v vs ih =>
    intro e hw
    simp only [List.foldl]
    have step : WellSized (match t.get v with
        | some x => if recursionDepth x < 10 then e.substVar v x else e
        | none => e) ∧ (match t.get v with
        | some x => if recursionDepth x < 10 then e.substVar v x else e
        | none => e).bytesize = e.bytesize := by
      split
      · next x hx =>
        split
        · have := tableWS_get h hx
          exact substVar_wellSized this.1 this.2 e hw
        · exact ⟨hw, rfl⟩
      · exact ⟨hw, rfl⟩
    obtain ⟨h3, h4⟩ := ih _ step.1
    exact ⟨h3, h4.trans step.2⟩

theorem extendExpression_sizePreserving {t : Table} (h : TableWS t) : SizePreserving (extendExpression t) := by
  intro e hw
  unfold extendExpression
  obtain ⟨h1, h2⟩ := extendFold_sizePreserving h e.inputVars e hw
  exact ⟨substTrivial_wellSized h1, (substTrivial_bytesize h1).trans h2⟩

theorem updateDef_tableWS {t : Table} (h : TableWS t) {ptr : Nat} {d : Def} (hd : WellSizedDef ptr d) :
    TableWS (updateDef t d) := by
  cases d with
  | Assign v e =>
    simp only [updateDef, Table.killMentions]
    apply tableWS_filter
    apply tableWS_insert h
    obtain ⟨h1, h2⟩ := extendExpression_sizePreserving h e hd.2.1
    exact ⟨h1, h2.trans hd.2.2⟩
  | Load v a => exact tableWS_filter h _
  | Store a e => exact h

theorem tableAfterDefs_tableWS {ptr : Nat} (defs : List (Term Def)) {t : Table} (h : TableWS t)
    (hd : ∀ d ∈ defs, WellSizedDef ptr d.term) : TableWS (tableAfterDefs t defs) := by
  unfold tableAfterDefs
  induction defs generalizing t with
  | nil => exact h
  | cons d ds ih =>
    simp only [List.foldl]
    exact ih (updateDef_tableWS h (hd d List.mem_cons_self)) (fun x hx => hd x (List.mem_cons_of_mem _ hx))

/-- all tables of a table map are well-sized -/
def AllWS (m : TableMap) : Prop := ∀ q ∈ m, ∀ t, q.2 = some t → TableWS t

theorem allWS_get {m : TableMap} (h : AllWS m) {tid : Tid} {t : Table} (hg : m.get tid = some t) : TableWS t := by
  unfold TableMap.get at hg
  split at hg
  · next q hq => exact h q (List.mem_of_find?_eq_some hq) t hg
  · cases hg

theorem tablesSent_ws {ptr : Nat} {p : Program} {m : TableMap} (hm : AllWS m) {a : Term Blk}
    (ha : WellSizedBlk ptr a.term) (t : Tid) : ∀ x ∈ tablesSent p m a t, TableWS x := by
  have hout : ∀ o, ((m.get a.tid).map fun ta => tableAfterDefs ta a.term.defs) = some o → TableWS o := by
    intro o ho
    cases hg : m.get a.tid with
    | none => rw [hg] at ho; cases ho
    | some ta =>
      rw [hg] at ho; simp only [Option.map] at ho; cases ho
      exact tableAfterDefs_tableWS a.term.defs (allWS_get hm hg) ha.1
  intro x hx
  simp only [tablesSent, List.mem_flatMap] at hx
  obtain ⟨⟨j, u⟩, _, hx⟩ := hx
  have hopt : ∀ (o : Option Table), (∀ y, o = some y → TableWS y) → x ∈ o.toList → TableWS x := by
    intro o ho hx
    cases o with
    | none => cases hx
    | some y => simp only [Option.toList, List.mem_singleton] at hx; subst hx; exact ho _ rfl
  have hempty : ∀ (o : Option Table), x ∈ (o.map fun _ => ([] : Table)).toList → TableWS x := by
    intro o hx
    cases o with
    | none => cases hx
    | some y => simp only [Option.map, Option.toList, List.mem_singleton] at hx; subst hx; exact tableWS_nil
  cases j with
  | Branch tgt => simp only at hx; split at hx; exact hopt _ hout hx; cases hx
  | CBranch tgt c => simp only at hx; split at hx; exact hopt _ hout hx; cases hx
  | BranchInd e =>
    simp only [List.mem_flatMap] at hx
    obtain ⟨_, _, hx⟩ := hx
    exact hopt _ hout hx
  | Call callee r =>
    cases r with
    | none => cases hx
    | some r =>
      simp only at hx
      split at hx
      · split at hx
        · exact hempty _ hx
        · split at hx
          · simp only [List.mem_flatMap] at hx
            obtain ⟨_, _, hx⟩ := hx
            split at hx
            · simp only [List.mem_singleton] at hx; subst hx; exact tableWS_nil
            · cases hx
          · cases hx
      · cases hx
  | CallInd e r =>
    cases r with
    | none => cases hx
    | some r => simp only at hx; split at hx; exact hempty _ hx; cases hx
  | Return e => cases hx
  | CallOther d r => cases hx

theorem mergeOpt_ws {cur : Option Table} {new : Table} (hc : ∀ t, cur = some t → TableWS t) (hn : TableWS new) :
    ∀ t, mergeOpt cur new = some t → TableWS t := by
  intro t ht
  cases cur with
  | none => simp only [mergeOpt] at ht; cases ht; exact hn
  | some c =>
    simp only [mergeOpt, Table.merge] at ht; cases ht
    exact tableWS_filter (hc c rfl) _

theorem foldl_mergeOpt_ws (l : List Table) {cur : Option Table} (hc : ∀ t, cur = some t → TableWS t)
    (hl : ∀ x ∈ l, TableWS x) : ∀ t, l.foldl mergeOpt cur = some t → TableWS t := by
  induction l generalizing cur with
  | nil => exact hc
  | cons x xs ih =>
    simp only [List.foldl]
    exact ih (mergeOpt_ws hc (hl x List.mem_cons_self)) (fun y hy => hl y (List.mem_cons_of_mem _ hy))

theorem tableRound_ws {ptr : Nat} {p : Program} (hp : WellSizedProgram p ptr) {m : TableMap} (hm : AllWS m) :
    AllWS (tableRound p m) := by
  intro q hq t ht
  simp only [tableRound, List.mem_flatMap, List.mem_map] at hq
  obtain ⟨s, hs, b, _, rfl⟩ := hq
  refine foldl_mergeOpt_ws _ (fun t' ht' => allWS_get hm ht') ?_ t ht
  intro x hx
  simp only [List.mem_flatMap] at hx
  obtain ⟨a, ha, hx⟩ := hx
  exact tablesSent_ws hm (hp s hs a ha) _ x hx

theorem tableFix_ws {ptr : Nat} {p : Program} (hp : WellSizedProgram p ptr) (fuel : Nat) {m : TableMap}
    (hm : AllWS m) : AllWS (tableFix p fuel m) := by
  induction fuel generalizing m with
  | zero => exact hm
  | succ n ih =>
    simp only [tableFix]
    split
    · exact hm
    · exact ih (tableRound_ws hp hm)

theorem initialTables_ws (p : Program) : AllWS (initialTables p) := by
  intro q hq t ht
  simp only [initialTables, List.mem_flatMap, List.mem_mapIdx] at hq
  obtain ⟨s, _, i, _, rfl⟩ := hq
  simp only at ht
  split at ht
  · cases ht; exact tableWS_nil
  · cases ht

theorem computeTables_ws {ptr : Nat} {p : Program} (hp : WellSizedProgram p ptr) : AllWS (computeTables p) :=
  tableFix_ws hp _ (initialTables_ws p)

theorem propagateDefs_ws {ptr : Nat} (defs : List (Term Def)) {t : Table} (ht : TableWS t)
    (hd : ∀ d ∈ defs, WellSizedDef ptr d.term) :
    (∀ d ∈ (propagateDefs t defs).1, WellSizedDef ptr d.term) ∧ TableWS (propagateDefs t defs).2 := by
  induction defs generalizing t with
  | nil => exact ⟨(by intro d hd; cases hd), ht⟩
  | cons d ds ih =>
    have hd0 := hd d List.mem_cons_self
    have hds : ∀ x ∈ ds, WellSizedDef ptr x.term := fun x hx => hd x (List.mem_cons_of_mem _ hx)
    unfold propagateDefs
    split
    · next v e hde =>
      rw [hde] at hd0
      obtain ⟨h1, h2⟩ := extendExpression_sizePreserving ht e hd0.2.1
      have hsz := h2.trans hd0.2.2
      have ht2 : TableWS (if mentions (extendExpression t e) v = true then t.kill v
          else (t.kill v).insert v (extendExpression t e)) := by
        split
        · exact tableWS_filter ht _
        · exact tableWS_insert (tableWS_filter ht _) ⟨h1, hsz⟩
      obtain ⟨r1, r2⟩ := ih ht2 hds
      refine ⟨?_, r2⟩
      intro x hx
      rcases List.mem_cons.mp hx with e' | e'
      · subst e'; exact ⟨hd0.1, h1, hsz⟩
      · exact r1 x e'
    · next v a hde =>
      rw [hde] at hd0
      obtain ⟨r1, r2⟩ := ih (tableWS_filter ht _ : TableWS (t.kill v)) hds
      refine ⟨?_, r2⟩
      intro x hx
      rcases List.mem_cons.mp hx with e' | e'
      · subst e'; exact ⟨hd0.1, wellSizedAs_map (substAll_sizePreserving ht) hd0.2⟩
      · exact r1 x e'
    · next a e hde =>
      rw [hde] at hd0
      obtain ⟨r1, r2⟩ := ih ht hds
      refine ⟨?_, r2⟩
      intro x hx
      rcases List.mem_cons.mp hx with e' | e'
      · subst e'
        exact ⟨wellSizedAs_map (substAll_sizePreserving ht) hd0.1, (substAll_sizePreserving ht e hd0.2).1⟩
      · exact r1 x e'

theorem propagateBlock_ws {ptr : Nat} {t : Table} (ht : TableWS t) {b : Term Blk} (hb : WellSizedBlk ptr b.term) :
    WellSizedBlk ptr (propagateBlock t b).term := by
  obtain ⟨r1, r2⟩ := propagateDefs_ws b.term.defs ht hb.1
  refine ⟨r1, ?_⟩
  intro j hj
  simp only [propagateBlock, List.mem_map] at hj
  obtain ⟨j₀, hj₀, rfl⟩ := hj
  exact wellSizedJmp_map (substAll_sizePreserving r2) (hb.2 j₀ hj₀)

theorem mergeDefsLoop_ws {ptr : Nat} (defs : List (Term Def)) (last : Option (Term Def))
    (hl : ∀ d, last = some d → WellSizedDef ptr d.term) (hd : ∀ d ∈ defs, WellSizedDef ptr d.term) :
    ∀ d ∈ mergeDefsLoop last defs, WellSizedDef ptr d.term := by
  induction defs generalizing last with
  | nil =>
    intro d hd'
    simp only [mergeDefsLoop] at hd'
    cases last with
    | none => cases hd'
    | some l => simp only [Option.toList, List.mem_singleton] at hd'; subst hd'; exact hl _ rfl
  | cons x xs ih =>
    have hx := hd x List.mem_cons_self
    have hxs : ∀ d ∈ xs, WellSizedDef ptr d.term := fun d h => hd d (List.mem_cons_of_mem _ h)
    intro d hd'
    unfold mergeDefsLoop at hd'
    split at hd'
    · next cv ce hxt =>
      split at hd'
      · next ld =>
        have hld := hl ld rfl
        split at hd'
        · next lv le hlt =>
          split at hd'
          · -- merge into the pending assignment
            rw [hlt] at hld
            refine ih _ ?_ hxs d hd'
            intro d' hd''
            cases hd''
            exact wellSizedDef_map (substVar_wellSized hld.2.1 hld.2.2) hx
          · rcases List.mem_cons.mp hd' with e | e
            · subst e; exact hld
            · exact ih _ (fun d' h => by cases h; exact hx) hxs d e
        · rcases List.mem_cons.mp hd' with e | e
          · subst e; exact hld
          · exact ih _ (fun d' h => by cases h; exact hx) hxs d e
      · exact ih _ (fun d' h => by cases h; exact hx) hxs d hd'
    · rcases List.mem_append.mp hd' with e | e
      · cases last with
        | none => cases e
        | some l => simp only [Option.toList, List.mem_singleton] at e; subst e; exact hl _ rfl
      · rcases List.mem_cons.mp e with e | e
        · subst e; exact hx
        · exact ih none (fun _ h => by cases h) hxs d e

/-- **C12-propagation.** `propagate_input_expression` (merging of assignments to the same variable, the
fixpoint tables, the block-local insertion) keeps a program size-consistent. -/
theorem propagateProgram_wellSized {p : Program} {ptr : Nat} (h : WellSizedProgram p ptr) :
    WellSizedProgram (propagateProgram p) ptr := by
  unfold propagateProgram
  have h1 : WellSizedProgram (mapProgramSubs (mapSubBlocks mergeDefAssignmentsToSameVar) p) ptr := by
    apply wellSizedProgram_mapBlocks _ h
    intro b hb
    exact ⟨mergeDefsLoop_ws b.term.defs none (fun _ h => by cases h) hb.1, hb.2⟩
  simp only
  have hm := computeTables_ws h1
  unfold propagateSub
  apply wellSizedProgram_mapBlocks _ h1
  intro b hb
  apply propagateBlock_ws _ hb
  cases hg : (computeTables (mapProgramSubs (mapSubBlocks mergeDefAssignmentsToSameVar) p)).get b.tid with
  | none => exact tableWS_nil
  | some t => exact allWS_get hm hg

/-- **C12-normalize-optimize.** The composition of the optimizing normalization passes
(`Project::normalize_optimize`: expression propagation, trivial expression substitution, dead variable
elimination, control flow propagation, stack alignment substitution) maps size-consistent programs to
size-consistent programs. -/
theorem normalizeOptimize_wellSized {arch : String} {sp : Variable} {phys : VarSet} {p : Program} {ptr : Nat}
    (h : WellSizedProgram p ptr) : WellSizedProgram (normalizeOptimize arch sp phys p) ptr := by
  unfold normalizeOptimize
  exact substituteAndOnStackpointer_wellSized (propagateControlFlow_wellSized
    (removeDeadProgram_wellSized (substTrivialProgram_wellSized (propagateProgram_wellSized h))))

/-- **C12 (the property, end to end on the models).** For EVERY P-Code project the extractor can emit
(`C11.projectOk`: consistent register table, well formed varnodes and instructions; `C11.projectSized`:
operand sizes consistent with the operations as the P-Code manual prescribes), the program obtained by
lifting (`parse_pcode_project_to_ir_project`, model `C11.Lift.liftProject`: implicit RAM accesses made
explicit, `into_ir_project`, sub-register replacement) and then fully normalizing it (`Project::normalize`
= `normalize_basic`, model `C09.normalizeBasic`, followed by `normalize_optimize`, model
`C10.normalizeOptimize`) is size-consistent with the pointer size of the stack pointer register: operands of
same-size operations have equal sizes, piece/subpiece/extension sizes are consistent with their operands,
every assignment stores a value of the assigned variable's size, every load/store address and indirect
target has pointer size, every branch condition one byte. -/
theorem lift_then_normalize_wellSized {p : C11.Pcode.Project} (hp : C11.projectOk p = true)
    (hs : C11.projectSized p = true) {prog : Program} (h : C11.Lift.liftProject p = some prog)
    (progTid : Tid) (arch : String) (sp : Variable) (phys : VarSet) :
    WellSizedProgram (normalizeOptimize arch sp phys (C09.normalizeBasic progTid prog)) p.pointerSize :=
  normalizeOptimize_wellSized (normalizeBasic_wellSized progTid (lift_wellSized hp hs h))

/-- non-vacuity: the hypotheses hold for the example project of `C12/Lift.lean` -/
example (prog : Program) (h : C11.Lift.liftProject exProject = some prog) :
    WellSizedProgram (normalizeOptimize "x86_64" ⟨"RSP", 8, false⟩ [] (C09.normalizeBasic ⟨"prog", "1000"⟩ prog)) 8 :=
  lift_then_normalize_wellSized exProject_ok exProject_sized h _ _ _ _

/-- the executable checker decides the property -/
theorem wellSizedProgram_iff (p : Program) (ptr : Nat) :
    Model.wellSizedProgram p ptr = true ↔ WellSizedProgram p ptr := by
  simp [Model.wellSizedProgram]

/-! ### non-vacuity -/

/-- a well-sized assignment with a sub-register idiom: `RAX = Piece(Subpiece(2,6,RAX), ZExt:2(AL))` -/
example : WellSizedDef 8 (.Assign ⟨"RAX", 8, false⟩
    (.BinOp .Piece (.Subpiece 2 6 (.Var ⟨"RAX", 8, false⟩))
      (.Cast .IntZExt 2 (.Subpiece 0 1 (.Var ⟨"RAX", 8, false⟩))))) := by decide

/-- an ill-sized expression is rejected: adding a 4-byte constant to an 8-byte register -/
example : ¬ WellSized (.BinOp .IntAdd (.Var ⟨"RAX", 8, false⟩) (.Const 4 1)) := by decide

end CweModel.C12
