/-
C12 — `Project::normalize_basic` (model: C09/Model.lean) keeps a program size-consistent.

The basic normalization never touches an expression: it removes terms with duplicate TIDs, adds the
artificial sink function and blocks (no defs, no jumps), retargets jump/call/return targets, and clones
blocks shared between functions (new TIDs, same defs and jumps). So every def of the result is a def of
the input and every jump of the result is a jump of the input with other target TIDs.
-/
import CweModel.C09.Model
import CweModel.C12.Model
set_option linter.unusedSimpArgs false
set_option linter.unusedVariables false

namespace CweModel.C12
open CweModel CweModel.IR

/-- a block transformer that keeps (copies, removes, or retargets) the defs and jumps of a block -/
def BlkKeeps (ptr : Nat) (f : Term Blk → Term Blk) : Prop :=
  ∀ b, WellSizedBlk ptr b.term → WellSizedBlk ptr (f b).term

theorem wellSizedBlk_empty (ptr : Nat) (l : List Tid) :
    WellSizedBlk ptr ({ defs := [], jmps := [], indirectJmpTargets := l } : Blk) :=
  ⟨fun d hd => (by cases hd), fun j hj => (by cases hj)⟩

/-! ### pass 1: `remove_duplicate_tids` -/

theorem mem_keep {α : Type} {x : Term α} : ∀ {known : List Tid} {l : List (Term α)}, x ∈ C09.keep known l → x ∈ l := by
  intro known l
  induction l generalizing known with
  | nil => intro h; simp [C09.keep] at h
  | cons t ts ih =>
    intro h
    simp only [C09.keep] at h
    split at h
    · exact List.mem_cons_of_mem _ (ih h)
    · rcases List.mem_cons.mp h with h | h
      · rw [h]; exact List.mem_cons_self
      · exact List.mem_cons_of_mem _ (ih h)

theorem dedupBlk_ws {ptr : Nat} (known : List Tid) : BlkKeeps ptr (C09.dedupBlk known) := by
  intro b hb
  exact ⟨fun d hd => hb.1 d (mem_keep hd), fun j hj => hb.2 j (mem_keep hj)⟩

theorem mem_dedupContents {x : Term Blk} : ∀ {known : List Tid} {bs : List (Term Blk)},
    x ∈ C09.dedupContents known bs → ∃ k, ∃ b ∈ bs, x = C09.dedupBlk k b := by
  intro known bs
  induction bs generalizing known with
  | nil => intro h; simp [C09.dedupContents] at h
  | cons b bs ih =>
    intro h
    simp only [C09.dedupContents] at h
    rcases List.mem_cons.mp h with h | h
    · exact ⟨known, b, List.mem_cons_self, h⟩
    · obtain ⟨k, b', hb', hx⟩ := ih h
      exact ⟨k, b', List.mem_cons_of_mem _ hb', hx⟩

theorem dedupSub_ws {ptr : Nat} (known : List Tid) {s : Term Sub} (h : WellSizedSub ptr s.term) :
    WellSizedSub ptr (C09.dedupSub known s).term := by
  intro x hx
  simp only [C09.dedupSub] at hx
  obtain ⟨k, b, hb, rfl⟩ := mem_dedupContents hx
  exact dedupBlk_ws k b (h b (mem_keep hb))

theorem mem_dedupSubs {x : Term Sub} : ∀ {known : List Tid} {ss : List (Term Sub)},
    x ∈ C09.dedupSubs known ss → ∃ k, ∃ s ∈ ss, x = C09.dedupSub k s := by
  intro known ss
  induction ss generalizing known with
  | nil => intro h; simp [C09.dedupSubs] at h
  | cons s ss ih =>
    intro h
    simp only [C09.dedupSubs] at h
    rcases List.mem_cons.mp h with h | h
    · exact ⟨known, s, List.mem_cons_self, h⟩
    · obtain ⟨k, s', hs', hx⟩ := ih h
      exact ⟨k, s', List.mem_cons_of_mem _ hs', hx⟩

theorem removeDuplicateTids_ws {ptr : Nat} (progTid : Tid) {p : Program} (h : WellSizedProgram p ptr) :
    WellSizedProgram (C09.removeDuplicateTids progTid p) ptr := by
  intro s hs
  simp only [C09.removeDuplicateTids] at hs
  obtain ⟨k, s₀, hs₀, rfl⟩ := mem_dedupSubs hs
  exact dedupSub_ws k (h s₀ hs₀)

/-! ### pass 2: `add_artifical_sink` -/

theorem mem_insertSub {x y : Term Sub} : ∀ {l : List (Term Sub)}, y ∈ C09.insertSub x l → y = x ∨ y ∈ l := by
  intro l
  induction l with
  | nil => intro h; simp [C09.insertSub] at h; exact .inl h
  | cons s ss ih =>
    intro h
    simp only [C09.insertSub] at h
    split at h
    · rcases List.mem_cons.mp h with h | h
      · exact .inl h
      · exact .inr (List.mem_cons_of_mem _ h)
    · split at h
      · rcases List.mem_cons.mp h with h | h
        · exact .inl h
        · exact .inr h
      · rcases List.mem_cons.mp h with h | h
        · exact .inr (h ▸ List.mem_cons_self)
        · rcases ih h with h | h
          · exact .inl h
          · exact .inr (List.mem_cons_of_mem _ h)

theorem addArtificialSinkSub_ws {ptr : Nat} {p : Program} (h : WellSizedProgram p ptr) :
    WellSizedProgram (C09.addArtificialSinkSub p) ptr := by
  intro s hs
  simp only [C09.addArtificialSinkSub] at hs
  rcases mem_insertSub hs with rfl | hs
  · intro b hb
    simp only [C09.artificialSinkSub, List.mem_singleton] at hb
    subst hb
    exact wellSizedBlk_empty ptr []
  · exact h s hs

/-! ### pass 3: `remove_references_to_nonexisting_tids` -/

theorem retargetJmp_ws {ptr : Nat} (targets : List Tid) {j : Term Jmp} (h : WellSizedJmp ptr j.term) :
    WellSizedJmp ptr (C09.retargetJmp targets j).term := by
  obtain ⟨tid, jt⟩ := j
  unfold C09.retargetJmp
  cases jt with
  | Branch t => simp only; split <;> exact h
  | BranchInd e => exact h
  | CBranch t c => simp only; split <;> exact h
  | Call t r =>
    simp only
    split
    · cases r with
      | none => exact h
      | some r => simp only; split <;> exact h
    · exact h
  | CallInd e r =>
    cases r with
    | none => exact h
    | some r => simp only; split <;> exact h
  | Return e => exact h
  | CallOther d r =>
    cases r with
    | none => exact h
    | some r => simp only; split <;> exact h

theorem cleanBlk_ws {ptr : Nat} (targets : List Tid) : BlkKeeps ptr (C09.cleanBlk targets) := by
  intro b hb
  refine ⟨hb.1, fun j hj => ?_⟩
  simp only [C09.cleanBlk, List.mem_map] at hj
  obtain ⟨j₀, hj₀, rfl⟩ := hj
  exact retargetJmp_ws targets (hb.2 j₀ hj₀)

theorem mapBlocks_ws {ptr : Nat} {f : Term Blk → Term Blk} (hf : BlkKeeps ptr f) {s : Term Sub}
    (h : WellSizedSub ptr s.term) : WellSizedSub ptr (C09.mapBlocks f s).term := by
  intro b hb
  simp only [C09.mapBlocks, List.mem_map] at hb
  obtain ⟨b₀, hb₀, rfl⟩ := hb
  exact hf b₀ (h b₀ hb₀)

theorem removeReferences_ws {ptr : Nat} {p : Program} (h : WellSizedProgram p ptr) :
    WellSizedProgram (C09.removeReferences p) ptr := by
  intro s hs
  simp only [C09.removeReferences, List.mem_map] at hs
  obtain ⟨s₀, hs₀, rfl⟩ := hs
  exact mapBlocks_ws (cleanBlk_ws _) (h s₀ hs₀)

/-! ### pass 4: `make_block_to_sub_mapping_unique` -/

theorem lookupLast_mem {β : Type} {l : List (Tid × β)} {t : Tid} {b : β} (h : C09.lookupLast l t = some b) :
    ∃ e ∈ l, e.2 = b := by
  unfold C09.lookupLast at h
  cases hf : l.reverse.find? (fun e => decide (e.1 = t)) with
  | none => simp [hf] at h
  | some e =>
    simp only [hf, Option.map_some, Option.some.injEq] at h
    exact ⟨e, by simpa using List.mem_of_find?_eq_some hf, h⟩

theorem blockList_ws {ptr : Nat} {p : Program} (h : WellSizedProgram p ptr) {e : Tid × Term Blk}
    (he : e ∈ C09.blockList p) : WellSizedBlk ptr e.2.term := by
  simp only [C09.blockList, List.mem_flatMap, List.mem_map] at he
  obtain ⟨s, hs, b, hb, rfl⟩ := he
  exact h s hs b hb

theorem cloneWithSuffix_ws {ptr : Nat} (sfx : String) : BlkKeeps ptr (C09.cloneWithSuffix sfx) := by
  intro b hb
  constructor
  · intro d hd
    simp only [C09.cloneWithSuffix, List.mem_map] at hd
    obtain ⟨d₀, hd₀, rfl⟩ := hd
    exact hb.1 d₀ hd₀
  · intro j hj
    simp only [C09.cloneWithSuffix, List.mem_map] at hj
    obtain ⟨j₀, hj₀, rfl⟩ := hj
    exact hb.2 j₀ hj₀

theorem adjustJmp_ws {ptr : Nat} (m : List (Tid × Tid)) (s : Term Sub) {j : Term Jmp} (h : WellSizedJmp ptr j.term) :
    WellSizedJmp ptr (C09.adjustJmp m s j).term := by
  obtain ⟨tid, jt⟩ := j
  unfold C09.adjustJmp
  cases jt <;> exact h

theorem adjustBlk_ws {ptr : Nat} (m : List (Tid × Tid)) (s : Term Sub) : BlkKeeps ptr (C09.adjustBlk m s) := by
  intro b hb
  refine ⟨hb.1, fun j hj => ?_⟩
  simp only [C09.adjustBlk, List.mem_map] at hj
  obtain ⟨j₀, hj₀, rfl⟩ := hj
  exact adjustJmp_ws m s (hb.2 j₀ hj₀)

theorem makeBlockToSubUnique_ws {ptr : Nat} {p : Program} (h : WellSizedProgram p ptr) :
    WellSizedProgram (C09.makeBlockToSubUnique p) ptr := by
  intro s hs
  simp only [C09.makeBlockToSubUnique, List.mem_map] at hs
  obtain ⟨s₀, hs₀, rfl⟩ := hs
  intro b hb
  simp only [C09.uniqueSub, List.mem_map, List.mem_append] at hb
  obtain ⟨b₀, hb₀, rfl⟩ := hb
  apply adjustBlk_ws
  rcases hb₀ with hb₀ | hb₀
  · exact h s₀ hs₀ b₀ hb₀
  · simp only [C09.additionalBlocks, List.mem_filterMap] at hb₀
    obtain ⟨t, _, ht⟩ := hb₀
    split at ht
    · cases ht
    · cases hl : C09.lookupLast (C09.blockList p) t with
      | none => simp [hl] at ht
      | some blk =>
        simp only [hl, Option.map_some, Option.some.injEq] at ht
        subst ht
        obtain ⟨e, he, rfl⟩ := lookupLast_mem hl
        exact cloneWithSuffix_ws _ _ (blockList_ws h he)

/-! ### pass 5: `retarget_non_returning_calls_to_artificial_sink` -/

theorem retargetCall_ws {ptr : Nat} (p : Program) (nr : List Tid) (sfx : String) {j : Term Jmp}
    (h : WellSizedJmp ptr j.term) : WellSizedJmp ptr (C09.retargetCall p nr sfx j).term := by
  obtain ⟨tid, jt⟩ := j
  unfold C09.retargetCall
  split
  · cases jt <;> exact h
  · exact h

theorem addArtificialSinkBlk_ws {ptr : Nat} {s : Term Sub} (h : WellSizedSub ptr s.term) :
    WellSizedSub ptr (C09.addArtificialSinkBlk s).term := by
  unfold C09.addArtificialSinkBlk
  split
  · exact h
  · intro b hb
    simp only [List.mem_append, List.mem_singleton] at hb
    rcases hb with hb | rfl
    · exact h b hb
    · exact wellSizedBlk_empty ptr []

theorem retargetSub_ws {ptr : Nat} (p : Program) (nr : List Tid) {s : Term Sub} (h : WellSizedSub ptr s.term) :
    WellSizedSub ptr (C09.retargetSub p nr s).term := by
  unfold C09.retargetSub
  split
  · exact h
  · have h' : WellSizedSub ptr (C09.mapBlocks (fun b => { b with term := { b.term with
        jmps := b.term.jmps.map (C09.retargetCall p nr (C09.idSuffix s)) } }) s).term := by
      apply mapBlocks_ws _ h
      intro b hb
      refine ⟨hb.1, fun j hj => ?_⟩
      simp only [List.mem_map] at hj
      obtain ⟨j₀, hj₀, rfl⟩ := hj
      exact retargetCall_ws p nr _ (hb.2 j₀ hj₀)
    simp only
    split
    · exact addArtificialSinkBlk_ws h'
    · exact h'

theorem retargetNonReturning_ws {ptr : Nat} {p : Program} (h : WellSizedProgram p ptr) :
    WellSizedProgram (C09.retargetNonReturning p) ptr := by
  intro s hs
  simp only [C09.retargetNonReturning, List.mem_map] at hs
  obtain ⟨s₀, hs₀, rfl⟩ := hs
  exact retargetSub_ws p _ (h s₀ hs₀)

/-- **C12-normalize-basic.** `Project::normalize_basic` (removal of duplicate TIDs, artificial sink,
removal of references to non-existing TIDs, cloning of blocks shared between functions, retargeting of
non-returning calls) maps size-consistent programs to size-consistent programs: it never changes an
expression. -/
theorem normalizeBasic_wellSized (progTid : Tid) {p : Program} {ptr : Nat} (h : WellSizedProgram p ptr) :
    WellSizedProgram (C09.normalizeBasic progTid p) ptr := by
  unfold C09.normalizeBasic C09.stage3
  exact retargetNonReturning_ws (makeBlockToSubUnique_ws (removeReferences_ws
    (addArtificialSinkSub_ws (removeDuplicateTids_ws progTid h))))

end CweModel.C12
