/-
C03 — `DomainMap<K, V, S>` under the three `MapMergeStrategy`s
(`src/cwe_checker_lib/src/abstract_domain/domain_map.rs`), generically over the value kind.

Model: `combUnion / combIntersect / combMergeTop` are the loop bodies of the three
`merge_map_with` functions, as a function of "value of the key in `map`" and "value of the key in
`other`". `mapMerge` adds the `if self == other` short cut of `DomainMap::merge(_with)`.

Reading of an absent key (`readKey`): nothing (`⊥`) under Union, the set `G` represented by the value
kind's `Top` under Intersect and MergeTop; for Intersect the theorems require `G` to contain what every
value of the kind represents ("the `Top` value of the value abstract domain is an actual maximal
value").
-/
import CweModel.C03.Dom
import CweModel.C03.AList

namespace CweModel.C03

inductive Strategy where
  | union | intersect | mergeTop
deriving DecidableEq, Repr

variable {V C : Type}

/-- `!value.is_top()` as the result of a `retain` closure / the guard of an `insert` -/
def keepNonTop (D : Dom V C) (v : V) : Option V := if D.isTop v then none else some v

/-- `UnionMergeStrategy::merge_map_with`:
`for (key, value_other) in other { map.entry(key).and_modify(|v| v.merge_with(value_other)).or_insert(value_other) }` -/
def combUnion (D : Dom V C) (_k : Int) : Option V → Option V → Option V
  | some v, some w => some (D.mergeWith v w)
  | some v, none => some v
  | none, some w => some w
  | none, none => none

/-- `IntersectMergeStrategy::merge_map_with`:
`map.retain(|k, value| { let Some(o) = other.get(k) else { return false }; value.merge_with(o); !value.is_top() })` -/
def combIntersect (D : Dom V C) (_k : Int) : Option V → Option V → Option V
  | some v, some w => keepNonTop D (D.mergeWith v w)
  | _, _ => none

/-- `MergeTopStrategy::merge_map_with`: first the `retain` (merge with the other value or with
`value.top()`, drop if the result is top), then the loop over `other` which, for every key that is
*now* absent from `map` — never present, or just dropped by the `retain` — inserts
`value_other.top().merge_with(value_other)` unless that is top. -/
def combMergeTop (D : Dom V C) (_k : Int) : Option V → Option V → Option V
  | some v, some w =>
    let m := D.mergeWith v w
    if D.isTop m then keepNonTop D (D.mergeWith (D.top w) w) else some m
  | some v, none => keepNonTop D (D.mergeWith v (D.top v))
  | none, some w => keepNonTop D (D.mergeWith (D.top w) w)
  | none, none => none

def comb (S : Strategy) (D : Dom V C) : Int → Option V → Option V → Option V :=
  match S with
  | .union => combUnion D
  | .intersect => combIntersect D
  | .mergeTop => combMergeTop D

/-- `S::merge_map_with(map, other)` (also `S::merge_map`, which clones and calls it) -/
def mergeMapWith (S : Strategy) (D : Dom V C) (a b : AList V) : AList V := mergeBy (comb S D) a b

/-- `DomainMap::merge_with`: `if self != other { S::merge_map_with(..) }` -/
def mapMergeWith [DecidableEq V] (S : Strategy) (D : Dom V C) (a b : AList V) : AList V :=
  if a = b then a else mergeMapWith S D a b

/-- `DomainMap::merge`: `if self == other { self.clone() } else { clone; merge_with }` -/
def mapMerge [DecidableEq V] (S : Strategy) (D : Dom V C) (a b : AList V) : AList V :=
  if a = b then a else mapMergeWith S D a b

/-- `DomainMap::is_top` -/
def mapIsTop (m : AList V) : Bool := m.isEmpty

/-! ### concretisation -/

/-- what a map says about the values of key `k`, given the entry found for `k` -/
def readKey (S : Strategy) (D : Dom V C) (G : C → Prop) : Option V → C → Prop
  | some v, c => D.γ v c
  | none, c => if S = .union then False else G c

/-- every stored value is of the kind expected at its key -/
def MapWF (wfk : Int → V → Prop) (m : AList V) : Prop := ∀ k v, m.get k = some v → wfk k v

/-! ### the loop bodies satisfy the laws -/

section
variable {D : Dom V C} {wf : V → Prop} {G : C → Prop}

theorem comb_none (S : Strategy) (D : Dom V C) (k : Int) : comb S D k none none = none := by
  cases S <;> rfl

theorem read_keepNonTop (L : Laws D wf G) {S : Strategy} (hS : S ≠ .union) {v : V} (hv : wf v) (c : C) :
    readKey S D G (keepNonTop D v) c ↔ D.γ v c := by
  unfold keepNonTop
  cases ht : D.isTop v with
  | true => simp only [if_true, readKey, hS, if_false]; exact (L.isTop_γ hv ht c).symm
  | false => simp [readKey]

theorem wf_keepNonTop {v u : V} (hv : wf v) (h : keepNonTop D v = some u) : wf u := by
  unfold keepNonTop at h
  split at h
  · cases h
  · cases h; exact hv

/-- well-formedness of whatever the loop body stores -/
theorem comb_wf (L : Laws D wf G) (S : Strategy) (k : Int) {ov ow : Option V}
    (hv : ∀ v, ov = some v → wf v) (hw : ∀ w, ow = some w → wf w) :
    ∀ u, comb S D k ov ow = some u → wf u := by
  intro u hu
  cases ov with
  | none =>
    cases ow with
    | none => rw [comb_none] at hu; cases hu
    | some w =>
      have hw' := hw w rfl
      cases S with
      | union => simp only [comb, combUnion] at hu; cases hu; exact hw'
      | intersect => simp [comb, combIntersect] at hu
      | mergeTop =>
        simp only [comb, combMergeTop] at hu
        exact wf_keepNonTop (L.mergeWith_wf (L.top_wf hw') hw') hu
  | some v =>
    have hv' := hv v rfl
    cases ow with
    | none =>
      cases S with
      | union => simp only [comb, combUnion] at hu; cases hu; exact hv'
      | intersect => simp [comb, combIntersect] at hu
      | mergeTop =>
        simp only [comb, combMergeTop] at hu
        exact wf_keepNonTop (L.mergeWith_wf hv' (L.top_wf hv')) hu
    | some w =>
      have hw' := hw w rfl
      cases S with
      | union => simp only [comb, combUnion] at hu; cases hu; exact L.mergeWith_wf hv' hw'
      | intersect =>
        simp only [comb, combIntersect] at hu
        exact wf_keepNonTop (L.mergeWith_wf hv' hw') hu
      | mergeTop =>
        simp only [comb, combMergeTop] at hu
        split at hu
        · exact wf_keepNonTop (L.mergeWith_wf (L.top_wf hw') hw') hu
        · cases hu; exact L.mergeWith_wf hv' hw'

/-- law 1 for one key -/
theorem comb_sound (L : Laws D wf G) (S : Strategy) (hG : S = .intersect → ∀ v, wf v → ∀ c, D.γ v c → G c) (k : Int)
    {ov ow : Option V} (hv : ∀ v, ov = some v → wf v) (hw : ∀ w, ow = some w → wf w) (c : C)
    (h : readKey S D G ov c ∨ readKey S D G ow c) : readKey S D G (comb S D k ov ow) c := by
  cases ov with
  | none =>
    cases ow with
    | none => rw [comb_none]; exact h.elim id id
    | some w =>
      have hw' := hw w rfl
      cases S with
      | union =>
        simp only [comb, combUnion]
        rcases h with h | h
        · simp [readKey] at h
        · exact h
      | intersect =>
        simp only [comb, combIntersect, readKey]
        rcases h with h | h
        · simpa [readKey] using h
        · simpa using hG rfl w hw' c h
      | mergeTop =>
        simp only [comb, combMergeTop]
        rw [read_keepNonTop L (by decide) (L.mergeWith_wf (L.top_wf hw') hw')]
        rcases h with h | h
        · have hg : G c := by simpa [readKey] using h
          exact L.mw_sound_l (L.top_wf hw') hw' c ((L.top_γ hw' c).mpr hg)
        · exact L.mw_sound_r (L.top_wf hw') hw' c h
  | some v =>
    have hv' := hv v rfl
    cases ow with
    | none =>
      cases S with
      | union =>
        simp only [comb, combUnion]
        rcases h with h | h
        · exact h
        · simp [readKey] at h
      | intersect =>
        simp only [comb, combIntersect, readKey]
        rcases h with h | h
        · simpa using hG rfl v hv' c h
        · simpa [readKey] using h
      | mergeTop =>
        simp only [comb, combMergeTop]
        rw [read_keepNonTop L (by decide) (L.mergeWith_wf hv' (L.top_wf hv'))]
        rcases h with h | h
        · exact L.mw_sound_l hv' (L.top_wf hv') c h
        · have hg : G c := by simpa [readKey] using h
          exact L.top_le_mw_top hv' hg
    | some w =>
      have hw' := hw w rfl
      have hm : D.γ (D.mergeWith v w) c := by
        rcases h with h | h
        · exact L.mw_sound_l hv' hw' c h
        · exact L.mw_sound_r hv' hw' c h
      cases S with
      | union => exact hm
      | intersect =>
        simp only [comb, combIntersect]
        rw [read_keepNonTop L (by decide) (L.mergeWith_wf hv' hw')]
        exact hm
      | mergeTop =>
        simp only [comb, combMergeTop]
        split
        · rename_i ht
          rw [read_keepNonTop L (by decide) (L.mergeWith_wf (L.top_wf hw') hw')]
          have hg : G c := (L.isTop_γ (L.mergeWith_wf hv' hw') ht c).mp hm
          exact L.mw_sound_l (L.top_wf hw') hw' c ((L.top_γ hw' c).mpr hg)
        · exact hm

/-- law 2 for one key: if `other`'s reading of the key is included in `map`'s, the merged reading
is `map`'s -/
theorem comb_absorb (L : Laws D wf G) (S : Strategy) (hG : S = .intersect → ∀ v, wf v → ∀ c, D.γ v c → G c) (k : Int)
    {ov ow : Option V} (hv : ∀ v, ov = some v → wf v) (hw : ∀ w, ow = some w → wf w)
    (hle : ∀ c, readKey S D G ow c → readKey S D G ov c) (c : C) :
    readKey S D G (comb S D k ov ow) c ↔ readKey S D G ov c := by
  cases ov with
  | none =>
    cases ow with
    | none => rw [comb_none]
    | some w =>
      have hw' := hw w rfl
      cases S with
      | union =>
        simp only [comb, combUnion]
        constructor
        · exact hle c
        · intro h; simp [readKey] at h
      | intersect => simp only [comb, combIntersect]
      | mergeTop =>
        simp only [comb, combMergeTop]
        rw [read_keepNonTop L (by decide) (L.mergeWith_wf (L.top_wf hw') hw')]
        have hle' : D.le w (D.top w) := fun x hx => (L.top_γ hw' x).mpr (by simpa [readKey] using hle x hx)
        rw [L.mw_absorb (L.top_wf hw') hw' hle' c, L.top_γ hw' c]
        simp [readKey]
  | some v =>
    have hv' := hv v rfl
    cases ow with
    | none =>
      cases S with
      | union => simp only [comb, combUnion]
      | intersect =>
        simp only [comb, combIntersect]
        constructor
        · exact hle c
        · intro h; simpa [readKey] using hG rfl v hv' c h
      | mergeTop =>
        simp only [comb, combMergeTop]
        rw [read_keepNonTop L (by decide) (L.mergeWith_wf hv' (L.top_wf hv'))]
        have hle' : D.le (D.top v) v := fun x hx => hle x (by simpa [readKey] using (L.top_γ hv' x).mp hx)
        exact L.mw_absorb hv' (L.top_wf hv') hle' c
    | some w =>
      have hw' := hw w rfl
      have hle' : D.le w v := fun x hx => hle x hx
      have hm := L.mw_absorb hv' hw' hle'
      cases S with
      | union => exact hm c
      | intersect =>
        simp only [comb, combIntersect]
        rw [read_keepNonTop L (by decide) (L.mergeWith_wf hv' hw')]
        exact hm c
      | mergeTop =>
        simp only [comb, combMergeTop]
        split
        · rename_i ht
          rw [read_keepNonTop L (by decide) (L.mergeWith_wf (L.top_wf hw') hw')]
          -- `v` represents exactly `G`, so does `top w`, and `w` is below it
          have hvG : ∀ x, D.γ v x ↔ G x := fun x =>
            ((hm x).symm).trans (L.isTop_γ (L.mergeWith_wf hv' hw') ht x)
          have hle2 : D.le w (D.top w) := fun x hx => (L.top_γ hw' x).mpr ((hvG x).mp (hle' x hx))
          rw [L.mw_absorb (L.top_wf hw') hw' hle2 c, L.top_γ hw' c]
          exact (hvG c).symm
        · exact hm c

end

/-! ### the property for maps -/

section
variable [DecidableEq V] {D : Dom V C} {wfk : Int → V → Prop} {Gk : Int → C → Prop}

omit [DecidableEq V] in
theorem get_mergeMapWith (S : Strategy) (D : Dom V C) (a b : AList V) (k : Int) :
    (mergeMapWith S D a b).get k = comb S D k (a.get k) (b.get k) :=
  get_mergeBy (comb S D) (comb_none S D) a b k

theorem get_mapMerge (S : Strategy) (D : Dom V C) (a b : AList V) (k : Int) :
    (mapMerge S D a b).get k = if a = b then a.get k else comb S D k (a.get k) (b.get k) := by
  unfold mapMerge mapMergeWith
  by_cases h : a = b
  · simp [h]
  · simp only [h, if_false]; exact get_mergeMapWith S D a b k

/-- **C03-map-wf.** merged maps store values of the right kind -/
theorem mapMerge_wf (L : ∀ k, Laws D (wfk k) (Gk k)) (S : Strategy) {a b : AList V}
    (ha : MapWF wfk a) (hb : MapWF wfk b) : MapWF wfk (mapMerge S D a b) := by
  intro k u hu
  rw [get_mapMerge] at hu
  split at hu
  · exact ha k u hu
  · exact comb_wf (L k) S k (ha k) (hb k) u hu

/-- **C03-map-sound (law 1).** For every key, every concrete value that either input map allows for
that key is allowed by the merged map — for each of the three strategies, over any value kind
satisfying the laws. -/
theorem mapMerge_sound (L : ∀ k, Laws D (wfk k) (Gk k)) (S : Strategy)
    (hG : S = .intersect → ∀ k v, wfk k v → ∀ c, D.γ v c → Gk k c) {a b : AList V} (ha : MapWF wfk a) (hb : MapWF wfk b)
    (k : Int) (c : C)
    (h : readKey S D (Gk k) (a.get k) c ∨ readKey S D (Gk k) (b.get k) c) :
    readKey S D (Gk k) ((mapMerge S D a b).get k) c := by
  rw [get_mapMerge]
  split
  · rename_i hab; subst hab; exact h.elim id id
  · exact comb_sound (L k) S (fun hs => hG hs k) k (ha k) (hb k) c h

/-- **C03-map-absorb (law 2).** If everything `b` allows is allowed by `a` (key by key), merging
`b` into `a` does not change what is allowed for any key. -/
theorem mapMerge_absorb (L : ∀ k, Laws D (wfk k) (Gk k)) (S : Strategy)
    (hG : S = .intersect → ∀ k v, wfk k v → ∀ c, D.γ v c → Gk k c) {a b : AList V} (ha : MapWF wfk a) (hb : MapWF wfk b)
    (hle : ∀ k c, readKey S D (Gk k) (b.get k) c → readKey S D (Gk k) (a.get k) c)
    (k : Int) (c : C) :
    readKey S D (Gk k) ((mapMerge S D a b).get k) c ↔ readKey S D (Gk k) (a.get k) c := by
  rw [get_mapMerge]
  split
  · exact Iff.rfl
  · exact comb_absorb (L k) S (fun hs => hG hs k) k (ha k) (hb k) (hle k) c

/-- **C03-map-absorb, literal form.** `merge (merge a b) b` allows exactly what `merge a b` allows. -/
theorem mapMerge_absorb_merged (L : ∀ k, Laws D (wfk k) (Gk k)) (S : Strategy)
    (hG : S = .intersect → ∀ k v, wfk k v → ∀ c, D.γ v c → Gk k c) {a b : AList V} (ha : MapWF wfk a) (hb : MapWF wfk b)
    (k : Int) (c : C) :
    readKey S D (Gk k) ((mapMerge S D (mapMerge S D a b) b).get k) c
      ↔ readKey S D (Gk k) ((mapMerge S D a b).get k) c :=
  mapMerge_absorb L S hG (mapMerge_wf L S ha hb) hb
    (fun k c h => mapMerge_sound L S hG ha hb k c (Or.inr h)) k c

/-- **C03-map-idem (law 3).** merging a map with itself returns it unchanged -/
theorem mapMerge_self (S : Strategy) (D : Dom V C) (a : AList V) : mapMerge S D a a = a := by
  simp [mapMerge]

/-- **C03-map-merge_with (law 4).** `DomainMap::merge_with` computes the same map as `merge` -/
theorem mapMergeWith_eq_mapMerge (S : Strategy) (D : Dom V C) (a b : AList V) :
    mapMergeWith S D a b = mapMerge S D a b := by
  unfold mapMerge
  by_cases h : a = b
  · simp [h, mapMergeWith]
  · simp [h]

/-- the set of key→value assignments a map represents -/
def mapγ (S : Strategy) (D : Dom V C) (Gk : Int → C → Prop) (m : AList V) (f : Int → C) : Prop :=
  ∀ k, readKey S D (Gk k) (m.get k) (f k)

/-- **C03-map-sound, assignment form.** `γ a ∪ γ b ⊆ γ (merge a b)` -/
theorem mapγ_sound (L : ∀ k, Laws D (wfk k) (Gk k)) (S : Strategy)
    (hG : S = .intersect → ∀ k v, wfk k v → ∀ c, D.γ v c → Gk k c) {a b : AList V} (ha : MapWF wfk a) (hb : MapWF wfk b)
    (f : Int → C) (h : mapγ S D Gk a f ∨ mapγ S D Gk b f) : mapγ S D Gk (mapMerge S D a b) f := by
  intro k
  rcases h with h | h
  · exact mapMerge_sound L S hG ha hb k _ (Or.inl (h k))
  · exact mapMerge_sound L S hG ha hb k _ (Or.inr (h k))

/-- **C03-map-absorb, assignment form.** `γ (merge (merge a b) b) = γ (merge a b)` -/
theorem mapγ_absorb_merged (L : ∀ k, Laws D (wfk k) (Gk k)) (S : Strategy)
    (hG : S = .intersect → ∀ k v, wfk k v → ∀ c, D.γ v c → Gk k c) {a b : AList V} (ha : MapWF wfk a) (hb : MapWF wfk b)
    (f : Int → C) :
    mapγ S D Gk (mapMerge S D (mapMerge S D a b) b) f ↔ mapγ S D Gk (mapMerge S D a b) f := by
  constructor
  · intro h k; exact (mapMerge_absorb_merged L S hG ha hb k (f k)).mp (h k)
  · intro h k; exact (mapMerge_absorb_merged L S hG ha hb k (f k)).mpr (h k)

end

end CweModel.C03
