/- C03 model driver: executes the models of `merge`/`merge_with` and the three laws on harness cases. -/
import CweModel.Base.Proto
import CweModel.C03.Model
open Lean CweModel.Proto CweModel.Itv CweModel.MemRegion

namespace CweModel.C03

/-- everything the driver needs to know about one kind of abstract value -/
structure Kind (V C : Type) where
  dom : Dom V C
  parse : Json → Except String V
  /-- `SizedDomain::bytesize` -/
  bytes : V → Nat
  /-- concrete values on which membership is compared: all of them for 1-byte kinds, the
  boundary values of the given abstract values otherwise -/
  univ : List V → List C
  /-- boundary values only (used inside maps and regions, where many slots are compared) -/
  univSmall : List V → List C
  /-- executable form of the `wf` hypothesis of the kind's theorem -/
  wfB : V → Bool
  /-- the kind's `Top` represents every value of its size (hypothesis of the Intersect and
  MemRegion theorems) -/
  topMax : Bool
  /-- `SizedDomain::new_top(bytesize)` -/
  newTop : Nat → V
  /-- `univ` of these values is ALL concrete values of the kind (then inclusion between
  represented sets can be decided on it) -/
  exact : List V → Bool
  /-- branch-coverage tag of a case -/
  tag : V → V → String
  name : String

/-! ### kinds -/

def parseBv (j : Json) : Except String BvDom :=
  match optF j "t" with
  | some t => do return .top (← t.getNat?)
  | none => do
    let a ← arrF j "v"
    match a with
    | [s, v] => return .val (← s.getNat?) (← v.getNat?)
    | _ => throw "bv"

def bvKind : Kind BvDom Bv where
  dom := bvDom
  parse := parseBv
  bytes := BvDom.bytesize
  univ := fun vs => (vs.map fun v => match v with
    | .top s => [(s, 0), (s, 1), (s, 255)]
    | .val s x => [(s, x), (s, x + 1), (s, 0)]).flatten.eraseDups
  univSmall := fun vs => (vs.map fun v => match v with
    | .top s => [(s, 0), (s, 1), (s, 255)]
    | .val s x => [(s, x), (s, x + 1), (s, 0)]).flatten.eraseDups
  wfB := fun _ => true
  topMax := true
  newTop := .top
  exact := fun _ => false
  tag := fun a b => if a == b then "equal" else "differ"
  name := "bv"

def parseTaint (j : Json) : Except String Taint :=
  match optF j "T" with
  | some t => do return .tainted (← t.getNat?)
  | none => do return .top (← natF j "U")

def taintKind : Kind Taint (Nat × Bool) where
  dom := taintDom
  parse := parseTaint
  bytes := Taint.bytesize
  univ := fun vs => (vs.map fun v => [(v.bytesize, false), (v.bytesize, true)]).flatten.eraseDups
  univSmall := fun vs => (vs.map fun v => [(v.bytesize, false), (v.bytesize, true)]).flatten.eraseDups
  wfB := fun _ => true
  topMax := false
  newTop := .top
  exact := fun _ => true
  tag := fun _ _ => ""
  name := "taint"

def parseData {T : Type} (p : Json → Except String T) (j : Json) : Except String (DataDom T) := do
  let rel ← mapM' (fun e => do
      match ← e.getArr? with
      | #[k, v] => return ((← k.getInt?), (← p v))
      | _ => throw "rel entry") (← arrF j "rel")
  let abs ← match optF j "abs" with
    | some Json.null => pure none
    | some v => do pure (some (← p v))
    | none => pure none
  return { size := ← natF j "size", rel := rel, abs := abs, top := ← boolF j "top" }

def dataKind {T C : Type} [DecidableEq T] (K : Kind T C) : Kind (DataDom T) (Sym C) where
  dom := dataDom K.dom
  parse := parseData K.parse
  bytes := fun d => d.size
  univ := fun ds =>
    let comps := (ds.map fun d => d.rel.map (·.2) ++ d.abs.toList).flatten
    let u := K.univ comps
    let ids : List Int := [0, 1, 2, 3, 4]
    Sym.top :: (u.map Sym.abs ++ (ids.map fun i => u.map (Sym.rel i)).flatten)
  univSmall := fun ds =>
    let comps := (ds.map fun d => d.rel.map (·.2) ++ d.abs.toList).flatten
    let u := K.univSmall comps
    let ids : List Int := [0, 1, 2, 3, 4]
    Sym.top :: (u.map Sym.abs ++ (ids.map fun i => u.map (Sym.rel i)).flatten)
  wfB := fun d => d.rel.all (fun e => K.wfB e.2 && K.bytes e.2 == d.size) &&
    d.abs.all (fun t => K.wfB t && K.bytes t == d.size)
  topMax := true
  newTop := fun s => { size := s, rel := [], abs := none, top := true }
  exact := fun ds => K.exact (ds.map fun d => d.rel.map (·.2) ++ d.abs.toList).flatten
  tag := fun a b => if a.top || b.top then "topflag" else if a.rel.isEmpty && b.rel.isEmpty then "absolute" else "pointers"
  name := "data_" ++ K.name

/-- a signed value: a JSON number, or (above 64 bits) a decimal string -/
def bigInt (v : Json) : Except String Int :=
  match v with
  | .str s => match s.toInt? with
    | some i => pure i
    | none => throw s!"not an integer: {s}"
  | _ => v.getInt?

def optIntF (j : Json) (k : String) : Except String (Option Int) :=
  match optF j k with
  | some Json.null => pure none
  | some v => do pure (some (← bigInt v))
  | none => pure none

def parseIv (j : Json) : Except String IntervalDomain := do
  return { interval := { w := ← natF j "w", start := ← bigInt (← field j "s"), stop := ← bigInt (← field j "e"),
                         stride := ← natF j "st" },
           upper := ← optIntF j "up", lower := ← optIntF j "lo", delay := ← natF j "d" }

/-- well-formed values of at least one byte. Widths above 64 bits are outside the proved theorem
(`ivDom_laws_partial`) but inside the property: the laws are still evaluated on the implementation
outputs there (tag `iv-wide`), except the inclusion form of law 2 which needs an exhaustive universe. -/
def ivWfB (a : IntervalDomain) : Bool :=
  decide a.interval.WF && decide (1 < a.interval.w) &&
  a.upper.all (fun u => decide (InRange a.interval.w u)) &&
  a.lower.all (fun l => decide (InRange a.interval.w l)) && decide (a.delay < 2 ^ 64)

/-- boundary values of interval-domain values -/
def ivBoundary (vs : List IntervalDomain) : List Int :=
  (vs.map fun a =>
    let I := a.interval
    let st : Int := I.stride
    [I.start, I.stop, I.start - 1, I.stop + 1, I.start + 1, I.stop - 1, I.start + st, I.stop - st,
     I.start - st, I.stop + st, I.start + 2 * st, 0, smin I.w, smax I.w, smin I.w + 1, smax I.w - 1]
     ++ a.lower.toList ++ a.upper.toList).flatten.eraseDups

def ivKind : Kind IntervalDomain Int where
  dom := ivDom
  parse := parseIv
  bytes := ivBytes
  univ := fun vs =>
    if vs.all (fun a => a.interval.w == 8) then (List.range 256).map (fun (n : Nat) => (n : Int) - 128)
    else ivBoundary vs
  univSmall := ivBoundary
  wfB := ivWfB
  topMax := true
  newTop := fun s => IntervalDomain.newTop (8 * s)
  exact := fun vs => vs.all (fun a => a.interval.w == 8)
  tag := fun a b =>
    (if a.interval.w > 64 then "iv-wide " else "") ++
    let sm := signedMerge a b
    let m := signedMergeAndWiden a b
    if m == sm then (if sm.interval == a.interval || sm.interval == b.interval then "iv-absorbed" else
      if sm.isTop then "iv-top" else "iv-below-threshold")
    else if m.isTop then "iv-widened-to-top"
    else "iv-widened-to-hint"
  name := "iv"

/-! ### evaluation of the laws on implementation outputs -/

/-- the five outputs of one case -/
structure Outs (V : Type) where
  m : V
  mw : V
  m2 : V
  maa : V
  mwaa : V
deriving DecidableEq, Repr

def parseOuts {V : Type} (p : Json → Except String V) (j : Json) : Except String (Outs V) := do
  return { m := ← p (← field j "m"), mw := ← p (← field j "mw"), m2 := ← p (← field j "m2"),
           maa := ← p (← field j "maa"), mwaa := ← p (← field j "mwaa") }

/-- first violated law, as a class token -/
def firstFail (checks : List (String × Bool)) : Option String :=
  (checks.find? (fun c => !c.2)).map (·.1)

/-- laws on plain values: `memOf x c` = "`c` is represented by `x`" -/
def lawsOn {X C : Type} (memOf : X → C → Bool) (U : List C) (a b : X) (o : Outs X)
    (exact : Bool := false) : Option String :=
  firstFail [
    -- inclusion form of law 2 (decidable only on an exhaustive universe): `γ b ⊆ γ a → γ m = γ a`
    ("law2-contained", !exact || !(U.all fun c => !memOf b c || memOf a c) ||
        (U.all fun c => memOf o.m c == memOf a c)),
    ("law1-merge", U.all fun c => !(memOf a c || memOf b c) || memOf o.m c),
    ("law1-merge_with", U.all fun c => !(memOf a c || memOf b c) || memOf o.mw c),
    ("law2-absorbed", U.all fun c => memOf o.m2 c == memOf o.m c),
    ("law3-self", U.all fun c => memOf o.maa c == memOf a c),
    ("law3-self-merge_with", U.all fun c => memOf o.mwaa c == memOf a c),
    ("law4-merge_with", U.all fun c => memOf o.mw c == memOf o.m c)]

def verdictOf {X : Type} [DecidableEq X] [Repr X] (cls : String) (inDomain : Bool)
    (specFail : Option String) (model impl : Outs X) (tag : String := "") : String :=
  let short (s : String) : String := ((s.replace "\n" " ").take 700).toString
  match inDomain, specFail with
  | true, some law =>
    s!"spec class={cls}-{law} expected=law-holds impl={short (reprStr impl)} model={short (reprStr model)}"
  | _, _ =>
    if model = impl then s!"ok {cls} {if inDomain then "constrained" else "modelonly"} {tag}"
    else s!"diff class={cls} model={short (reprStr model)} impl={short (reprStr impl)}"

/-- one case on plain values of kind `K` -/
def handleVal {V C : Type} [DecidableEq V] [Repr V] (K : Kind V C) (j : Json) : Except String String := do
  let a ← K.parse (← field j "a")
  let b ← K.parse (← field j "b")
  let implJ ← field j "impl"
  let cls := s!"val-{K.name}"
  if let .ok s := implJ.getStr? then
    return s!"spec class={cls}-panic expected=value impl={s}"
  let impl ← parseOuts K.parse implJ
  let D := K.dom
  let m := D.merge a b
  let model : Outs V :=
    { m := m, mw := D.mergeWith a b, m2 := D.merge m b, maa := D.merge a a, mwaa := D.mergeWith a a }
  let inDomain := K.wfB a && K.wfB b && K.bytes a == K.bytes b
  let U := K.univ [a, b, impl.m, impl.mw, impl.m2, impl.maa, impl.mwaa, model.m, model.m2]
  let all := [a, b, impl.m, impl.mw, impl.m2, impl.maa, impl.mwaa, model.m, model.m2]
  let fail := lawsOn D.mem U a b impl (K.exact all)
  return verdictOf cls inDomain fail model impl (K.tag a b)

def parseMap {V : Type} (p : Json → Except String V) (j : Json) : Except String (AList V) := do
  mapM' (fun e => do
      match ← e.getArr? with
      | #[k, v] => return ((← k.getInt?), (← p v))
      | _ => throw "map entry") (← j.getArr?).toList

def parseStrategy : String → Except String Strategy
  | "union" => pure .union
  | "intersect" => pure .intersect
  | "mergetop" => pure .mergeTop
  | s => throw s!"strategy {s}"

/-- one case on `DomainMap`s over values of kind `K` -/
def handleMap {V C : Type} [DecidableEq V] [Repr V] (K : Kind V C) (j : Json) : Except String String := do
  let S ← parseStrategy (← strF j "s")
  let a ← parseMap K.parse (← field j "a")
  let b ← parseMap K.parse (← field j "b")
  let implJ ← field j "impl"
  let cls := s!"map-{K.name}-{← strF j "s"}"
  if let .ok s := implJ.getStr? then
    return s!"spec class={cls}-panic expected=value impl={s}"
  let impl ← parseOuts (parseMap K.parse) implJ
  let D := K.dom
  let m := mapMerge S D a b
  let model : Outs (AList V) :=
    { m := m, mw := mapMergeWith S D a b, m2 := mapMerge S D m b, maa := mapMerge S D a a,
      mwaa := mapMergeWith S D a a }
  let all := [a, b, impl.m, impl.mw, impl.m2, impl.maa, impl.mwaa, model.m, model.m2]
  let keys : List Int := ((all.map AList.keys).flatten ++ [99]).eraseDups
  -- hypotheses of the map theorems: values well-formed, same size per key in both maps,
  -- and a maximal `Top` for Intersect
  let sizeOk := keys.all fun k =>
    match a.get k, b.get k with
    | some v, some w => K.bytes v == K.bytes w
    | _, _ => true
  let inDomain := a.all (K.wfB ·.2) && b.all (K.wfB ·.2) && sizeOk &&
    (S != .intersect || K.topMax)
  -- pairs (key, concrete value)
  let U : List (Int × C) := (keys.map fun k =>
    (K.univSmall (all.filterMap (·.get k))).map fun c => (k, c)).flatten
  -- reading of an absent key: nothing (Union) or what the kind's `Top` represents
  let topAt (k : Int) : Option V := ((a.get k).orElse fun _ => b.get k).map D.top
  let memOf (mp : AList V) (kc : Int × C) : Bool :=
    match mp.get kc.1 with
    | some v => D.mem v kc.2
    | none => S != .union && (match topAt kc.1 with | some t => D.mem t kc.2 | none => true)
  let fail := lawsOn memOf U a b impl
  return verdictOf cls inDomain fail model impl

def Kind.sized {V C : Type} (K : Kind V C) : SizedDom V C :=
  { K.dom with size := K.bytes, newTop := K.newTop }

def parseRegion {V : Type} (p : Json → Except String V) (j : Json) : Except String (Region V) := do
  parseMap p (← field j "vals")

/-- one case on `MemRegion`s over values of kind `K`. Concrete "values" are triples
(position, size, concrete value of that size): `get(position, size)` represents the value. -/
def handleMem {V C : Type} [DecidableEq V] [Repr V] (K : Kind V C) (j : Json) : Except String String := do
  let a ← parseRegion K.parse (← field j "a")
  let b ← parseRegion K.parse (← field j "b")
  let implJ ← field j "impl"
  let cls := s!"mem-{K.name}"
  if let .ok s := implJ.getStr? then
    return s!"spec class={cls}-panic expected=value impl={s}"
  let impl ← parseOuts (parseRegion K.parse) implJ
  let D := K.sized
  let m := memMerge D a b
  let model : Outs (Region V) :=
    { m := m, mw := memMergeWith D a b, m2 := memMerge D m b, maa := memMerge D a a,
      mwaa := memMergeWith D a a }
  let all := [a, b, impl.m, impl.mw, impl.m2, impl.maa, impl.mwaa, model.m, model.m2]
  let keys : List Int := ((all.map fun (r : Region V) => r.map (·.1)).flatten).eraseDups
  let poss : List Int := (keys ++ (keys.take 2).map (· + 1)).eraseDups
  let sizes : List Nat := ((all.map fun (r : Region V) => r.map (fun (c : Int × V) => K.bytes c.2)).flatten ++ [1, 8]).eraseDups
  -- the theorem's hypotheses on the inputs: values well-formed, positive sizes, nothing top stored
  -- (non-overlap and order hold by construction: the regions come from the real `insert`)
  let okRegion (r : Region V) : Bool := r.all fun c => K.wfB c.2 && K.bytes c.2 > 0 && !K.dom.isTop c.2
  let inDomain := okRegion a && okRegion b
  let U : List (Int × Nat × C) := (poss.map fun p => (sizes.map fun s =>
    (K.univSmall (all.map fun r => memGet D r p s)).map fun c => (p, s, c)).flatten).flatten
  let memOf (r : Region V) (x : Int × Nat × C) : Bool := K.dom.mem (memGet D r x.1 x.2.1) x.2.2
  let fail := lawsOn memOf U a b impl
  -- a kind whose `Top` is not maximal (`Taint`) is outside the theorems, but inside the property:
  -- all its law violations are reported under one class
  let fail := if K.topMax then fail else fail.map fun _ => "nonmaximal-top"
  return verdictOf cls inDomain fail model impl

def handleE (line : String) : Except String String := do
  let j ← Json.parse line
  let kind ← strF j "kind"
  let vk ← strF j "vk"
  match kind, vk with
  | "val", "bv" => handleVal bvKind j
  | "val", "taint" => handleVal taintKind j
  | "val", "data_bv" => handleVal (dataKind bvKind) j
  | "val", "iv" => handleVal ivKind j
  | "val", "data_iv" => handleVal (dataKind ivKind) j
  | "map", "iv" => handleMap ivKind j
  | "map", "data_iv" => handleMap (dataKind ivKind) j
  | "map", "bv" => handleMap bvKind j
  | "map", "taint" => handleMap taintKind j
  | "map", "data_bv" => handleMap (dataKind bvKind) j
  | "mem", "bv" => handleMem bvKind j
  | "mem", "iv" => handleMem ivKind j
  | "mem", "taint" => handleMem taintKind j
  | "mem", "data_bv" => handleMem (dataKind bvKind) j
  | "mem", "data_iv" => handleMem (dataKind ivKind) j
  | _, _ => throw s!"unknown kind {kind}/{vk}"

end CweModel.C03

def main : IO Unit := CweModel.Proto.runDriver (CweModel.Proto.guarded CweModel.C03.handleE)
