/-
C03 — `DataDomain<T>` (`src/cwe_checker_lib/src/abstract_domain/data.rs`, `data/trait_impl.rs`):
relative targets `id ↦ offset : T`, an optional absolute value `: T`, and the
`contains_top_values` flag. Generic over the offset/value kind `T` (`IntervalDomain`,
`BitvectorDomain`).

Concretisation. A `DataDomain` represents *tagged* values (`Sym`): "offset `o` relative to the
object `id`", "absolute value `c`", or "a value of unknown origin". A set flag
(`contains_top_values`) means that anything may be represented. `DataDom.γρ` is the derived
concretisation under a valuation `ρ` of the identifiers (`id ↦ base address`): the plain values
`ρ id + o`, `c`, or anything. All laws transfer from the tagged to the valuated reading because the
latter is a monotone image of the former.
-/
import CweModel.C03.Dom
import CweModel.C03.AList

namespace CweModel.C03

/-- `struct DataDomain<T> { size, relative_values: BTreeMap<AbstractIdentifier, T>, absolute_value: Option<T>, contains_top_values }`.
Identifiers are numbered by their `Ord` position. -/
structure DataDom (T : Type) where
  size : Nat
  rel : AList T
  abs : Option T
  top : Bool
deriving DecidableEq, Repr

/-- tagged concrete values -/
inductive Sym (C : Type) where
  | rel (id : Int) (off : C)
  | abs (c : C)
  | top
deriving DecidableEq, Repr

variable {T C : Type}

/-- loop body of the `relative_values` merge:
`entry(id).and_modify(|offset| *offset = offset.merge(offset_other)).or_insert_with(|| offset_other.clone())` -/
def combRel (D : Dom T C) (_k : Int) : Option T → Option T → Option T
  | some v, some w => some (D.merge v w)
  | some v, none => some v
  | none, some w => some w
  | none, none => none

/-- the `absolute_value` match of `DataDomain::merge` -/
def mergeAbs (D : Dom T C) : Option T → Option T → Option T
  | some l, some r => some (D.merge l r)
  | some v, none => some v
  | none, some v => some v
  | none, none => none

/-- values represented by an optional component -/
def optMem (D : Dom T C) : Option T → C → Bool
  | some t, c => D.mem t c
  | none, _ => false

namespace DataDom

/-- `AbstractDomain::merge` of `DataDomain<T>` -/
def merge (D : Dom T C) (a b : DataDom T) : DataDom T where
  size := a.size
  rel := mergeBy (combRel D) a.rel b.rel
  abs := mergeAbs D a.abs b.abs
  top := a.top || b.top

/-- `is_top`: `relative_values.is_empty() && absolute_value.is_none() && contains_top_values` -/
def isTop (a : DataDom T) : Bool := a.rel.isEmpty && a.abs.isNone && a.top

/-- `HasTop::top` = `new_top(self.bytesize())` -/
def topOf (a : DataDom T) : DataDom T := { size := a.size, rel := [], abs := none, top := true }

def mem (D : Dom T C) (a : DataDom T) : Sym C → Bool
  | .rel id o => a.top || optMem D (a.rel.get id) o
  | .abs c => a.top || optMem D a.abs c
  | .top => a.top

/-- a value of byte size `s` whose components are well-formed values of kind `T` -/
def WF (wfT : T → Prop) (s : Nat) (a : DataDom T) : Prop :=
  a.size = s ∧ (∀ k t, a.rel.get k = some t → wfT t) ∧ (∀ t, a.abs = some t → wfT t)

end DataDom

/-- `DataDomain<T>` as a value kind (`merge_with` is the trait default) -/
def dataDom [DecidableEq T] (D : Dom T C) : Dom (DataDom T) (Sym C) where
  mem := DataDom.mem D
  merge := DataDom.merge D
  mergeWith := defaultMergeWith (DataDom.merge D)
  isTop := DataDom.isTop
  top := DataDom.topOf

section
variable {D : Dom T C} {wfT : T → Prop} {GT : C → Prop}

theorem combRel_none (D : Dom T C) (k : Int) : combRel D k none none = none := rfl

theorem get_merge_rel (D : Dom T C) (a b : DataDom T) (k : Int) :
    (DataDom.merge D a b).rel.get k = combRel D k (a.rel.get k) (b.rel.get k) :=
  get_mergeBy (combRel D) (combRel_none D) a.rel b.rel k

theorem mergeAbs_eq_combRel (D : Dom T C) (ov ow : Option T) : mergeAbs D ov ow = combRel D 0 ov ow := by
  cases ov <;> cases ow <;> rfl

theorem combRel_key (D : Dom T C) (k : Int) (ov ow : Option T) : combRel D k ov ow = combRel D 0 ov ow := by
  cases ov <;> cases ow <;> rfl

/-- one component: law 1 -/
theorem comp_sound (L : Laws D wfT GT) {ov ow : Option T} (hv : ∀ v, ov = some v → wfT v)
    (hw : ∀ w, ow = some w → wfT w) (c : C)
    (h : optMem D ov c = true ∨ optMem D ow c = true) : optMem D (combRel D 0 ov ow) c = true := by
  cases ov with
  | none =>
    cases ow with
    | none => rcases h with h | h <;> exact h
    | some w =>
      rcases h with h | h
      · simp [optMem] at h
      · exact h
  | some v =>
    cases ow with
    | none =>
      rcases h with h | h
      · exact h
      · simp [optMem] at h
    | some w =>
      simp only [combRel, optMem] at h ⊢
      rcases h with h | h
      · exact L.sound_l (hv v rfl) (hw w rfl) c h
      · exact L.sound_r (hv v rfl) (hw w rfl) c h

/-- one component: law 2 -/
theorem comp_absorb (L : Laws D wfT GT) {ov ow : Option T} (hv : ∀ v, ov = some v → wfT v)
    (hw : ∀ w, ow = some w → wfT w)
    (hle : ∀ c, optMem D ow c = true → optMem D ov c = true) (c : C) :
    optMem D (combRel D 0 ov ow) c = optMem D ov c := by
  cases ov with
  | none =>
    cases ow with
    | none => rfl
    | some w =>
      have := hle c
      simp only [optMem, Bool.false_eq_true, imp_false, Bool.not_eq_true] at this
      simp only [combRel, optMem]
      exact this
  | some v =>
    cases ow with
    | none => rfl
    | some w =>
      simp only [combRel, optMem]
      have := L.absorb (hv v rfl) (hw w rfl) (fun x hx => hle x hx) c
      simp only [Dom.γ] at this
      exact Bool.eq_iff_iff.mpr this

theorem comp_wf (L : Laws D wfT GT) {ov ow : Option T} (hv : ∀ v, ov = some v → wfT v)
    (hw : ∀ w, ow = some w → wfT w) : ∀ u, combRel D 0 ov ow = some u → wfT u := by
  intro u hu
  cases ov with
  | none =>
    cases ow with
    | none => cases hu
    | some w => simp only [combRel, Option.some.injEq] at hu; subst hu; exact hw _ rfl
  | some v =>
    cases ow with
    | none => simp only [combRel, Option.some.injEq] at hu; subst hu; exact hv _ rfl
    | some w =>
      simp only [combRel, Option.some.injEq] at hu; subst hu
      exact L.merge_wf (hv v rfl) (hw w rfl)

theorem DataDom.merge_wf (L : Laws D wfT GT) {s : Nat} {a b : DataDom T}
    (ha : DataDom.WF wfT s a) (hb : DataDom.WF wfT s b) : DataDom.WF wfT s (DataDom.merge D a b) := by
  refine ⟨ha.1, ?_, ?_⟩
  · intro k t ht
    rw [get_merge_rel, combRel_key] at ht
    exact comp_wf L (ha.2.1 k) (hb.2.1 k) t ht
  · intro t ht
    have ht' : mergeAbs D a.abs b.abs = some t := ht
    rw [mergeAbs_eq_combRel] at ht'
    exact comp_wf L ha.2.2 hb.2.2 t ht'

theorem DataDom.merge_sound (L : Laws D wfT GT) {s : Nat} {a b : DataDom T}
    (ha : DataDom.WF wfT s a) (hb : DataDom.WF wfT s b) (x : Sym C)
    (h : DataDom.mem D a x = true ∨ DataDom.mem D b x = true) :
    DataDom.mem D (DataDom.merge D a b) x = true := by
  cases x with
  | top =>
    simp only [DataDom.mem, DataDom.merge] at *
    rcases h with h | h <;> simp [h]
  | rel id o =>
    simp only [DataDom.mem, Bool.or_eq_true] at h ⊢
    by_cases hat : a.top = true
    · left; simp [DataDom.merge, hat]
    by_cases hbt : b.top = true
    · left; simp [DataDom.merge, hbt]
    right
    rw [get_merge_rel, combRel_key]
    apply comp_sound L (ha.2.1 id) (hb.2.1 id) o
    rcases h with (h | h) | (h | h)
    · exact absurd h hat
    · exact Or.inl h
    · exact absurd h hbt
    · exact Or.inr h
  | abs c =>
    simp only [DataDom.mem, Bool.or_eq_true] at h ⊢
    by_cases hat : a.top = true
    · left; simp [DataDom.merge, hat]
    by_cases hbt : b.top = true
    · left; simp [DataDom.merge, hbt]
    right
    show optMem D (mergeAbs D a.abs b.abs) c = true
    rw [mergeAbs_eq_combRel]
    apply comp_sound L ha.2.2 hb.2.2 c
    rcases h with (h | h) | (h | h)
    · exact absurd h hat
    · exact Or.inl h
    · exact absurd h hbt
    · exact Or.inr h

theorem DataDom.merge_absorb (L : Laws D wfT GT) {s : Nat} {a b : DataDom T}
    (ha : DataDom.WF wfT s a) (hb : DataDom.WF wfT s b)
    (hle : ∀ x, DataDom.mem D b x = true → DataDom.mem D a x = true) (x : Sym C) :
    DataDom.mem D (DataDom.merge D a b) x = DataDom.mem D a x := by
  cases hat : a.top with
  | true => cases x <;> simp [DataDom.mem, DataDom.merge, hat]
  | false =>
    have hbt : b.top = false := by
      have := hle .top
      simp only [DataDom.mem, hat] at this
      cases hb' : b.top with
      | false => rfl
      | true => exact absurd (this hb') (by simp)
    cases x with
    | top => simp [DataDom.mem, DataDom.merge, hat, hbt]
    | rel id o =>
      simp only [DataDom.mem, DataDom.merge, hat, hbt, Bool.or_self, Bool.false_or]
      have := get_merge_rel D a b id
      simp only [DataDom.merge] at this
      rw [this, combRel_key]
      apply comp_absorb L (ha.2.1 id) (hb.2.1 id)
      intro c hc
      have := hle (.rel id c)
      simp only [DataDom.mem, hat, hbt, Bool.false_or] at this
      exact this hc
    | abs c =>
      simp only [DataDom.mem, DataDom.merge, hat, hbt, Bool.or_self, Bool.false_or]
      rw [mergeAbs_eq_combRel]
      apply comp_absorb L ha.2.2 hb.2.2
      intro c hc
      have := hle (.abs c)
      simp only [DataDom.mem, hat, hbt, Bool.false_or] at this
      exact this hc

variable [DecidableEq T]

/-- **C03-data.** `DataDomain<T>` satisfies the merge laws on values of one byte size, for every
offset/value kind `T` that satisfies them: the merge contains both inputs (relative targets,
absolute values and the top flag), re-merging an absorbed value changes nothing, `merge a a`
represents what `a` represents, `merge_with` agrees with `merge`, and `is_top` values represent
everything. -/
theorem dataDom_laws (L : Laws D wfT GT) (s : Nat) :
    Laws (dataDom D) (DataDom.WF wfT s) (fun _ => True) := by
  have absorb : ∀ {a b : DataDom T}, DataDom.WF wfT s a → DataDom.WF wfT s b →
      (dataDom D).le b a → (dataDom D).eqv ((dataDom D).merge a b) a := by
    intro a b ha hb hle x
    show DataDom.mem D (DataDom.merge D a b) x = true ↔ DataDom.mem D a x = true
    rw [DataDom.merge_absorb L ha hb hle x]
  have mwf : ∀ {a b : DataDom T}, DataDom.WF wfT s a → DataDom.WF wfT s b →
      DataDom.WF wfT s (defaultMergeWith (DataDom.merge D) a b) := by
    intro a b ha hb
    unfold defaultMergeWith; split
    · exact ha
    · exact DataDom.merge_wf L ha hb
  refine
    { merge_wf := fun ha hb => DataDom.merge_wf L ha hb, mergeWith_wf := mwf, top_wf := ?_,
      sound_l := ?_, sound_r := ?_, absorb := absorb, mergeWith_eqv := ?_, isTop_γ := ?_,
      top_γ := ?_ }
  · intro a ha
    refine ⟨ha.1, ?_, ?_⟩
    · intro k t h; simp [dataDom, DataDom.topOf, AList.get] at h
    · intro t h; simp [dataDom, DataDom.topOf] at h
  · intro a b ha hb x hx; exact DataDom.merge_sound L ha hb x (Or.inl hx)
  · intro a b ha hb x hx; exact DataDom.merge_sound L ha hb x (Or.inr hx)
  · intro a b ha _
    exact defaultMergeWith_eqv (dataDom D) a b rfl (absorb ha ha (Laws.le_refl _ a))
  · intro a _ ht x
    have : a.top = true := by
      simp only [dataDom, DataDom.isTop, Bool.and_eq_true] at ht; exact ht.2
    cases x <;> simp [Dom.γ, dataDom, DataDom.mem, this]
  · intro a _ x
    cases x <;> simp [Dom.γ, dataDom, DataDom.mem, DataDom.topOf]

/-! ### the valuated reading -/

/-- meaning of a tagged value under a valuation of the identifiers -/
def Sym.eval (add : C → C → C) (ρ : Int → C) : Sym C → C → Prop
  | .rel id o, x => x = add (ρ id) o
  | .abs c, x => x = c
  | .top, _ => True

/-- plain concrete values represented under `ρ` -/
def DataDom.γρ (D : Dom T C) (add : C → C → C) (ρ : Int → C) (a : DataDom T) (x : C) : Prop :=
  ∃ s, (dataDom D).γ a s ∧ Sym.eval add ρ s x

/-- **C03-data-valuated (law 1).** `γρ a ∪ γρ b ⊆ γρ (merge a b)` for every valuation -/
theorem DataDom.γρ_sound (L : Laws D wfT GT) {s : Nat} {a b : DataDom T}
    (ha : DataDom.WF wfT s a) (hb : DataDom.WF wfT s b) (add : C → C → C) (ρ : Int → C) (x : C)
    (h : DataDom.γρ D add ρ a x ∨ DataDom.γρ D add ρ b x) :
    DataDom.γρ D add ρ (DataDom.merge D a b) x := by
  rcases h with ⟨y, hy, he⟩ | ⟨y, hy, he⟩
  · exact ⟨y, (dataDom_laws L s).sound_l ha hb y hy, he⟩
  · exact ⟨y, (dataDom_laws L s).sound_r ha hb y hy, he⟩

/-- **C03-data-valuated (law 2).** `γρ (merge (merge a b) b) = γρ (merge a b)` -/
theorem DataDom.γρ_absorb_merged (L : Laws D wfT GT) {s : Nat} {a b : DataDom T}
    (ha : DataDom.WF wfT s a) (hb : DataDom.WF wfT s b) (add : C → C → C) (ρ : Int → C) (x : C) :
    DataDom.γρ D add ρ (DataDom.merge D (DataDom.merge D a b) b) x
      ↔ DataDom.γρ D add ρ (DataDom.merge D a b) x := by
  have h := (dataDom_laws L s).absorb_merged ha hb
  constructor
  · rintro ⟨y, hy, he⟩; exact ⟨y, (h y).mp hy, he⟩
  · rintro ⟨y, hy, he⟩; exact ⟨y, (h y).mpr hy, he⟩

/-- **C03-data-valuated (law 3).** `γρ (merge a a) = γρ a` -/
theorem DataDom.γρ_idem (L : Laws D wfT GT) {s : Nat} {a : DataDom T}
    (ha : DataDom.WF wfT s a) (add : C → C → C) (ρ : Int → C) (x : C) :
    DataDom.γρ D add ρ (DataDom.merge D a a) x ↔ DataDom.γρ D add ρ a x := by
  have h := (dataDom_laws L s).idem ha
  constructor
  · rintro ⟨y, hy, he⟩; exact ⟨y, (h y).mp hy, he⟩
  · rintro ⟨y, hy, he⟩; exact ⟨y, (h y).mpr hy, he⟩

/-- a value with the top flag represents every plain value -/
theorem DataDom.γρ_top (add : C → C → C) (ρ : Int → C) {a : DataDom T} (h : a.top = true) (x : C) :
    DataDom.γρ D add ρ a x :=
  ⟨.top, by simp [Dom.γ, dataDom, DataDom.mem, h], trivial⟩

end

end CweModel.C03
