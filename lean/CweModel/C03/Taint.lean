/-
C03 — `Taint` (`src/cwe_checker_lib/src/analysis/taint/mod.rs`): `Tainted(size)` or `Top(size)`
(untainted).

Concretisation (may-analysis reading): a concrete value of `size` bytes is either untainted
(`false`) or tainted (`true`); `Top` represents only untainted values, `Tainted` represents both.
`Top` is therefore NOT a maximal element (the doc comment of the type says so), which is why the
Intersect strategy / `MemRegion` theorems, which need a maximal `Top`, do not apply to `Taint`.
-/
import CweModel.C03.Dom

namespace CweModel.C03

inductive Taint where
  | tainted (bytes : Nat)
  | top (bytes : Nat)
deriving DecidableEq, Repr

namespace Taint

def bytesize : Taint → Nat
  | tainted s => s
  | top s => s

/-- `merge`: `match (self, other) { (Tainted(size), _) | (_, Tainted(size)) => Tainted(*size), _ => Top(self.bytesize()) }` -/
def merge : Taint → Taint → Taint
  | tainted s, _ => tainted s
  | top _, tainted s => tainted s
  | top s, top _ => top s

/-- `merge_with`: `if let (Top(_), Tainted(_)) = (&self, other) { *self = *other }` -/
def mergeWith : Taint → Taint → Taint
  | top _, tainted s => tainted s
  | a, _ => a

def isTop : Taint → Bool
  | top _ => true
  | tainted _ => false

def topOf (a : Taint) : Taint := top a.bytesize

/-- concrete: (byte size, is tainted) -/
def mem : Taint → Nat × Bool → Bool
  | top s, c => c.1 == s && !c.2
  | tainted s, c => c.1 == s

def wf (s : Nat) (a : Taint) : Prop := a.bytesize = s

end Taint

def taintDom : Dom Taint (Nat × Bool) where
  mem := Taint.mem
  merge := Taint.merge
  mergeWith := Taint.mergeWith
  isTop := Taint.isTop
  top := Taint.topOf

/-- what `Top(s)` represents: the untainted values of `s` bytes -/
def taintTop (s : Nat) (c : Nat × Bool) : Prop := c.1 = s ∧ c.2 = false

/-- **C03-taint-merge_with.** the hand-written `merge_with` computes exactly `merge`
(for all inputs, also of different sizes) -/
theorem Taint.mergeWith_eq_merge (a b : Taint) : Taint.mergeWith a b = Taint.merge a b := by
  cases a <;> cases b <;> rfl

/-- **C03-taint-idem.** -/
theorem Taint.merge_self (a : Taint) : Taint.merge a a = a := by cases a <;> rfl

/-- **C03-taint.** `Taint` satisfies the merge laws on values of one byte size. -/
theorem taintDom_laws (s : Nat) : Laws taintDom (Taint.wf s) (taintTop s) := by
  refine
    { merge_wf := ?_, mergeWith_wf := ?_, top_wf := ?_, sound_l := ?_, sound_r := ?_,
      absorb := ?_, mergeWith_eqv := ?_, isTop_γ := ?_, top_γ := ?_ }
  · intro a b ha hb
    cases a <;> cases b <;> simp_all [taintDom, Taint.wf, Taint.merge, Taint.bytesize]
  · intro a b ha hb
    cases a <;> cases b <;> simp_all [taintDom, Taint.wf, Taint.mergeWith, Taint.bytesize]
  · intro a ha; cases a <;> simp_all [taintDom, Taint.wf, Taint.topOf, Taint.bytesize]
  · intro a b ha hb c hc
    cases a <;> cases b <;>
      simp_all [Dom.γ, taintDom, Taint.wf, Taint.merge, Taint.mem, Taint.bytesize]
  · intro a b ha hb c hc
    cases a <;> cases b <;>
      simp_all [Dom.γ, taintDom, Taint.wf, Taint.merge, Taint.mem, Taint.bytesize]
  · intro a b ha hb hle c
    cases a with
    | tainted sa => cases b <;> simp [Dom.γ, taintDom, Taint.merge]
    | top sa =>
      cases b with
      | top sb => simp [Dom.γ, taintDom, Taint.merge]
      | tainted sb =>
        -- `Tainted` is not below `Top`
        have := hle (sb, true) (by simp [Dom.γ, taintDom, Taint.mem])
        simp [Dom.γ, taintDom, Taint.mem] at this
  · intro a b _ _ c
    show Taint.mem (Taint.mergeWith a b) c = true ↔ Taint.mem (Taint.merge a b) c = true
    rw [Taint.mergeWith_eq_merge]
  · intro a ha ht c
    cases a with
    | tainted _ => simp [taintDom, Taint.isTop] at ht
    | top sa =>
      simp only [Taint.wf, Taint.bytesize] at ha
      simp [Dom.γ, taintDom, Taint.mem, taintTop, ha]
  · intro a ha c
    simp only [Taint.wf] at ha
    simp [Dom.γ, taintDom, Taint.topOf, Taint.mem, taintTop, ha]

-- non-vacuity
example : Taint.wf 4 (.top 4) ∧ Taint.wf 4 (.tainted 4) := ⟨rfl, rfl⟩
example : taintDom.γ (Taint.merge (.top 4) (.tainted 4)) (4, true) := by decide
example : ¬ taintDom.γ (.top 4) (4, true) := by decide

end CweModel.C03
