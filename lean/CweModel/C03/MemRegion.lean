/-
C03 — `MemRegion<T>` merge (`src/cwe_checker_lib/src/abstract_domain/mem_region.rs`:
`AbstractDomain::merge`, `merge_inner`, `merge_or_merge_with_top`, `compute_range_end`).

The model of `MemRegion` is the shared one (`CweModel.Base.MemRegion`, written for C05, generic
over the value type through the class `ValueDomain`); C05 proves that `merge_inner` keeps exactly
the cells of the declarative `Spec.merge` (`CweModel.C05.mem_mergeInner`). Here the value type is a
kind satisfying the merge laws (`SizedLaws`), and the laws are proved for regions *pointwise*: for
every position `p` and size `s`, what `get(p, s)` of the merged region represents contains what
`get(p, s)` of either input represents. A region gives no information about a slot it does not
store (`get` returns `Top`), so the theorems need a value kind whose `Top` is maximal; `Taint` is
not such a kind (see `Taint.lean`).
-/
import CweModel.C05.Merge
import CweModel.C03.Dom

namespace CweModel.C03
open CweModel.MemRegion CweModel.C05

variable {V C : Type}

/-- a value kind with the two size operations `MemRegion` needs (`SizedDomain`) -/
structure SizedDom (V C : Type) extends Dom V C where
  /-- `SizedDomain::bytesize` -/
  size : V → Nat
  /-- `SizedDomain::new_top(bytesize)` -/
  newTop : Nat → V

/-- the operations `MemRegion<T>` uses, taken from the kind -/
@[reducible] def SizedDom.valueDomain (D : SizedDom V C) : ValueDomain V :=
  { size := D.size, isTop := D.isTop, newTop := D.newTop, topOf := D.top, merge := D.merge }

/-- the merge laws for every size `s` the kind supports (`valid s`), with a maximal `Top` per size -/
structure SizedLaws (D : SizedDom V C) (valid : Nat → Prop) (wf : Nat → V → Prop)
    (G : Nat → C → Prop) : Prop where
  laws : ∀ s, valid s → Laws D.toDom (wf s) (G s)
  size_wf : ∀ {s v}, wf s v → D.size v = s
  newTop_wf : ∀ s, valid s → wf s (D.newTop s)
  newTop_γ : ∀ s c, D.toDom.γ (D.newTop s) c ↔ G s c
  top_max : ∀ {s v}, wf s v → ∀ c, D.toDom.γ v c → G s c

/-- `<MemRegion<T> as AbstractDomain>::merge` over the kind `D` -/
def memMerge [DecidableEq V] (D : SizedDom V C) (a b : Region V) : Region V :=
  @mergeRegions V D.valueDomain _ a b

/-- `merge_with` is the trait default: `if self != other { *self = self.merge(other) }` -/
def memMergeWith [DecidableEq V] (D : SizedDom V C) (a b : Region V) : Region V :=
  defaultMergeWith (memMerge D) a b

/-- `MemRegion::get(position, size)` over the kind `D` -/
def memGet (D : SizedDom V C) (r : Region V) (p : Int) (s : Nat) : V :=
  @CweModel.MemRegion.get V D.valueDomain r p s

/-- a region as produced by the operations of `MemRegion` (C05's invariant, no i64 overflow) whose
stored values are well-formed values of their own size -/
structure RegionWF (D : SizedDom V C) (valid : Nat → Prop) (wf : Nat → V → Prop) (r : Region V) :
    Prop where
  inv : @Inv V D.valueDomain r
  bounded : @Bounded V D.valueDomain r
  vals : ∀ c ∈ r, wf (D.size c.2) c.2
  sizes : ∀ c ∈ r, valid (D.size c.2)

section
variable [DecidableEq V] {D : SizedDom V C} {valid : Nat → Prop} {wf : Nat → V → Prop}
  {G : Nat → C → Prop}

omit [DecidableEq V] in
/-- whatever a region says about a slot is below `Top` of the slot's size -/
theorem memGet_le_top (L : SizedLaws D valid wf G) {r : Region V} (hr : RegionWF D valid wf r) (p : Int) (s : Nat)
    (c : C) (h : D.toDom.γ (memGet D r p s) c) : G s c := by
  unfold memGet CweModel.MemRegion.get at h
  cases hg : BMap.get r p with
  | none => rw [hg] at h; exact (L.newTop_γ s c).mp h
  | some e =>
    rw [hg] at h
    simp only at h
    split at h
    · rename_i hs
      have hm := BMap.mem_of_get hg
      have hwf := hr.vals _ hm
      have hs' : D.size e = s := hs
      rw [hs'] at hwf
      exact L.top_max hwf c h
    · exact (L.newTop_γ s c).mp h

omit [DecidableEq V] in
/-- the value a region returns for a slot it stores -/
theorem memGet_of_mem {r : Region V} (hs : BMap.Sorted r) {p : Int} {v : V} (hm : (p, v) ∈ r) :
    memGet D r p (D.size v) = v := by
  unfold memGet CweModel.MemRegion.get
  rw [BMap.get_of_mem hs hm]
  simp [ValueDomain.size]

omit [DecidableEq V] in
theorem size_merge (L : SizedLaws D valid wf G) {s : Nat} (hs : valid s) {x y : V} (hx : wf s x)
    (hy : wf s y) : D.size (D.merge x y) = s := L.size_wf ((L.laws s hs).merge_wf hx hy)

/-- **C03-memregion (law 1).** For every slot `(p, s)`: every concrete value that `get(p, s)` of
either input region represents is represented by `get(p, s)` of the merged region. -/
theorem memMerge_sound (L : SizedLaws D valid wf G) {a b : Region V} (ha : RegionWF D valid wf a)
    (hb : RegionWF D valid wf b) (p : Int) (s : Nat) (hs : valid s) (c : C)
    (h : D.toDom.γ (memGet D a p s) c ∨ D.toDom.γ (memGet D b p s) c) :
    D.toDom.γ (memGet D (memMerge D a b) p s) c := by
  letI := D.valueDomain
  have hG : G s c := h.elim (memGet_le_top L ha p s c) (memGet_le_top L hb p s c)
  have htop : D.toDom.γ (D.newTop s) c := (L.newTop_γ s c).mpr hG
  unfold memMerge mergeRegions
  split
  · rename_i hab; subst hab; exact h.elim id id
  · -- the cell of the merged region at `p`, if any
    show D.toDom.γ (CweModel.MemRegion.get (mergeInner a b) p s) c
    unfold CweModel.MemRegion.get
    cases hg : BMap.get (mergeInner a b) p with
    | none => exact htop
    | some x =>
      simp only
      split
      · rename_i hsx
        have hsx' : D.size x = s := hsx
        have hmem := (mem_mergeInner ha.inv hb.inv ha.bounded hb.bounded).mp (BMap.mem_of_get hg)
        unfold Spec.merge at hmem
        rw [List.mem_append, List.mem_filterMap, List.mem_filterMap] at hmem
        rcases hmem with ⟨cc, hcc, hout⟩ | ⟨d, hd, hout⟩
        · -- from a cell `cc` of `a`
          have hwc := ha.vals cc hcc
          have hvc := ha.sizes cc hcc
          cases hf : b.find? (sameSlot cc) with
          | some d =>
            rw [hf] at hout
            have hd := List.mem_of_find?_eq_some hf
            have hslot := sameSlot_iff.mp (List.find?_some (p := fun t => sameSlot cc t) hf)
            have hwd := hb.vals d hd
            have hsz : D.size d.2 = D.size cc.2 := hslot.2.symm
            rw [hsz] at hwd
            simp only [C05.keepNonTop] at hout
            split at hout
            · cases hout
            · simp only [Option.some.injEq, Prod.mk.injEq] at hout
              obtain ⟨hp, hx⟩ := hout
              have hsize : D.size cc.2 = s := by
                rw [← hsx', ← hx]; exact (size_merge L hvc hwc hwd).symm
              rw [hsize] at hwc hwd
              have hga : memGet D a p s = cc.2 := by
                rw [← hsize, ← hp]; exact memGet_of_mem ha.inv.sorted (by simpa using hcc)
              have hgb : memGet D b p s = d.2 := by
                have : (p, d.2) ∈ b := by rw [← hp, hslot.1]; simpa using hd
                rw [← hsize, ← hsz]; exact memGet_of_mem hb.inv.sorted this
              rw [← hx]
              rw [hga, hgb] at h
              rcases h with h | h
              · exact (L.laws s hs).sound_l hwc hwd c h
              · exact (L.laws s hs).sound_r hwc hwd c h
          | none =>
            rw [hf] at hout
            simp only at hout
            split at hout
            · cases hout
            · simp only [C05.keepNonTop] at hout
              split at hout
              · cases hout
              · simp only [Option.some.injEq, Prod.mk.injEq] at hout
                obtain ⟨hp, hx⟩ := hout
                have hwt := L.newTop_wf (D.size cc.2) hvc
                have hsize : D.size cc.2 = s := by
                  rw [← hsx', ← hx]; exact (size_merge L hvc hwc hwt).symm
                rw [hsize] at hwc hwt
                have hga : memGet D a p s = cc.2 := by
                  rw [← hsize, ← hp]; exact memGet_of_mem ha.inv.sorted (by simpa using hcc)
                rw [← hx]
                show D.toDom.γ (D.merge cc.2 (D.newTop (D.size cc.2))) c
                rw [hsize]
                rcases h with h | h
                · rw [hga] at h; exact (L.laws s hs).sound_l hwc hwt c h
                · exact (L.laws s hs).sound_r hwc hwt c htop
        · -- from a cell `d` of `b` that meets no cell of `a`
          have hwd := hb.vals d hd
          have hvd := hb.sizes d hd
          split at hout
          · cases hout
          · split at hout
            · cases hout
            · simp only [C05.keepNonTop] at hout
              split at hout
              · cases hout
              · simp only [Option.some.injEq, Prod.mk.injEq] at hout
                obtain ⟨hp, hx⟩ := hout
                have hwt := L.newTop_wf (D.size d.2) hvd
                have hsize : D.size d.2 = s := by
                  rw [← hsx', ← hx]; exact (size_merge L hvd hwd hwt).symm
                rw [hsize] at hwd hwt
                have hgb : memGet D b p s = d.2 := by
                  rw [← hsize, ← hp]; exact memGet_of_mem hb.inv.sorted (by simpa using hd)
                rw [← hx]
                show D.toDom.γ (D.merge d.2 (D.newTop (D.size d.2))) c
                rw [hsize]
                rcases h with h | h
                · exact (L.laws s hs).sound_r hwd hwt c htop
                · rw [hgb] at h; exact (L.laws s hs).sound_l hwd hwt c h
      · exact htop

/-- **C03-memregion (law 3).** merging a region with itself returns it unchanged -/
theorem memMerge_self (D : SizedDom V C) (a : Region V) : memMerge D a a = a := by
  unfold memMerge mergeRegions; simp

/-- **C03-memregion (law 4).** the default `merge_with` computes exactly `merge` -/
theorem memMergeWith_eq (D : SizedDom V C) (a b : Region V) : memMergeWith D a b = memMerge D a b := by
  unfold memMergeWith defaultMergeWith
  split
  · rename_i h; subst h; exact (memMerge_self D a).symm
  · rfl

omit [DecidableEq V] in
/-- where the cell `(p, x)` of a merged region comes from -/
theorem mergeInner_cases {a b : Region V} (ha : RegionWF D valid wf a) (hb : RegionWF D valid wf b)
    {p : Int} {x : V} (hm : (p, x) ∈ @mergeInner V D.valueDomain a b) :
    D.isTop x = false ∧
    ((∃ l r, (p, l) ∈ a ∧ (p, r) ∈ b ∧ D.size l = D.size r ∧ x = D.merge l r) ∨
     (∃ l, (p, l) ∈ a ∧ List.find? (@sameSlot V D.valueDomain (p, l)) b = none ∧
        List.any b (@cellsOverlap V D.valueDomain (p, l)) = false ∧
        x = D.merge l (D.newTop (D.size l))) ∨
     (∃ r, (p, r) ∈ b ∧ x = D.merge r (D.newTop (D.size r)))) := by
  letI := D.valueDomain
  have hmem := (mem_mergeInner ha.inv hb.inv ha.bounded hb.bounded).mp hm
  unfold Spec.merge at hmem
  rw [List.mem_append, List.mem_filterMap, List.mem_filterMap] at hmem
  rcases hmem with ⟨cc, hcc, hout⟩ | ⟨d, hd, hout⟩
  · cases hf : b.find? (sameSlot cc) with
    | some d =>
      rw [hf] at hout
      have hd := List.mem_of_find?_eq_some hf
      have hslot := sameSlot_iff.mp (List.find?_some (p := fun t => sameSlot cc t) hf)
      obtain ⟨ht, hx⟩ := keepNonTop_eq_some.mp hout
      simp only [Prod.mk.injEq] at hx
      obtain ⟨hp, hx⟩ := hx
      refine ⟨by rw [hx]; exact ht, .inl ⟨cc.2, d.2, ?_, ?_, hslot.2, hx⟩⟩
      · rw [hp]; exact hcc
      · rw [hp, hslot.1]; exact hd
    | none =>
      rw [hf] at hout
      simp only at hout
      cases hany : b.any (cellsOverlap cc) with
      | true => rw [hany] at hout; simp at hout
      | false =>
        rw [hany] at hout
        simp only [Bool.false_eq_true, if_false] at hout
        obtain ⟨ht, hx⟩ := keepNonTop_eq_some.mp hout
        simp only [Prod.mk.injEq] at hx
        obtain ⟨hp, hx⟩ := hx
        have hcc' : cc = (p, cc.2) := by rw [hp]
        refine ⟨by rw [hx]; exact ht, .inr (.inl ⟨cc.2, ?_, ?_, ?_, hx⟩)⟩
        · rw [← hcc']; exact hcc
        · rw [← hcc']; exact hf
        · rw [← hcc']; exact hany
  · split at hout
    · cases hout
    · split at hout
      · cases hout
      · obtain ⟨ht, hx⟩ := keepNonTop_eq_some.mp hout
        simp only [Prod.mk.injEq] at hx
        obtain ⟨hp, hx⟩ := hx
        refine ⟨by rw [hx]; exact ht, .inr (.inr ⟨d.2, ?_, hx⟩)⟩
        rw [hp]; exact hd


omit [DecidableEq V] in
/-- size and well-formedness of a merged cell -/
theorem mergeInner_cell_wf (L : SizedLaws D valid wf G) {a b : Region V}
    (ha : RegionWF D valid wf a) (hb : RegionWF D valid wf b) {p : Int} {x : V}
    (hm : (p, x) ∈ @mergeInner V D.valueDomain a b) :
    valid (D.size x) ∧ wf (D.size x) x ∧
    ((∃ l, (p, l) ∈ a ∧ D.size l = D.size x) ∨ (∃ r, (p, r) ∈ b ∧ D.size r = D.size x)) := by
  obtain ⟨_, h⟩ := mergeInner_cases ha hb hm
  rcases h with ⟨l, r, hl, hr, hsz, rfl⟩ | ⟨l, hl, _, _, rfl⟩ | ⟨r, hr, rfl⟩
  · have hwl := ha.vals _ hl; have hvl := ha.sizes _ hl
    have hwr := hb.vals _ hr
    simp only at hwl hvl hwr
    rw [← hsz] at hwr
    have hs := size_merge L hvl hwl hwr
    rw [hs]
    exact ⟨hvl, (L.laws _ hvl).merge_wf hwl hwr, .inl ⟨l, hl, rfl⟩⟩
  · have hwl := ha.vals _ hl; have hvl := ha.sizes _ hl
    simp only at hwl hvl
    have hwt := L.newTop_wf _ hvl
    have hs := size_merge L hvl hwl hwt
    rw [hs]
    exact ⟨hvl, (L.laws _ hvl).merge_wf hwl hwt, .inl ⟨l, hl, rfl⟩⟩
  · have hwr := hb.vals _ hr; have hvr := hb.sizes _ hr
    simp only at hwr hvr
    have hwt := L.newTop_wf _ hvr
    have hs := size_merge L hvr hwr hwt
    rw [hs]
    exact ⟨hvr, (L.laws _ hvr).merge_wf hwr hwt, .inr ⟨r, hr, rfl⟩⟩

/-- **C03-memregion-wf.** the merge of two well-formed regions is a well-formed region -/
theorem regionWF_memMerge (L : SizedLaws D valid wf G) (hLaw : @LawfulValueDomain V D.valueDomain)
    {a b : Region V} (ha : RegionWF D valid wf a) (hb : RegionWF D valid wf b) :
    RegionWF D valid wf (memMerge D a b) := by
  letI := D.valueDomain
  unfold memMerge mergeRegions
  split
  · exact ha
  · refine ⟨inv_mergeInner ha.inv hb.inv ha.bounded hb.bounded, ?_, ?_, ?_⟩
    · intro c hc
      obtain ⟨_, _, hsrc⟩ := mergeInner_cell_wf L ha hb (p := c.1) (x := c.2) hc
      rcases hsrc with ⟨l, hl, hsz⟩ | ⟨r, hr, hsz⟩
      · have := ha.bounded _ hl
        simp only [isize] at this ⊢
        have e : ValueDomain.size l = ValueDomain.size c.2 := hsz
        rw [← e]; exact this
      · have := hb.bounded _ hr
        simp only [isize] at this ⊢
        have e : ValueDomain.size r = ValueDomain.size c.2 := hsz
        rw [← e]; exact this
    · intro c hc; exact (mergeInner_cell_wf L ha hb (p := c.1) (x := c.2) hc).2.1
    · intro c hc; exact (mergeInner_cell_wf L ha hb (p := c.1) (x := c.2) hc).1


omit [DecidableEq V] in
/-- a cell of `b` in the slot of `e` is found by `find? (sameSlot e)` and it is that cell -/
theorem find_sameSlot {b : Region V} (hb : @BMap.Sorted V b) {p : Int} {x r : V} (hr : (p, r) ∈ b)
    (hsz : D.size x = D.size r) :
    List.find? (@sameSlot V D.valueDomain (p, x)) b = some (p, r) := by
  letI := D.valueDomain
  cases hf : b.find? (sameSlot (p, x)) with
  | none =>
    have := List.find?_eq_none.mp hf (p, r) hr
    simp [sameSlot] at this
    exact absurd hsz this
  | some d =>
    have hd := List.mem_of_find?_eq_some hf
    have hslot := sameSlot_iff.mp (List.find?_some (p := fun t => sameSlot (p, x) t) hf)
    have : d = (p, r) := hb.key_inj hd hr (by simpa using hslot.1.symm)
    rw [this]

omit [DecidableEq V] in
/-- one step of the absorption argument: if `Spec.merge m b` maps the cell `(p, x)` of `m` to
`keepNonTop p y` where `y` represents what `x` represents, then whatever the re-merged region says
about the slot is represented by `x` -/
theorem absorb_step (L : SizedLaws D valid wf G) {m b : Region V}
    (hm2 : RegionWF D valid wf (@mergeInner V D.valueDomain m b))
    {p : Int} {x y : V} {s : Nat} (hs : valid s) (hwy : wf s y) (heqv : D.toDom.eqv y x)
    (hout : ∀ z, @keepNonTop V D.valueDomain p y = some z → z ∈ @mergeInner V D.valueDomain m b)
    (c : C) (h : D.toDom.γ (memGet D (@mergeInner V D.valueDomain m b) p s) c) : D.toDom.γ x c := by
  letI := D.valueDomain
  cases ht : D.isTop y with
  | true =>
    -- `y`, hence `x`, represents everything of size `s`
    have hG := memGet_le_top L hm2 p s c h
    exact (heqv c).mp (((L.laws s hs).isTop_γ hwy ht c).mpr hG)
  | false =>
    have hk : keepNonTop p y = some (p, y) := keepNonTop_eq_some.mpr ⟨ht, rfl⟩
    have hmem := hout _ hk
    have hsy : D.size y = s := L.size_wf hwy
    have := memGet_of_mem (D := D) hm2.inv.sorted hmem
    rw [hsy] at this
    rw [this] at h
    exact (heqv c).mp h

omit [DecidableEq V] in
theorem sameSlot_congr {p : Int} {x l : V} (h : D.size x = D.size l) :
    @sameSlot V D.valueDomain (p, x) = @sameSlot V D.valueDomain (p, l) := by
  funext d
  have h' : @ValueDomain.size V D.valueDomain x = @ValueDomain.size V D.valueDomain l := h
  simp [sameSlot, h']

omit [DecidableEq V] in
theorem cellsOverlap_congr {p : Int} {x l : V} (h : D.size x = D.size l) :
    @cellsOverlap V D.valueDomain (p, x) = @cellsOverlap V D.valueDomain (p, l) := by
  letI := D.valueDomain
  funext d
  have h' : @ValueDomain.size V D.valueDomain x = @ValueDomain.size V D.valueDomain l := h
  rw [Bool.eq_iff_iff, cellsOverlap_iff, cellsOverlap_iff]
  simp only [isize, h']

/-- what a cell of a merged region has to do with the right input: either the right input has a
cell in the same slot, which the merged cell contains, or no cell of the right input touches the
slot and the merged cell contains `Top` -/
theorem merged_cell_facts (L : SizedLaws D valid wf G) {a b : Region V}
    (ha : RegionWF D valid wf a) (hb : RegionWF D valid wf b) {p : Int} {x : V}
    (hm : (p, x) ∈ memMerge D a b) :
    (∃ r, (p, r) ∈ b ∧ D.size r = D.size x ∧ D.toDom.le r x) ∨
    (List.find? (@sameSlot V D.valueDomain (p, x)) b = none ∧
      List.any b (@cellsOverlap V D.valueDomain (p, x)) = false ∧
      D.toDom.le (D.newTop (D.size x)) x) := by
  letI := D.valueDomain
  unfold memMerge mergeRegions at hm
  split at hm
  · rename_i hab; subst hab
    exact .inl ⟨x, hm, rfl, Laws.le_refl _ x⟩
  · obtain ⟨_, h⟩ := mergeInner_cases ha hb hm
    rcases h with ⟨l, r, hl, hr, hsz, rfl⟩ | ⟨l, hl, hf, hany, rfl⟩ | ⟨r, hr, rfl⟩
    · have hwl := ha.vals _ hl; have hvl := ha.sizes _ hl
      have hwr := hb.vals _ hr
      simp only at hwl hvl hwr
      rw [← hsz] at hwr
      refine .inl ⟨r, hr, ?_, (L.laws _ hvl).sound_r hwl hwr⟩
      rw [size_merge L hvl hwl hwr, hsz]
    · have hwl := ha.vals _ hl; have hvl := ha.sizes _ hl
      simp only at hwl hvl
      have hwt := L.newTop_wf _ hvl
      have hs := size_merge L hvl hwl hwt
      refine .inr ⟨?_, ?_, ?_⟩
      · rw [sameSlot_congr hs]; exact hf
      · rw [cellsOverlap_congr hs]; exact hany
      · rw [hs]; exact (L.laws _ hvl).sound_r hwl hwt
    · have hwr := hb.vals _ hr; have hvr := hb.sizes _ hr
      simp only at hwr hvr
      have hwt := L.newTop_wf _ hvr
      refine .inl ⟨r, hr, ?_, (L.laws _ hvr).sound_l hwr hwt⟩
      rw [size_merge L hvr hwr hwt]


/-- **C03-memregion (law 2).** For every slot `(p, s)`: re-merging an input that was already merged
in does not change what `get(p, s)` represents:
`γ (get (merge (merge a b) b) p s) = γ (get (merge a b) p s)`. -/
theorem memMerge_absorb_merged (L : SizedLaws D valid wf G)
    (hLaw : @LawfulValueDomain V D.valueDomain) {a b : Region V}
    (ha : RegionWF D valid wf a) (hb : RegionWF D valid wf b) (p : Int) (s : Nat) (hs : valid s)
    (c : C) :
    D.toDom.γ (memGet D (memMerge D (memMerge D a b) b) p s) c ↔
    D.toDom.γ (memGet D (memMerge D a b) p s) c := by
  letI := D.valueDomain
  have hM := regionWF_memMerge L hLaw ha hb
  have hM2 := regionWF_memMerge L hLaw hM hb
  refine ⟨?_, fun h => memMerge_sound L hM hb p s hs c (Or.inl h)⟩
  · intro h
    generalize hMdef : memMerge D a b = M at *
    -- the second merge
    have hstep : memMerge D M b = M ∨ memMerge D M b = mergeInner M b := by
      unfold memMerge mergeRegions; split
      · exact .inl rfl
      · exact .inr rfl
    rcases hstep with he | he
    · rw [he] at h; exact h
    · rw [he] at h hM2
      -- the slot in `M`
      show D.toDom.γ (CweModel.MemRegion.get M p s) c
      unfold CweModel.MemRegion.get
      have htop : D.toDom.γ (D.newTop s) c := (L.newTop_γ s c).mpr (memGet_le_top L hM2 p s c h)
      cases hg : BMap.get M p with
      | none => exact htop
      | some x =>
        simp only
        split
        · rename_i hsx
          have hsx' : D.size x = s := hsx
          have hx : (p, x) ∈ M := BMap.mem_of_get hg
          have hwx : wf s x := by have := hM.vals _ hx; simp only at this; rwa [hsx'] at this
          have hfacts := merged_cell_facts L ha hb (p := p) (x := x) (by rw [hMdef]; exact hx)
          -- membership in `mergeInner M b` of the image of the cell `(p, x)`
          have hin : ∀ z, (match b.find? (sameSlot (p, x)) with
                | some d => keepNonTop p (ValueDomain.merge x d.2)
                | none => if b.any (cellsOverlap (p, x)) then none
                          else keepNonTop p (ValueDomain.merge x (ValueDomain.newTop (ValueDomain.size x)))) = some z →
              z ∈ mergeInner M b := by
            intro z hz
            apply (mem_mergeInner hM.inv hb.inv hM.bounded hb.bounded).mpr
            unfold Spec.merge
            rw [List.mem_append, List.mem_filterMap]
            exact .inl ⟨(p, x), hx, hz⟩
          rcases hfacts with ⟨r, hr, hsz, hle⟩ | ⟨hf, hany, hle⟩
          · have hwr : wf s r := by have := hb.vals _ hr; simp only at this; rwa [hsz, hsx'] at this
            have hfind := find_sameSlot (D := D) hb.inv.sorted hr hsz.symm
            rw [hfind] at hin
            exact absorb_step L hM2 hs ((L.laws s hs).merge_wf hwx hwr)
              ((L.laws s hs).absorb hwx hwr hle) hin c h
          · rw [hf] at hin
            simp only [hany, Bool.false_eq_true, if_false] at hin
            have hwt := L.newTop_wf s hs
            have hin' : ∀ z, keepNonTop p (D.merge x (D.newTop s)) = some z → z ∈ mergeInner M b := by
              intro z hz; apply hin z
              have : @ValueDomain.size V D.valueDomain x = s := hsx'
              rw [this]; exact hz
            rw [hsx'] at hle
            exact absorb_step L hM2 hs ((L.laws s hs).merge_wf hwx hwt)
              ((L.laws s hs).absorb hwx hwt hle) hin' c h
        · exact htop

end
end CweModel.C03
