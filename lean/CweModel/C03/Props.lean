/-
C03 — property theorems. Statement of the property:

  For every pair of abstract values of the same kind (known-bitvector values, intervals with
  widening, pointer/value sets with offsets, taint values, keyed maps under each merge strategy,
  memory regions), every concrete value represented by either input is represented by their merge.
  Merging a value with something it already absorbed does not enlarge its represented set, and
  merging a value with itself represents the same set.

How the statement is organised (all for ALL values, no bound on sizes, widths, numbers of keys):

* `Dom.lean`  — the three laws as a structure `Laws D wf G` over an arbitrary kind `D`, `wf` = "of
  the same kind" (same byte size, well-formed), with the derived literal forms
  `Laws.absorb_merged : γ (merge (merge a b) b) = γ (merge a b)` and `Laws.idem : γ (merge a a) = γ a`.
  "Already absorbed" is proved in the stronger inclusion form `γ b ⊆ γ a → γ (merge a b) = γ a`.
* per kind: `bvDom_laws`, `taintDom_laws`, `dataDom_laws` (generic in the offset kind),
  the map theorems `mapMerge_sound/_absorb/_absorb_merged/_self` (generic in the
  value kind and the strategy), plus `merge_with = merge` facts.
* this file: the instances obtained by composing them, and non-vacuity examples.
-/
import CweModel.C03.Model

namespace CweModel.C03

/-! ### composed instances -/

/-- **C03-data-bitvector.** `DataDomain<BitvectorDomain>` of byte size `s` satisfies the laws. -/
theorem dataBv_laws (s : Nat) :
    Laws (dataDom bvDom) (DataDom.WF (BvDom.wf s) s) (fun _ => True) :=
  dataDom_laws (bvDom_laws s) s

/-- size expected at a key (any assignment of sizes to keys) -/
abbrev KeySizes := Int → Nat

/-- **C03-map-bitvector (law 1).** maps into `BitvectorDomain`, every strategy -/
theorem mapBv_sound (S : Strategy) (sz : KeySizes) {a b : AList BvDom}
    (ha : MapWF (fun k => BvDom.wf (sz k)) a) (hb : MapWF (fun k => BvDom.wf (sz k)) b)
    (k : Int) (c : Bv)
    (h : readKey S bvDom (bvTop (sz k)) (a.get k) c ∨ readKey S bvDom (bvTop (sz k)) (b.get k) c) :
    readKey S bvDom (bvTop (sz k)) ((mapMerge S bvDom a b).get k) c :=
  mapMerge_sound (fun k => bvDom_laws (sz k)) S (fun _ k v hv c hc => bvTop_max (sz k) v hv c hc)
    ha hb k c h

/-- **C03-map-bitvector (law 2).** -/
theorem mapBv_absorb_merged (S : Strategy) (sz : KeySizes) {a b : AList BvDom}
    (ha : MapWF (fun k => BvDom.wf (sz k)) a) (hb : MapWF (fun k => BvDom.wf (sz k)) b)
    (k : Int) (c : Bv) :
    readKey S bvDom (bvTop (sz k)) ((mapMerge S bvDom (mapMerge S bvDom a b) b).get k) c
      ↔ readKey S bvDom (bvTop (sz k)) ((mapMerge S bvDom a b).get k) c :=
  mapMerge_absorb_merged (fun k => bvDom_laws (sz k)) S
    (fun _ k v hv c hc => bvTop_max (sz k) v hv c hc) ha hb k c

/-- **C03-map-data (law 1).** maps into `DataDomain<BitvectorDomain>`, every strategy
(the test case of `domain_map.rs`) -/
theorem mapDataBv_sound (S : Strategy) (sz : KeySizes) {a b : AList (DataDom BvDom)}
    (ha : MapWF (fun k => DataDom.WF (BvDom.wf (sz k)) (sz k)) a)
    (hb : MapWF (fun k => DataDom.WF (BvDom.wf (sz k)) (sz k)) b) (k : Int) (c : Sym Bv)
    (h : readKey S (dataDom bvDom) (fun _ => True) (a.get k) c ∨
         readKey S (dataDom bvDom) (fun _ => True) (b.get k) c) :
    readKey S (dataDom bvDom) (fun _ => True) ((mapMerge S (dataDom bvDom) a b).get k) c :=
  mapMerge_sound (fun k => dataBv_laws (sz k)) S (fun _ _ _ _ _ _ => trivial) ha hb k c h

/-- **C03-map-data (law 2).** -/
theorem mapDataBv_absorb_merged (S : Strategy) (sz : KeySizes) {a b : AList (DataDom BvDom)}
    (ha : MapWF (fun k => DataDom.WF (BvDom.wf (sz k)) (sz k)) a)
    (hb : MapWF (fun k => DataDom.WF (BvDom.wf (sz k)) (sz k)) b) (k : Int) (c : Sym Bv) :
    readKey S (dataDom bvDom) (fun _ => True)
        ((mapMerge S (dataDom bvDom) (mapMerge S (dataDom bvDom) a b) b).get k) c
      ↔ readKey S (dataDom bvDom) (fun _ => True) ((mapMerge S (dataDom bvDom) a b).get k) c :=
  mapMerge_absorb_merged (fun k => dataBv_laws (sz k)) S (fun _ _ _ _ _ _ => trivial) ha hb k c

/-- **C03-map-taint (law 1).** maps into `Taint` under Union and MergeTop (`Top` = untainted is
not maximal, so the Intersect strategy's own precondition fails for this kind) -/
theorem mapTaint_sound (S : Strategy) (hS : S ≠ .intersect) (sz : KeySizes) {a b : AList Taint}
    (ha : MapWF (fun k => Taint.wf (sz k)) a) (hb : MapWF (fun k => Taint.wf (sz k)) b)
    (k : Int) (c : Nat × Bool)
    (h : readKey S taintDom (taintTop (sz k)) (a.get k) c ∨
         readKey S taintDom (taintTop (sz k)) (b.get k) c) :
    readKey S taintDom (taintTop (sz k)) ((mapMerge S taintDom a b).get k) c :=
  mapMerge_sound (fun k => taintDom_laws (sz k)) S (fun h => absurd h hS) ha hb k c h

/-! ### non-vacuity: the test case of `domain_map.rs::test_merge_strategies` -/

def exLeft : AList (DataDom BvDom) :=
  [(0, ⟨8, [], some (.val 8 0), false⟩), (1, ⟨8, [], some (.val 8 0), false⟩), (5, ⟨8, [], none, true⟩)]
def exRight : AList (DataDom BvDom) :=
  [(1, ⟨8, [], some (.val 8 1), false⟩), (2, ⟨8, [], some (.val 8 1), false⟩), (5, ⟨8, [], none, true⟩)]

theorem wf_absOnly (s : Nat) (x : Option BvDom) (t : Bool) (hx : ∀ v, x = some v → v.bytesize = s) :
    DataDom.WF (BvDom.wf s) s ⟨s, [], x, t⟩ :=
  ⟨rfl, fun _ _ h => by simp [AList.get] at h, fun v hv => hx v hv⟩

example : MapWF (fun _ => DataDom.WF (BvDom.wf 8) 8) exLeft := by
  intro k v h
  simp only [exLeft, AList.get] at h
  repeat' split at h
  all_goals first
    | (cases h; apply wf_absOnly; intro v hv; first | (cases hv; rfl) | cases hv)
    | cases h

example : mapMerge .union (dataDom bvDom) exLeft exRight =
    [(0, ⟨8, [], some (.val 8 0), false⟩), (1, ⟨8, [], some (.top 8), false⟩),
     (2, ⟨8, [], some (.val 8 1), false⟩), (5, ⟨8, [], none, true⟩)] := by decide
example : mapMerge .intersect (dataDom bvDom) exLeft exRight =
    [(1, ⟨8, [], some (.top 8), false⟩)] := by decide
example : mapMerge .mergeTop (dataDom bvDom) exLeft exRight =
    [(0, ⟨8, [], some (.val 8 0), true⟩), (1, ⟨8, [], some (.top 8), false⟩),
     (2, ⟨8, [], some (.val 8 1), true⟩)] := by decide

end CweModel.C03
