/-
C03 — property theorems. Statement of the property:

  For every pair of abstract values of the same kind (known-bitvector values, intervals with
  widening, pointer/value sets with offsets, taint values, keyed maps under each merge strategy,
  memory regions), every concrete value represented by either input is represented by their merge.
  Merging a value with something it already absorbed does not enlarge its represented set, and
  merging a value with itself represents the same set.

How the statement is organised (all for ALL values, no bound on sizes, widths, numbers of keys):

* `Dom.lean`  — the three laws as a structure `Laws D wf G` over an arbitrary kind `D`, `wf` = "of
  the same kind" (same byte size, well-formed), with the derived literal forms
  `Laws.absorb_merged : γ (merge (merge a b) b) = γ (merge a b)` and `Laws.idem : γ (merge a a) = γ a`.
  "Already absorbed" is proved in the stronger inclusion form `γ b ⊆ γ a → γ (merge a b) = γ a`.
* per kind: `bvDom_laws`, `taintDom_laws`, `dataDom_laws` (generic in the offset kind),
  the map theorems `mapMerge_sound/_absorb/_absorb_merged/_self` (generic in the
  value kind and the strategy), plus `merge_with = merge` facts.
* this file: the instances obtained by composing them, and non-vacuity examples.
-/
import CweModel.C03.Model

namespace CweModel.C03

/-! ### composed instances -/

/-- **C03-data-bitvector.** `DataDomain<BitvectorDomain>` of byte size `s` satisfies the laws. -/
theorem dataBv_laws (s : Nat) :
    Laws (dataDom bvDom) (DataDom.WF (BvDom.wf s) s) (fun _ => True) :=
  dataDom_laws (bvDom_laws s) s

/-- size expected at a key (any assignment of sizes to keys) -/
abbrev KeySizes := Int → Nat

/-- **C03-map-bitvector (law 1).** maps into `BitvectorDomain`, every strategy -/
theorem mapBv_sound (S : Strategy) (sz : KeySizes) {a b : AList BvDom}
    (ha : MapWF (fun k => BvDom.wf (sz k)) a) (hb : MapWF (fun k => BvDom.wf (sz k)) b)
    (k : Int) (c : Bv)
    (h : readKey S bvDom (bvTop (sz k)) (a.get k) c ∨ readKey S bvDom (bvTop (sz k)) (b.get k) c) :
    readKey S bvDom (bvTop (sz k)) ((mapMerge S bvDom a b).get k) c :=
  mapMerge_sound (fun k => bvDom_laws (sz k)) S (fun _ k v hv c hc => bvTop_max (sz k) v hv c hc)
    ha hb k c h

/-- **C03-map-bitvector (law 2).** -/
theorem mapBv_absorb_merged (S : Strategy) (sz : KeySizes) {a b : AList BvDom}
    (ha : MapWF (fun k => BvDom.wf (sz k)) a) (hb : MapWF (fun k => BvDom.wf (sz k)) b)
    (k : Int) (c : Bv) :
    readKey S bvDom (bvTop (sz k)) ((mapMerge S bvDom (mapMerge S bvDom a b) b).get k) c
      ↔ readKey S bvDom (bvTop (sz k)) ((mapMerge S bvDom a b).get k) c :=
  mapMerge_absorb_merged (fun k => bvDom_laws (sz k)) S
    (fun _ k v hv c hc => bvTop_max (sz k) v hv c hc) ha hb k c

/-- **C03-map-data (law 1).** maps into `DataDomain<BitvectorDomain>`, every strategy
(the test case of `domain_map.rs`) -/
theorem mapDataBv_sound (S : Strategy) (sz : KeySizes) {a b : AList (DataDom BvDom)}
    (ha : MapWF (fun k => DataDom.WF (BvDom.wf (sz k)) (sz k)) a)
    (hb : MapWF (fun k => DataDom.WF (BvDom.wf (sz k)) (sz k)) b) (k : Int) (c : Sym Bv)
    (h : readKey S (dataDom bvDom) (fun _ => True) (a.get k) c ∨
         readKey S (dataDom bvDom) (fun _ => True) (b.get k) c) :
    readKey S (dataDom bvDom) (fun _ => True) ((mapMerge S (dataDom bvDom) a b).get k) c :=
  mapMerge_sound (fun k => dataBv_laws (sz k)) S (fun _ _ _ _ _ _ => trivial) ha hb k c h

/-- **C03-map-data (law 2).** -/
theorem mapDataBv_absorb_merged (S : Strategy) (sz : KeySizes) {a b : AList (DataDom BvDom)}
    (ha : MapWF (fun k => DataDom.WF (BvDom.wf (sz k)) (sz k)) a)
    (hb : MapWF (fun k => DataDom.WF (BvDom.wf (sz k)) (sz k)) b) (k : Int) (c : Sym Bv) :
    readKey S (dataDom bvDom) (fun _ => True)
        ((mapMerge S (dataDom bvDom) (mapMerge S (dataDom bvDom) a b) b).get k) c
      ↔ readKey S (dataDom bvDom) (fun _ => True) ((mapMerge S (dataDom bvDom) a b).get k) c :=
  mapMerge_absorb_merged (fun k => dataBv_laws (sz k)) S (fun _ _ _ _ _ _ => trivial) ha hb k c

/-- **C03-map-taint (law 1).** maps into `Taint` under Union and MergeTop (`Top` = untainted is
not maximal, so the Intersect strategy's own precondition fails for this kind) -/
theorem mapTaint_sound (S : Strategy) (hS : S ≠ .intersect) (sz : KeySizes) {a b : AList Taint}
    (ha : MapWF (fun k => Taint.wf (sz k)) a) (hb : MapWF (fun k => Taint.wf (sz k)) b)
    (k : Int) (c : Nat × Bool)
    (h : readKey S taintDom (taintTop (sz k)) (a.get k) c ∨
         readKey S taintDom (taintTop (sz k)) (b.get k) c) :
    readKey S taintDom (taintTop (sz k)) ((mapMerge S taintDom a b).get k) c :=
  mapMerge_sound (fun k => taintDom_laws (sz k)) S (fun h => absurd h hS) ha hb k c h

/-! ### interval instances (1 to 8 bytes, see `ivDom_laws_partial`) -/

open CweModel.Itv in
/-- **C03-data-interval.** `DataDomain<IntervalDomain>` (the value type of the pointer inference) -/
theorem dataIv_laws_partial (s : Nat) (hs1 : 1 ≤ s) (hs8 : s ≤ 8) :
    Laws (dataDom ivDom) (DataDom.WF (ivWF (8 * s)) s) (fun _ => True) :=
  dataDom_laws (ivDom_laws_partial s hs1 hs8) s

open CweModel.Itv in
/-- **C03-map-interval (law 1).** maps into `IntervalDomain`, every strategy; `sz k` is the byte
size of the values at key `k` -/
theorem mapIv_sound_partial (S : Strategy) (sz : KeySizes) (hsz : ∀ k, 1 ≤ sz k ∧ sz k ≤ 8)
    {a b : AList IntervalDomain} (ha : MapWF (fun k => ivWF (8 * sz k)) a)
    (hb : MapWF (fun k => ivWF (8 * sz k)) b) (k : Int) (x : Int)
    (h : readKey S ivDom (InRange (8 * sz k)) (a.get k) x ∨
         readKey S ivDom (InRange (8 * sz k)) (b.get k) x) :
    readKey S ivDom (InRange (8 * sz k)) ((mapMerge S ivDom a b).get k) x :=
  mapMerge_sound (fun k => ivDom_laws_partial (sz k) (hsz k).1 (hsz k).2) S
    (fun _ k v hv c hc => ivTop_max (8 * sz k) v hv c hc) ha hb k x h

open CweModel.Itv in
/-- **C03-map-interval (law 2).** -/
theorem mapIv_absorb_merged_partial (S : Strategy) (sz : KeySizes) (hsz : ∀ k, 1 ≤ sz k ∧ sz k ≤ 8)
    {a b : AList IntervalDomain} (ha : MapWF (fun k => ivWF (8 * sz k)) a)
    (hb : MapWF (fun k => ivWF (8 * sz k)) b) (k : Int) (x : Int) :
    readKey S ivDom (InRange (8 * sz k)) ((mapMerge S ivDom (mapMerge S ivDom a b) b).get k) x
      ↔ readKey S ivDom (InRange (8 * sz k)) ((mapMerge S ivDom a b).get k) x :=
  mapMerge_absorb_merged (fun k => ivDom_laws_partial (sz k) (hsz k).1 (hsz k).2) S
    (fun _ k v hv c hc => ivTop_max (8 * sz k) v hv c hc) ha hb k x

/-! ### memory regions over the concrete kinds -/

open CweModel.MemRegion

/-- `BitvectorDomain` with its size operations -/
def bvSized : SizedDom BvDom Bv := { bvDom with size := BvDom.bytesize, newTop := BvDom.top }

theorem bvSized_laws : SizedLaws bvSized (fun _ => True) BvDom.wf bvTop where
  laws := fun s _ => bvDom_laws s
  size_wf := fun h => h
  newTop_wf := fun _ _ => rfl
  newTop_γ := fun s c => by simp [Dom.γ, bvSized, bvDom, BvDom.mem, bvTop]
  top_max := fun {s v} hv c hc => bvTop_max s v hv c hc

theorem bvSized_lawful : @LawfulValueDomain BvDom bvSized.valueDomain :=
  @LawfulValueDomain.mk BvDom bvSized.valueDomain (fun _ => rfl) (fun _ => rfl) (fun _ => rfl)
    (fun a b _ => by
      show (BvDom.merge a b).bytesize = a.bytesize
      unfold BvDom.merge; split <;> rfl)

/-- **C03-memregion-bitvector (laws 1 and 2).** -/
theorem memBv_sound {a b : Region BvDom}
    (ha : RegionWF bvSized (fun _ => True) BvDom.wf a) (hb : RegionWF bvSized (fun _ => True) BvDom.wf b)
    (p : Int) (s : Nat) (c : Bv)
    (h : bvDom.γ (memGet bvSized a p s) c ∨ bvDom.γ (memGet bvSized b p s) c) :
    bvDom.γ (memGet bvSized (memMerge bvSized a b) p s) c :=
  memMerge_sound bvSized_laws ha hb p s trivial c h

theorem memBv_absorb_merged {a b : Region BvDom}
    (ha : RegionWF bvSized (fun _ => True) BvDom.wf a) (hb : RegionWF bvSized (fun _ => True) BvDom.wf b)
    (p : Int) (s : Nat) (c : Bv) :
    bvDom.γ (memGet bvSized (memMerge bvSized (memMerge bvSized a b) b) p s) c ↔
    bvDom.γ (memGet bvSized (memMerge bvSized a b) p s) c :=
  memMerge_absorb_merged bvSized_laws bvSized_lawful ha hb p s trivial c

open CweModel.Itv in
/-- `IntervalDomain` with its size operations (sizes in bytes) -/
def ivSized : SizedDom IntervalDomain Int :=
  { ivDom with size := ivBytes, newTop := fun s => IntervalDomain.newTop (8 * s) }

open CweModel.Itv in
theorem ivSized_laws_partial :
    SizedLaws ivSized (fun s => 1 ≤ s ∧ s ≤ 8) (fun s => ivWF (8 * s)) (fun s => InRange (8 * s)) where
  laws := fun s hs => ivDom_laws_partial s hs.1 hs.2
  size_wf := fun {s v} h => by
    show ivBytes v = s
    unfold ivBytes; rw [h.2]; omega
  newTop_wf := fun s hs =>
    ⟨⟨Interval.wf_newTop _ (by omega), fun u h => (by cases h), fun l h => (by cases h),
      (by show (0:Nat) < 2 ^ 64; decide)⟩, rfl⟩
  newTop_γ := fun s c => by
    show ivDom.γ (IntervalDomain.newTop (8 * s)) c ↔ _
    rw [ivDom_γ]; exact Interval.mem_newTop (8 * s) c
  top_max := fun {s v} hv c hc => ivTop_max (8 * s) v hv c hc

open CweModel.Itv in
theorem ivSized_lawful : @LawfulValueDomain IntervalDomain ivSized.valueDomain :=
  @LawfulValueDomain.mk IntervalDomain ivSized.valueDomain
    (fun n => by show ivBytes (IntervalDomain.newTop (8 * n)) = n; unfold ivBytes; show (8 * n + 7) / 8 = n; omega)
    (fun n => isTop_newTop (8 * n))
    (fun _ => rfl)
    (fun a b _ => by
      show ivBytes (signedMergeAndWiden a b) = ivBytes a
      unfold ivBytes; rw [signedMergeAndWiden_w])

open CweModel.Itv in
/-- **C03-memregion-interval (laws 1 and 2, cells of 1..8 bytes).** -/
theorem memIv_sound_partial {a b : Region IntervalDomain}
    (ha : RegionWF ivSized (fun s => 1 ≤ s ∧ s ≤ 8) (fun s => ivWF (8 * s)) a)
    (hb : RegionWF ivSized (fun s => 1 ≤ s ∧ s ≤ 8) (fun s => ivWF (8 * s)) b)
    (p : Int) (s : Nat) (hs : 1 ≤ s ∧ s ≤ 8) (x : Int)
    (h : ivDom.γ (memGet ivSized a p s) x ∨ ivDom.γ (memGet ivSized b p s) x) :
    ivDom.γ (memGet ivSized (memMerge ivSized a b) p s) x :=
  memMerge_sound ivSized_laws_partial ha hb p s hs x h

open CweModel.Itv in
theorem memIv_absorb_merged_partial {a b : Region IntervalDomain}
    (ha : RegionWF ivSized (fun s => 1 ≤ s ∧ s ≤ 8) (fun s => ivWF (8 * s)) a)
    (hb : RegionWF ivSized (fun s => 1 ≤ s ∧ s ≤ 8) (fun s => ivWF (8 * s)) b)
    (p : Int) (s : Nat) (hs : 1 ≤ s ∧ s ≤ 8) (x : Int) :
    ivDom.γ (memGet ivSized (memMerge ivSized (memMerge ivSized a b) b) p s) x ↔
    ivDom.γ (memGet ivSized (memMerge ivSized a b) p s) x :=
  memMerge_absorb_merged ivSized_laws_partial ivSized_lawful ha hb p s hs x

/-- `DataDomain<T>` with its size operations -/
def dataSized {T C : Type} [DecidableEq T] (D : Dom T C) : SizedDom (DataDom T) (Sym C) :=
  { dataDom D with size := fun d => d.size, newTop := fun s => ⟨s, [], none, true⟩ }

/-- regions of `DataDomain<T>` values: the laws for every size at which `T` satisfies them -/
theorem dataSized_laws {T C : Type} [DecidableEq T] {D : Dom T C} {valid : Nat → Prop}
    {wfT : Nat → T → Prop} {GT : Nat → C → Prop} (LT : ∀ s, valid s → Laws D (wfT s) (GT s)) :
    SizedLaws (dataSized D) valid (fun s => DataDom.WF (wfT s) s) (fun _ _ => True) where
  laws := fun s hs => dataDom_laws (LT s hs) s
  size_wf := fun h => h.1
  newTop_wf := fun s _ => ⟨rfl, fun _ _ h => (by cases h), fun _ h => (by cases h)⟩
  newTop_γ := fun s c => by cases c <;> simp [Dom.γ, dataSized, dataDom, DataDom.mem]
  top_max := fun _ _ _ => trivial

theorem dataSized_lawful {T C : Type} [DecidableEq T] (D : Dom T C) :
    @LawfulValueDomain (DataDom T) (dataSized D).valueDomain :=
  @LawfulValueDomain.mk (DataDom T) (dataSized D).valueDomain (fun _ => rfl) (fun _ => rfl)
    (fun _ => rfl) (fun _ _ _ => rfl)

/-- **C03-memregion-data (laws 1 and 2).** regions of `DataDomain<T>` values, for every offset kind
`T` satisfying the laws at the sizes `valid` -/
theorem memData_sound {T C : Type} [DecidableEq T] {D : Dom T C} {valid : Nat → Prop}
    {wfT : Nat → T → Prop} {GT : Nat → C → Prop} (LT : ∀ s, valid s → Laws D (wfT s) (GT s))
    {a b : Region (DataDom T)}
    (ha : RegionWF (dataSized D) valid (fun s => DataDom.WF (wfT s) s) a)
    (hb : RegionWF (dataSized D) valid (fun s => DataDom.WF (wfT s) s) b)
    (p : Int) (s : Nat) (hs : valid s) (c : Sym C)
    (h : (dataDom D).γ (memGet (dataSized D) a p s) c ∨ (dataDom D).γ (memGet (dataSized D) b p s) c) :
    (dataDom D).γ (memGet (dataSized D) (memMerge (dataSized D) a b) p s) c :=
  memMerge_sound (dataSized_laws LT) ha hb p s hs c h

theorem memData_absorb_merged {T C : Type} [DecidableEq T] {D : Dom T C} {valid : Nat → Prop}
    {wfT : Nat → T → Prop} {GT : Nat → C → Prop} (LT : ∀ s, valid s → Laws D (wfT s) (GT s))
    {a b : Region (DataDom T)}
    (ha : RegionWF (dataSized D) valid (fun s => DataDom.WF (wfT s) s) a)
    (hb : RegionWF (dataSized D) valid (fun s => DataDom.WF (wfT s) s) b)
    (p : Int) (s : Nat) (hs : valid s) (c : Sym C) :
    (dataDom D).γ (memGet (dataSized D) (memMerge (dataSized D) (memMerge (dataSized D) a b) b) p s) c ↔
    (dataDom D).γ (memGet (dataSized D) (memMerge (dataSized D) a b) p s) c :=
  memMerge_absorb_merged (dataSized_laws LT) (dataSized_lawful D) ha hb p s hs c

/-! ### non-vacuity: the test case of `domain_map.rs::test_merge_strategies` -/

def exLeft : AList (DataDom BvDom) :=
  [(0, ⟨8, [], some (.val 8 0), false⟩), (1, ⟨8, [], some (.val 8 0), false⟩), (5, ⟨8, [], none, true⟩)]
def exRight : AList (DataDom BvDom) :=
  [(1, ⟨8, [], some (.val 8 1), false⟩), (2, ⟨8, [], some (.val 8 1), false⟩), (5, ⟨8, [], none, true⟩)]

theorem wf_absOnly (s : Nat) (x : Option BvDom) (t : Bool) (hx : ∀ v, x = some v → v.bytesize = s) :
    DataDom.WF (BvDom.wf s) s ⟨s, [], x, t⟩ :=
  ⟨rfl, fun _ _ h => by simp [AList.get] at h, fun v hv => hx v hv⟩

example : MapWF (fun _ => DataDom.WF (BvDom.wf 8) 8) exLeft := by
  intro k v h
  simp only [exLeft, AList.get] at h
  repeat' split at h
  all_goals first
    | (cases h; apply wf_absOnly; intro v hv; first | (cases hv; rfl) | cases hv)
    | cases h

example : mapMerge .union (dataDom bvDom) exLeft exRight =
    [(0, ⟨8, [], some (.val 8 0), false⟩), (1, ⟨8, [], some (.top 8), false⟩),
     (2, ⟨8, [], some (.val 8 1), false⟩), (5, ⟨8, [], none, true⟩)] := by decide
example : mapMerge .intersect (dataDom bvDom) exLeft exRight =
    [(1, ⟨8, [], some (.top 8), false⟩)] := by decide
example : mapMerge .mergeTop (dataDom bvDom) exLeft exRight =
    [(0, ⟨8, [], some (.val 8 0), true⟩), (1, ⟨8, [], some (.top 8), false⟩),
     (2, ⟨8, [], some (.val 8 1), true⟩)] := by decide

/-! ### non-vacuity for regions -/

def exRegA : Region BvDom := [(0, .val 4 1), (8, .val 8 7)]
def exRegB : Region BvDom := [(0, .val 4 1), (12, .val 4 9)]

theorem exReg_wf (r : Region BvDom) (h : r = exRegA ∨ r = exRegB) :
    RegionWF bvSized (fun _ => True) BvDom.wf r := by
  letI := bvSized.valueDomain
  rcases h with rfl | rfl
  · refine ⟨⟨?_, ?_, ?_, ?_⟩, ?_, ?_, ?_⟩
    · simp [BMap.Sorted, exRegA]
    · simp [NoOverlap, exRegA, isize, ValueDomain.size, bvSized, BvDom.bytesize]
    · intro c hc; simp [exRegA] at hc; rcases hc with rfl | rfl <;> simp [ValueDomain.size, bvSized, BvDom.bytesize]
    · intro c hc; simp [exRegA] at hc; rcases hc with rfl | rfl <;> rfl
    · intro c hc; simp [exRegA] at hc
      rcases hc with rfl | rfl <;> simp [isize, ValueDomain.size, bvSized, BvDom.bytesize, i64Min, i64Max]
    · intro c hc; simp [exRegA] at hc; rcases hc with rfl | rfl <;> rfl
    · intro _ _; trivial
  · refine ⟨⟨?_, ?_, ?_, ?_⟩, ?_, ?_, ?_⟩
    · simp [BMap.Sorted, exRegB]
    · simp [NoOverlap, exRegB, isize, ValueDomain.size, bvSized, BvDom.bytesize]
    · intro c hc; simp [exRegB] at hc; rcases hc with rfl | rfl <;> simp [ValueDomain.size, bvSized, BvDom.bytesize]
    · intro c hc; simp [exRegB] at hc; rcases hc with rfl | rfl <;> rfl
    · intro c hc; simp [exRegB] at hc
      rcases hc with rfl | rfl <;> simp [isize, ValueDomain.size, bvSized, BvDom.bytesize, i64Min, i64Max]
    · intro c hc; simp [exRegB] at hc; rcases hc with rfl | rfl <;> rfl
    · intro _ _; trivial

-- the shared slot survives, the overlapping cells (8,8 bytes) and (12,4 bytes) are dropped
example : memMerge bvSized exRegA exRegB = [(0, .val 4 1)] := by decide

end CweModel.C03
