/-
C03 — `IntervalDomain` merge with widening
(`src/cwe_checker_lib/src/abstract_domain/interval.rs`: `signed_merge`, `signed_merge_and_widen`,
`update_widening_lower_bound/upper_bound`; `interval/simple_interval.rs`: `Interval::signed_merge`,
`adjust_start/end_to_value_in_stride`). The structures, `γ` (`Mem`), `WF` and the stride helpers
come from `CweModel.Base.Interval`.

Release-mode arithmetic: the widening threshold `delay + 1`, `delay + stride` wraps in `u64`.
-/
import CweModel.Base.Interval
import CweModel.C03.Dom

namespace CweModel.C03
open CweModel.Itv

/-- `Interval::signed_merge` (both operands have the width of `a`; `checked_sgt` would panic
otherwise) -/
def signedMergeI (a b : Interval) : Interval :=
  if a.start > a.stop ∨ b.start > b.stop then Interval.newTop a.w   -- one of them wraps around
  else
    let start := if a.start ≤ b.start then a.start else b.start      -- signed_min
    let stop := if a.stop ≥ b.stop then a.stop else b.stop           -- signed_max
    let startDiff := if a.start > b.start then wrap a.w (a.start - b.start) else wrap a.w (b.start - a.start)
    let stride := match tryToU64 a.w startDiff with
      | some d => Nat.gcd (Nat.gcd a.stride b.stride) d
      | none => 1
    { w := a.w, start := start, stop := stop, stride := stride }

/-- `IntervalDomain::signed_merge` -/
def signedMerge (a b : IntervalDomain) : IntervalDomain :=
  let m := IntervalDomain.ofInterval (signedMergeI a.interval b.interval)
  let m := m.updateLower a.lower
  let m := m.updateLower b.lower
  let m := m.updateUpper a.upper
  let m := m.updateUpper b.upper
  { m with delay := max a.delay b.delay }

/-- length of an interval as `(end - start).try_to_u64()` -/
def lengthU64 (I : Interval) : Option Nat := tryToU64 I.w (wrap I.w (I.stop - I.start))

/-- the "do not widen below the threshold" test of `signed_merge_and_widen` -/
def belowThreshold (m : IntervalDomain) : Bool :=
  match lengthU64 m.interval with
  | some length => decide (length ≤ max (u64 (m.delay + 1)) (u64 (m.delay + m.interval.stride)))
  | none => false

/-- "widen to the lower bound" step -/
def widenLower (a b m : IntervalDomain) : IntervalDomain × Bool :=
  match m.lower with
  | some l =>
    if a.interval.start ≠ b.interval.start then
      ({ m with interval := ({ m.interval with start := l }).adjustStart, lower := none }, true)
    else (m, false)
  | none => (m, false)

/-- "widen to the upper bound" step -/
def widenUpper (a b : IntervalDomain) (mw : IntervalDomain × Bool) : IntervalDomain × Bool :=
  match mw.1.upper with
  | some u =>
    if a.interval.stop ≠ b.interval.stop then
      ({ mw.1 with interval := ({ mw.1.interval with stop := u }).adjustEnd, upper := none }, true)
    else mw
  | none => mw

/-- `IntervalDomain::signed_merge_and_widen` = `AbstractDomain::merge` -/
def signedMergeAndWiden (a b : IntervalDomain) : IntervalDomain :=
  let m := signedMerge a b
  if m.interval = a.interval ∨ m.interval = b.interval ∨ m.isTop = true then m
  else if belowThreshold m then m
  else
    let r := widenUpper a b (widenLower a b m)
    if r.2 then { r.1 with delay := (lengthU64 r.1.interval).getD 0 }
    else IntervalDomain.newTop m.interval.w

/-- `SizedDomain::bytesize`: `ByteSize::from(BitWidth)` rounds up to full bytes -/
def ivBytes (a : IntervalDomain) : Nat := (a.interval.w + 7) / 8

/-- `IntervalDomain` as a value kind; concrete values are signed integers.
`HasTop::top(&self)` is `new_top(self.bytesize())`. -/
def ivDom : Dom IntervalDomain Int where
  mem := fun a x => decide (a.Mem x)
  merge := signedMergeAndWiden
  mergeWith := defaultMergeWith signedMergeAndWiden
  isTop := IntervalDomain.isTop
  top := fun a => IntervalDomain.newTop (8 * ivBytes a)

/-! ### machine-arithmetic helpers (widths up to 64 bits) -/

theorem pow_le_64 {w : Nat} (hw : w ≤ 64) : pow2 w ≤ pow2 64 := by
  have := Nat.pow_le_pow_right (n := 2) (by decide) hw
  exact Int.ofNat_le.mpr this

/-- range width: `smax - smin = 2^w - 1` -/
theorem range_width (w : Nat) (hw : 0 < w) : smax w - smin w = pow2 w - 1 := by
  have := pow2_eq w hw
  unfold smax smin; omega

theorem diff_bounds {w : Nat} (hw : 0 < w) {s e : Int} (hs : InRange w s) (he : InRange w e)
    (hse : s ≤ e) : 0 ≤ e - s ∧ e - s < pow2 w := by
  have := range_width w hw
  unfold InRange at hs he; omega

/-- unsigned reading of the wrapped difference of two in-range values -/
theorem toU_wrap_of_nonneg {w : Nat} {d : Int} (h0 : 0 ≤ d) (h1 : d < pow2 w) :
    toU w (wrap w d) = d.toNat := by
  unfold toU wrap
  unfold pow2 at *
  rw [Int.bmod_emod, Int.emod_eq_of_lt h0 h1]

theorem tryToU64_diff {w : Nat} (hw : 0 < w) (hw64 : w ≤ 64) {s e : Int} (hs : InRange w s)
    (he : InRange w e) (hse : s ≤ e) : tryToU64 w (wrap w (e - s)) = some (e - s).toNat := by
  obtain ⟨h0, h1⟩ := diff_bounds hw hs he hse
  unfold tryToU64
  rw [toU_wrap_of_nonneg h0 h1]
  have h64 := pow_le_64 hw64
  have : (e - s).toNat < 2 ^ 64 := by
    have : ((e - s).toNat : Int) < pow2 64 := by rw [Int.toNat_of_nonneg h0]; omega
    exact Int.ofNat_lt.mp this
  simp [this]

theorem tryToI64_inRange {w : Nat} (hw : 0 < w) (hw64 : w ≤ 64) {x : Int} (hx : InRange w x) :
    tryToI64 w x = some x := by
  unfold tryToI64
  have hlt : toU w x < 2 ^ 64 := by
    unfold toU
    have hp := pow2_pos w
    have h1 : x % pow2 w < pow2 w := Int.emod_lt_of_pos _ hp
    have h0 : 0 ≤ x % pow2 w := Int.emod_nonneg _ (by omega)
    have h64 := pow_le_64 hw64
    have : ((x % pow2 w).toNat : Int) < pow2 64 := by
      rw [Int.toNat_of_nonneg h0]; omega
    exact Int.ofNat_lt.mp this
  simp only [hlt, if_true]
  by_cases h : w < 64
  · simp only [h, if_true, wrap_of_inRange w hw hx]
  · have : w = 64 := by omega
    subst this
    simp only [Nat.lt_irrefl, if_false]
    unfold i64 toU
    have h0 : 0 ≤ x % pow2 64 := Int.emod_nonneg _ (by decide)
    rw [Int.toNat_of_nonneg h0]
    unfold pow2
    rw [Int.emod_bmod]
    exact congrArg some (wrap_of_inRange 64 hw hx)


theorem toU64_i64_of_nonneg {d : Int} (h0 : 0 ≤ d) (h1 : d < pow2 64) :
    toU 64 (i64 d) = d.toNat := by
  unfold toU i64
  unfold pow2 at *
  rw [Int.bmod_emod, Int.emod_eq_of_lt h0 h1]

/-- `adjustDiff` on an ordered pair of in-range bounds: the remainder of the length -/
theorem adjustDiff_spec {I : Interval} (hw : 0 < I.w) (hw64 : I.w ≤ 64) (hs : InRange I.w I.start)
    (he : InRange I.w I.stop) (hse : I.start ≤ I.stop) :
    I.adjustDiff = some ((I.stop - I.start).toNat % I.stride) := by
  obtain ⟨h0, h1⟩ := diff_bounds hw hs he hse
  have h64 := pow_le_64 hw64
  unfold Interval.adjustDiff
  rw [tryToI64_inRange hw hw64 hs, tryToI64_inRange hw hw64 he]
  simp only
  rw [toU64_i64_of_nonneg h0 (by omega)]

/-- the remainder as an integer -/
theorem rem_cast (d : Int) (k : Nat) (h0 : 0 ≤ d) : ((d.toNat % k : Nat) : Int) = d % (k : Int) := by
  rw [Int.natCast_emod, Int.toNat_of_nonneg h0]

theorem emod_le_self_of_nonneg {x k : Int} (hx : 0 ≤ x) (hk : 0 < k) : x % k ≤ x := by
  have h := Int.mul_ediv_add_emod x k
  have h2 : 0 ≤ x / k := Int.ediv_nonneg hx (by omega)
  have h3 : 0 ≤ k * (x / k) := Int.mul_nonneg (by omega) h2
  omega

/-- `adjust_start_to_value_in_stride` on an ordered in-range pair with a non-zero stride: the
start moves up by the remainder of the length -/
theorem adjustStart_spec {I : Interval} (hw : 0 < I.w) (hw64 : I.w ≤ 64) (hs : InRange I.w I.start)
    (he : InRange I.w I.stop) (hse : I.start ≤ I.stop) (hst : 0 < I.stride) :
    I.adjustStart = { I with start := I.start + (I.stop - I.start) % (I.stride : Int),
                             stride := if I.start + (I.stop - I.start) % (I.stride : Int) = I.stop
                                       then 0 else I.stride } := by
  obtain ⟨h0, h1⟩ := diff_bounds hw hs he hse
  have hk : (0 : Int) < (I.stride : Int) := by omega
  have hr0 : 0 ≤ (I.stop - I.start) % (I.stride : Int) := Int.emod_nonneg _ (by omega)
  have hr1 := emod_le_self_of_nonneg h0 hk
  unfold Interval.adjustStart
  have hne : ¬ I.stride = 0 := by omega
  simp only [hne, if_false]
  split
  · rename_i h
    obtain ⟨h1', hne'⟩ := h
    have : (I.stop - I.start) % (I.stride : Int) = 0 := by rw [h1']; simp
    rw [this]
    simp [hne']
  · rw [adjustDiff_spec hw hw64 hs he hse]
    simp only
    have hval : wrap I.w (I.start + fromU64 I.w ((I.stop - I.start).toNat % I.stride))
        = I.start + (I.stop - I.start) % (I.stride : Int) := by
      unfold fromU64 wrap
      rw [Int.add_bmod_bmod, rem_cast _ _ h0]
      apply wrap_of_inRange I.w hw
      unfold InRange at *; omega
    rw [hval]

/-- `adjust_end_to_value_in_stride`, same situation: the end moves down by the remainder -/
theorem adjustEnd_spec {I : Interval} (hw : 0 < I.w) (hw64 : I.w ≤ 64) (hs : InRange I.w I.start)
    (he : InRange I.w I.stop) (hse : I.start ≤ I.stop) (hst : 0 < I.stride) :
    I.adjustEnd = { I with stop := I.stop - (I.stop - I.start) % (I.stride : Int),
                           stride := if I.start = I.stop - (I.stop - I.start) % (I.stride : Int)
                                     then 0 else I.stride } := by
  obtain ⟨h0, h1⟩ := diff_bounds hw hs he hse
  have hk : (0 : Int) < (I.stride : Int) := by omega
  have hr0 : 0 ≤ (I.stop - I.start) % (I.stride : Int) := Int.emod_nonneg _ (by omega)
  have hr1 := emod_le_self_of_nonneg h0 hk
  unfold Interval.adjustEnd
  have hne : ¬ I.stride = 0 := by omega
  simp only [hne, if_false]
  split
  · rename_i h
    obtain ⟨h1', hne'⟩ := h
    have : (I.stop - I.start) % (I.stride : Int) = 0 := by rw [h1']; simp
    rw [this]
    simp [hne']
  · rw [adjustDiff_spec hw hw64 hs he hse]
    simp only
    have hval : wrap I.w (I.stop - fromU64 I.w ((I.stop - I.start).toNat % I.stride))
        = I.stop - (I.stop - I.start) % (I.stride : Int) := by
      unfold fromU64 wrap
      rw [Int.sub_bmod_bmod, rem_cast _ _ h0]
      apply wrap_of_inRange I.w hw
      unfold InRange at *; omega
    rw [hval]


/-! ### `Interval::signed_merge` on well-formed intervals -/

/-- the stride computed by `signed_merge` -/
def mergedStride (a b : Interval) : Nat :=
  Nat.gcd (Nat.gcd a.stride b.stride) (a.start - b.start).natAbs

theorem signedMergeI_spec {a b : Interval} (ha : a.WF) (hb : b.WF) (hw : b.w = a.w)
    (hw64 : a.w ≤ 64) :
    signedMergeI a b =
      { w := a.w, start := if a.start ≤ b.start then a.start else b.start,
        stop := if a.stop ≥ b.stop then a.stop else b.stop, stride := mergedStride a b } := by
  obtain ⟨hwa, hsa, hea, hsea, _⟩ := ha
  obtain ⟨_, hsb, heb, hseb, _⟩ := hb
  rw [hw] at hsb heb
  unfold signedMergeI
  have hnw : ¬ (a.start > a.stop ∨ b.start > b.stop) := by omega
  simp only [hnw, if_false]
  have hd : tryToU64 a.w (if a.start > b.start then wrap a.w (a.start - b.start) else wrap a.w (b.start - a.start))
      = some (a.start - b.start).natAbs := by
    split
    · rw [tryToU64_diff hwa hw64 hsb hsa (by omega)]; congr 1; omega
    · rw [tryToU64_diff hwa hw64 hsa hsb (by omega)]; congr 1; omega
  rw [hd]
  rfl

theorem mergedStride_dvd (a b : Interval) :
    ((mergedStride a b : Nat) : Int) ∣ (a.stride : Int) ∧ ((mergedStride a b : Nat) : Int) ∣ (b.stride : Int) ∧
    ((mergedStride a b : Nat) : Int) ∣ a.start - b.start := by
  unfold mergedStride
  refine ⟨?_, ?_, ?_⟩
  · exact Int.natCast_dvd_natCast.mpr (Nat.dvd_trans (Nat.gcd_dvd_left _ _) (Nat.gcd_dvd_left _ _))
  · exact Int.natCast_dvd_natCast.mpr (Nat.dvd_trans (Nat.gcd_dvd_left _ _) (Nat.gcd_dvd_right _ _))
  · exact Int.ofNat_dvd_left.mpr (Nat.gcd_dvd_right _ _)

/-- law 1 for plain intervals -/
theorem mem_signedMergeI {a b : Interval} (ha : a.WF) (hb : b.WF) (hw : b.w = a.w) (hw64 : a.w ≤ 64)
    {x : Int} (h : a.Mem x ∨ b.Mem x) : (signedMergeI a b).Mem x := by
  rw [signedMergeI_spec ha hb hw hw64]
  obtain ⟨hga, hgb, hgd⟩ := mergedStride_dvd a b
  unfold Interval.Mem at *
  simp only
  rcases h with ⟨h1, h2, h3⟩ | ⟨h1, h2, h3⟩
  · refine ⟨by split <;> omega, by split <;> omega, ?_⟩
    split
    · exact Int.dvd_trans hga h3
    · have : x - b.start = (x - a.start) + (a.start - b.start) := by omega
      rw [this]; exact Int.dvd_add (Int.dvd_trans hga h3) hgd
  · refine ⟨by split <;> omega, by split <;> omega, ?_⟩
    split
    · have : x - a.start = (x - b.start) - (a.start - b.start) := by omega
      rw [this]; exact Int.dvd_sub (Int.dvd_trans hgb h3) hgd
    · exact Int.dvd_trans hgb h3

theorem wf_signedMergeI {a b : Interval} (ha : a.WF) (hb : b.WF) (hw : b.w = a.w) (hw64 : a.w ≤ 64) :
    (signedMergeI a b).WF ∧ (signedMergeI a b).w = a.w := by
  have hma := mem_signedMergeI ha hb hw hw64 (x := a.stop) (Or.inl (Interval.stop_mem a ha))
  have hmb := mem_signedMergeI ha hb hw hw64 (x := b.stop) (Or.inr (Interval.stop_mem b hb))
  have hsa := mem_signedMergeI ha hb hw hw64 (x := a.start) (Or.inl (Interval.start_mem a ha.2.2.2.1))
  have hsb := mem_signedMergeI ha hb hw hw64 (x := b.start) (Or.inr (Interval.start_mem b hb.2.2.2.1))
  rw [signedMergeI_spec ha hb hw hw64] at *
  obtain ⟨hwa, hsa', hea, hsea, hza, hda, hla⟩ := ha
  obtain ⟨_, hsb', heb, hseb, hzb, hdb, hlb⟩ := hb
  rw [hw] at hsb' heb
  unfold Interval.Mem at hma hmb hsa hsb
  simp only at hma hmb hsa hsb
  refine ⟨⟨hwa, ?_, ?_, ?_, ?_, ?_, ?_⟩, rfl⟩
  · simp only; split <;> assumption
  · simp only; split <;> assumption
  · simp only; split <;> split <;> omega
  · -- stride = 0 ↔ start = stop
    simp only [mergedStride]
    constructor
    · intro h
      have h1 := Nat.gcd_eq_zero_iff.mp h
      have h2 := Nat.gcd_eq_zero_iff.mp h1.1
      have := hza.mp h2.1
      have := hzb.mp h2.2
      split <;> split <;> omega
    · intro h
      have e1 : a.start = a.stop := by split at h <;> split at h <;> omega
      have e2 : b.start = b.stop := by split at h <;> split at h <;> omega
      have e3 : a.start = b.start := by split at h <;> split at h <;> omega
      rw [hza.mpr e1, hzb.mpr e2, e3]; simp
  · simp only; split
    · exact hma.2.2
    · exact hmb.2.2
  · -- the stride fits in a u64
    simp only
    by_cases h0 : mergedStride a b = 0
    · rw [h0]; decide
    · -- a non-zero stride divides the (positive) length, which is below 2^64
      have hdiv : ((mergedStride a b : Nat) : Int) ∣
          (if a.stop ≥ b.stop then a.stop else b.stop) - (if a.start ≤ b.start then a.start else b.start) := by
        split
        · exact hma.2.2
        · exact hmb.2.2
      have hlen0 : 0 ≤ (if a.stop ≥ b.stop then a.stop else b.stop) - (if a.start ≤ b.start then a.start else b.start) := by
        split <;> split <;> omega
      have hrng := range_width a.w hwa
      have h64 := pow_le_64 hw64
      have hlen1 : (if a.stop ≥ b.stop then a.stop else b.stop) - (if a.start ≤ b.start then a.start else b.start)
          < pow2 64 := by
        unfold InRange at *; split <;> split <;> omega
      rcases Int.lt_or_eq_of_le hlen0 with hpos | hz
      · have := Int.le_of_dvd hpos hdiv
        have : ((mergedStride a b : Nat) : Int) < pow2 64 := by omega
        exact Int.ofNat_lt.mp this
      · rw [← hz] at hdiv
        -- length 0: both singletons at the same place, so the stride is 0
        exfalso
        have e1 : a.start = a.stop := by split at hz <;> split at hz <;> omega
        have e2 : b.start = b.stop := by split at hz <;> split at hz <;> omega
        have e3 : a.start = b.start := by split at hz <;> split at hz <;> omega
        apply h0
        simp only [mergedStride]
        rw [hza.mpr e1, hzb.mpr e2, e3]; simp


/-- law 2 for plain intervals: an interval that already contains `b` is not changed by merging `b` -/
theorem signedMergeI_absorb {a b : Interval} (ha : a.WF) (hb : b.WF) (hw : b.w = a.w)
    (hw64 : a.w ≤ 64) (hle : ∀ x, b.Mem x → a.Mem x) : signedMergeI a b = a := by
  rw [signedMergeI_spec ha hb hw hw64]
  have h1 := hle _ (Interval.start_mem b hb.2.2.2.1)
  have h2 := hle _ (Interval.stop_mem b hb)
  obtain ⟨hwa, hsa', hea, hsea, hza, hda, hla⟩ := ha
  obtain ⟨_, hsb', heb, hseb, hzb, hdb, hlb⟩ := hb
  unfold Interval.Mem at h1 h2
  have hstride : mergedStride a b = a.stride := by
    unfold mergedStride
    have hd1 : a.stride ∣ b.stride := by
      by_cases h0 : b.stride = 0
      · rw [h0]; exact Nat.dvd_zero _
      · have hne : b.start ≠ b.stop := fun h => h0 (hzb.mpr h)
        have hpos : 0 < b.stop - b.start := by omega
        have hle' := Int.le_of_dvd hpos hdb
        have hm : b.Mem (b.start + b.stride) := by
          refine ⟨by omega, by omega, ?_⟩
          have : b.start + (b.stride : Int) - b.start = (b.stride : Int) := by omega
          rw [this]; exact Int.dvd_refl _
        have h3 := (hle _ hm).2.2
        have : (b.stride : Int) = (b.start + (b.stride : Int) - a.start) - (b.start - a.start) := by omega
        have h4 : (a.stride : Int) ∣ (b.stride : Int) := by rw [this]; exact Int.dvd_sub h3 h1.2.2
        exact Int.natCast_dvd_natCast.mp h4
    have hd2 : a.stride ∣ (a.start - b.start).natAbs := by
      apply Int.ofNat_dvd_left.mp
      have : a.start - b.start = -(b.start - a.start) := by omega
      rw [this]; exact Int.dvd_neg.mpr h1.2.2
    rw [Nat.gcd_eq_left hd1, Nat.gcd_eq_left hd2]
  rw [hstride]
  have e1 : (if a.start ≤ b.start then a.start else b.start) = a.start := by split <;> omega
  have e2 : (if a.stop ≥ b.stop then a.stop else b.stop) = a.stop := by split <;> omega
  rw [e1, e2]

/-! ### widening hints -/

/-- every stored hint lies strictly outside the interval and is a `w`-bit value -/
def HintsOK (m : IntervalDomain) : Prop :=
  (∀ l, m.lower = some l → l < m.interval.start ∧ InRange m.interval.w l) ∧
  (∀ u, m.upper = some u → m.interval.stop < u ∧ InRange m.interval.w u)

theorem roundUp_inRange {I : Interval} (hw : 0 < I.w) {x y : Int} (hx : InRange I.w x)
    (h : roundUpToStrideOf x I = some y) : InRange I.w y := by
  unfold roundUpToStrideOf at h
  split at h
  · cases h; exact hx
  · simp only at h
    split at h
    · cases h
    · cases h; exact wrap_inRange I.w hw _

theorem roundDown_inRange {I : Interval} (hw : 0 < I.w) {x y : Int} (hx : InRange I.w x)
    (h : roundDownToStrideOf x I = some y) : InRange I.w y := by
  unfold roundDownToStrideOf at h
  split at h
  · cases h; exact hx
  · simp only at h
    split at h
    · cases h
    · cases h; exact wrap_inRange I.w hw _

theorem updateLower_facts (m : IntervalDomain) (bound : Option Int) (hw : 0 < m.interval.w)
    (hb : ∀ x, bound = some x → InRange m.interval.w x) (hm : HintsOK m) :
    (m.updateLower bound).interval = m.interval ∧ (m.updateLower bound).delay = m.delay ∧
    HintsOK (m.updateLower bound) := by
  unfold IntervalDomain.updateLower
  cases bound with
  | none => exact ⟨rfl, rfl, hm⟩
  | some x =>
    simp only
    cases hr : roundUpToStrideOf x m.interval with
    | none => exact ⟨rfl, rfl, hm⟩
    | some y =>
      have hy := roundUp_inRange hw (hb x rfl) hr
      simp only
      split
      · rename_i hlt
        cases hl : m.lower with
        | none => exact ⟨rfl, rfl, ⟨fun l h => by cases h; exact ⟨hlt, hy⟩, hm.2⟩⟩
        | some prev =>
          simp only
          split
          · exact ⟨rfl, rfl, ⟨fun l h => by cases h; exact ⟨hlt, hy⟩, hm.2⟩⟩
          · exact ⟨rfl, rfl, hm⟩
      · exact ⟨rfl, rfl, hm⟩

theorem updateUpper_facts (m : IntervalDomain) (bound : Option Int) (hw : 0 < m.interval.w)
    (hb : ∀ x, bound = some x → InRange m.interval.w x) (hm : HintsOK m) :
    (m.updateUpper bound).interval = m.interval ∧ (m.updateUpper bound).delay = m.delay ∧
    HintsOK (m.updateUpper bound) := by
  unfold IntervalDomain.updateUpper
  cases bound with
  | none => exact ⟨rfl, rfl, hm⟩
  | some x =>
    simp only
    cases hr : roundDownToStrideOf x m.interval with
    | none => exact ⟨rfl, rfl, hm⟩
    | some y =>
      have hy := roundDown_inRange hw (hb x rfl) hr
      simp only
      split
      · rename_i hlt
        cases hl : m.upper with
        | none => exact ⟨rfl, rfl, ⟨hm.1, fun l h => by cases h; exact ⟨hlt, hy⟩⟩⟩
        | some prev =>
          simp only
          split
          · exact ⟨rfl, rfl, ⟨hm.1, fun l h => by cases h; exact ⟨hlt, hy⟩⟩⟩
          · exact ⟨rfl, rfl, hm⟩
      · exact ⟨rfl, rfl, hm⟩


/-- `signed_merge`: the interval is the merged interval, the delay the maximum, and all hints
lie outside the merged interval -/
theorem signedMerge_facts {a b : IntervalDomain} (ha : a.WF) (hb : b.WF)
    (hw : b.interval.w = a.interval.w) (hw64 : a.interval.w ≤ 64) :
    (signedMerge a b).interval = signedMergeI a.interval b.interval ∧
    (signedMerge a b).delay = max a.delay b.delay ∧ HintsOK (signedMerge a b) := by
  obtain ⟨hIa, hua, hla, hda⟩ := ha
  obtain ⟨hIb, hub, hlb, hdb⟩ := hb
  have hI := wf_signedMergeI hIa hIb hw hw64
  let m0 := IntervalDomain.ofInterval (signedMergeI a.interval b.interval)
  have h0 : HintsOK m0 := ⟨fun l h => (by cases h), fun u h => (by cases h)⟩
  have hw0 : m0.interval.w = a.interval.w := hI.2
  have hwpos : 0 < a.interval.w := hIa.1
  obtain ⟨e1, d1, h1⟩ := updateLower_facts m0 a.lower (by rw [hw0]; exact hwpos)
    (fun x hx => by rw [hw0]; exact hla x hx) h0
  have hw1 : (m0.updateLower a.lower).interval.w = a.interval.w := by rw [e1]; exact hw0
  obtain ⟨e2, d2, h2⟩ := updateLower_facts (m0.updateLower a.lower) b.lower (by rw [hw1]; exact hwpos)
    (fun x hx => by rw [hw1, ← hw]; exact hlb x hx) h1
  have hw2 : ((m0.updateLower a.lower).updateLower b.lower).interval.w = a.interval.w := by
    rw [e2]; exact hw1
  obtain ⟨e3, d3, h3⟩ := updateUpper_facts ((m0.updateLower a.lower).updateLower b.lower) a.upper
    (by rw [hw2]; exact hwpos) (fun x hx => by rw [hw2]; exact hua x hx) h2
  have hw3 : (((m0.updateLower a.lower).updateLower b.lower).updateUpper a.upper).interval.w
      = a.interval.w := by rw [e3]; exact hw2
  obtain ⟨e4, d4, h4⟩ := updateUpper_facts
    (((m0.updateLower a.lower).updateLower b.lower).updateUpper a.upper) b.upper
    (by rw [hw3]; exact hwpos) (fun x hx => by rw [hw3, ← hw]; exact hub x hx) h3
  refine ⟨?_, rfl, ?_⟩
  · show ((((m0.updateLower a.lower).updateLower b.lower).updateUpper a.upper).updateUpper b.upper).interval = _
    rw [e4, e3, e2, e1]; rfl
  · exact h4

/-! ### widening -/

/-- `J` is `I` extended downwards and/or upwards within the same residue class -/
structure Widens (I J : Interval) : Prop where
  w : J.w = I.w
  stride : J.stride = I.stride
  start_le : J.start ≤ I.start
  stop_le : I.stop ≤ J.stop
  start_in : InRange I.w J.start
  stop_in : InRange I.w J.stop
  dvd_start : (I.stride : Int) ∣ I.start - J.start
  dvd_stop : (I.stride : Int) ∣ J.stop - I.stop

theorem Widens.refl {I : Interval} (h : I.WF) : Widens I I :=
  ⟨rfl, rfl, Int.le_refl _, Int.le_refl _, h.2.1, h.2.2.1, by simp, by simp⟩

theorem Widens.mem {I J : Interval} (h : Widens I J) {x : Int} (hx : I.Mem x) : J.Mem x := by
  obtain ⟨h1, h2, h3⟩ := hx
  refine ⟨by have := h.start_le; omega, by have := h.stop_le; omega, ?_⟩
  rw [h.stride]
  have : x - J.start = (x - I.start) + (I.start - J.start) := by omega
  rw [this]; exact Int.dvd_add h3 h.dvd_start

theorem Widens.wf {I J : Interval} (h : Widens I J) (hI : I.WF) (hpos : I.start < I.stop) : J.WF := by
  obtain ⟨hw, hs, he, hse, hz, hd, hl⟩ := hI
  have := h.start_le; have := h.stop_le
  refine ⟨by rw [h.w]; exact hw, by rw [h.w]; exact h.start_in, by rw [h.w]; exact h.stop_in,
    by omega, ?_, ?_, by rw [h.stride]; exact hl⟩
  · rw [h.stride]; constructor
    · intro h0; have := hz.mp h0; omega
    · intro h0; omega
  · rw [h.stride]
    have : J.stop - J.start = (J.stop - I.stop) + (I.stop - I.start) + (I.start - J.start) := by omega
    rw [this]; exact Int.dvd_add (Int.dvd_add h.dvd_stop hd) h.dvd_start


theorem Widens.trans {I J K : Interval} (h₁ : Widens I J) (h₂ : Widens J K) : Widens I K := by
  have e1 := h₁.w; have e2 := h₁.stride
  refine ⟨by rw [h₂.w, h₁.w], by rw [h₂.stride, h₁.stride], ?_, ?_, ?_, ?_, ?_, ?_⟩
  · have := h₁.start_le; have := h₂.start_le; omega
  · have := h₁.stop_le; have := h₂.stop_le; omega
  · rw [← e1]; exact h₂.start_in
  · rw [← e1]; exact h₂.stop_in
  · have : I.start - K.start = (I.start - J.start) + (J.start - K.start) := by omega
    rw [this]; exact Int.dvd_add h₁.dvd_start (by rw [← e2]; exact h₂.dvd_start)
  · have : K.stop - I.stop = (K.stop - J.stop) + (J.stop - I.stop) := by omega
    rw [this]; exact Int.dvd_add (by rw [← e2]; exact h₂.dvd_stop) h₁.dvd_stop

theorem dvd_sub_emod (x k : Int) : k ∣ x - x % k :=
  ⟨x / k, by have := Int.mul_ediv_add_emod x k; omega⟩

/-- "widen to the lower bound": set the start to a hint below the interval and round it up into
the residue class of the interval -/
theorem adjustStart_widens {I : Interval} (hI : I.WF) (hpos : I.start < I.stop) (hw64 : I.w ≤ 64)
    {l : Int} (hl : l < I.start) (hlr : InRange I.w l) :
    Widens I ({ I with start := l }).adjustStart ∧ (({ I with start := l }).adjustStart).stop = I.stop := by
  obtain ⟨hw, hs, he, hse, hz, hd, hlt⟩ := hI
  have hst : 0 < I.stride := by
    rcases Nat.eq_zero_or_pos I.stride with h | h
    · have := hz.mp h; omega
    · exact h
  have hk : (0 : Int) < (I.stride : Int) := by omega
  rw [adjustStart_spec (I := { I with start := l }) hw hw64 hlr he (by simp only; omega) hst]
  simp only
  -- the remainder of `stop - l` equals the remainder of `start - l`
  have hrem : (I.stop - l) % (I.stride : Int) = (I.start - l) % (I.stride : Int) := by
    obtain ⟨q, hq⟩ := hd
    have : I.stop - l = (I.start - l) + (I.stride : Int) * q := by omega
    rw [this, Int.add_mul_emod_self_left]
  have hr0 : 0 ≤ (I.start - l) % (I.stride : Int) := Int.emod_nonneg _ (by omega)
  have hr1 := emod_le_self_of_nonneg (x := I.start - l) (by omega) hk
  rw [hrem]
  have hne : ¬ (l + (I.start - l) % (I.stride : Int) = I.stop) := by omega
  simp only [hne, if_false]
  refine ⟨⟨rfl, rfl, by simp only; omega, by simp only; omega, ?_, he, ?_, by simp⟩, trivial⟩
  · simp only; unfold InRange at *; omega
  · simp only
    have : I.start - (l + (I.start - l) % (I.stride : Int))
        = (I.start - l) - (I.start - l) % (I.stride : Int) := by omega
    rw [this]; exact dvd_sub_emod _ _

/-- "widen to the upper bound" -/
theorem adjustEnd_widens {I : Interval} (hI : I.WF) (hpos : I.start < I.stop) (hw64 : I.w ≤ 64)
    {u : Int} (hu : I.stop < u) (hur : InRange I.w u) :
    Widens I ({ I with stop := u }).adjustEnd ∧ (({ I with stop := u }).adjustEnd).start = I.start := by
  obtain ⟨hw, hs, he, hse, hz, hd, hlt⟩ := hI
  have hst : 0 < I.stride := by
    rcases Nat.eq_zero_or_pos I.stride with h | h
    · have := hz.mp h; omega
    · exact h
  have hk : (0 : Int) < (I.stride : Int) := by omega
  rw [adjustEnd_spec (I := { I with stop := u }) hw hw64 hs hur (by simp only; omega) hst]
  simp only
  have hrem : (u - I.start) % (I.stride : Int) = (u - I.stop) % (I.stride : Int) := by
    obtain ⟨q, hq⟩ := hd
    have : u - I.start = (u - I.stop) + (I.stride : Int) * q := by omega
    rw [this, Int.add_mul_emod_self_left]
  have hr0 : 0 ≤ (u - I.stop) % (I.stride : Int) := Int.emod_nonneg _ (by omega)
  have hr1 := emod_le_self_of_nonneg (x := u - I.stop) (by omega) hk
  rw [hrem]
  have hne : ¬ (I.start = u - (u - I.stop) % (I.stride : Int)) := by omega
  simp only [hne, if_false]
  refine ⟨⟨rfl, rfl, by simp only; omega, by simp only; omega, hs, ?_, by simp, ?_⟩, trivial⟩
  · simp only; unfold InRange at *; omega
  · simp only
    have : u - (u - I.stop) % (I.stride : Int) - I.stop
        = (u - I.stop) - (u - I.stop) % (I.stride : Int) := by omega
    rw [this]; exact dvd_sub_emod _ _


theorem tryToU64_lt {w : Nat} {x : Int} {u : Nat} (h : tryToU64 w x = some u) : u < 2 ^ 64 := by
  unfold tryToU64 at h
  simp only at h
  split at h
  · cases h; assumption
  · cases h

theorem lengthU64_getD_lt (I : Interval) : (lengthU64 I).getD 0 < 2 ^ 64 := by
  unfold lengthU64
  cases h : tryToU64 I.w (wrap I.w (I.stop - I.start)) with
  | none => decide
  | some u => exact tryToU64_lt h

/-- the two widening steps extend the merged interval within its residue class and keep the
remaining hints in range -/
theorem widen_facts (a b m : IntervalDomain) (hI : m.interval.WF) (hpos : m.interval.start < m.interval.stop)
    (hw64 : m.interval.w ≤ 64) (hH : HintsOK m) :
    Widens m.interval (widenUpper a b (widenLower a b m)).1.interval ∧
    (∀ l, (widenUpper a b (widenLower a b m)).1.lower = some l → InRange m.interval.w l) ∧
    (∀ u, (widenUpper a b (widenLower a b m)).1.upper = some u → InRange m.interval.w u) := by
  -- step 1
  have step1 : Widens m.interval (widenLower a b m).1.interval ∧
      (widenLower a b m).1.interval.stop = m.interval.stop ∧
      (widenLower a b m).1.upper = m.upper ∧
      (∀ l, (widenLower a b m).1.lower = some l → InRange m.interval.w l) := by
    unfold widenLower
    cases hl : m.lower with
    | none => exact ⟨Widens.refl hI, rfl, rfl, fun l h => by rw [hl] at h; cases h⟩
    | some l =>
      simp only
      split
      · obtain ⟨hlt, hlr⟩ := hH.1 l hl
        obtain ⟨hwd, hstop⟩ := adjustStart_widens hI hpos hw64 hlt hlr
        exact ⟨hwd, hstop, rfl, fun l h => by cases h⟩
      · exact ⟨Widens.refl hI, rfl, rfl, fun l' h => (hH.1 l' h).2⟩
  obtain ⟨hwd1, hstop1, hup1, hlo1⟩ := step1
  generalize widenLower a b m = r1 at *
  have hJ := Widens.wf hwd1 hI hpos
  have hJpos : r1.1.interval.start < r1.1.interval.stop := by
    have := hwd1.start_le; omega
  unfold widenUpper
  cases hu : r1.1.upper with
  | none => exact ⟨hwd1, hlo1, fun u h => by rw [hu] at h; cases h⟩
  | some u =>
    simp only
    split
    · obtain ⟨hgt, hur⟩ := hH.2 u (by rw [← hup1]; exact hu)
      have hw' : r1.1.interval.w = m.interval.w := hwd1.w
      obtain ⟨hwd2, _⟩ := adjustEnd_widens hJ hJpos (by rw [hw']; exact hw64)
        (u := u) (by rw [hstop1]; exact hgt) (by rw [hw']; exact hur)
      exact ⟨Widens.trans hwd1 hwd2, hlo1, fun u h => by cases h⟩
    · exact ⟨hwd1, hlo1, fun u' h => (hH.2 u' (by rw [← hup1]; exact h)).2⟩

/-- what `signed_merge_and_widen` returns on well-formed inputs of the same width (≤ 64 bits):
a well-formed value of that width that contains the plain merged interval -/
theorem merge_result {a b : IntervalDomain} (ha : a.WF) (hb : b.WF)
    (hw : b.interval.w = a.interval.w) (hw1 : 1 < a.interval.w) (hw64 : a.interval.w ≤ 64) :
    (signedMergeAndWiden a b).WF ∧ (signedMergeAndWiden a b).interval.w = a.interval.w ∧
    (∀ x, (signedMergeI a.interval b.interval).Mem x → (signedMergeAndWiden a b).Mem x) := by
  obtain ⟨eI, ed, hH⟩ := signedMerge_facts ha hb hw hw64
  obtain ⟨hIwf, hIw⟩ := wf_signedMergeI ha.1 hb.1 hw hw64
  have hmI : (signedMerge a b).interval.WF := by rw [eI]; exact hIwf
  have hmw : (signedMerge a b).interval.w = a.interval.w := by rw [eI]; exact hIw
  have hmwf : (signedMerge a b).WF := by
    refine ⟨hmI, fun u h => (hH.2 u h).2, fun l h => (hH.1 l h).2, ?_⟩
    rw [ed]
    have := ha.2.2.2; have := hb.2.2.2
    exact Nat.max_lt.mpr ⟨by assumption, by assumption⟩
  have hmem : ∀ x, (signedMergeI a.interval b.interval).Mem x → (signedMerge a b).Mem x := by
    intro x hx; unfold IntervalDomain.Mem; rw [eI]; exact hx
  unfold signedMergeAndWiden
  simp only
  split
  · exact ⟨hmwf, hmw, hmem⟩
  · rename_i hne
    split
    · exact ⟨hmwf, hmw, hmem⟩
    · -- widening: the merged interval is not a singleton (it would equal `a`'s interval)
      have hpos : (signedMerge a b).interval.start < (signedMerge a b).interval.stop := by
        apply Classical.byContradiction
        intro hnp
        have heq : (signedMerge a b).interval.start = (signedMerge a b).interval.stop := by
          have := hmI.2.2.2.1; omega
        apply hne; left
        rw [eI]
        apply signedMergeI_absorb ha.1 hb.1 hw hw64
        rw [eI, signedMergeI_spec ha.1 hb.1 hw hw64] at heq
        simp only at heq
        have h1 := ha.1.2.2.2.1; have h2 := hb.1.2.2.2.1
        intro x hx
        have e1 : a.interval.start = a.interval.stop := by split at heq <;> split at heq <;> omega
        have e2 : b.interval.start = b.interval.stop := by split at heq <;> split at heq <;> omega
        have e3 : a.interval.start = b.interval.start := by split at heq <;> split at heq <;> omega
        have : x = a.interval.start := by have := hx.1; have := hx.2.1; omega
        rw [this]; exact Interval.start_mem _ h1
      obtain ⟨hwd, hlo, hup⟩ := widen_facts a b (signedMerge a b) hmI hpos (by rw [hmw]; exact hw64) hH
      generalize widenUpper a b (widenLower a b (signedMerge a b)) = r at *
      have hrw : r.1.interval.w = a.interval.w := by rw [hwd.w]; exact hmw
      split
      · refine ⟨⟨Widens.wf hwd hmI hpos, ?_, ?_, lengthU64_getD_lt _⟩, hrw, ?_⟩
        · intro u h; rw [hrw, ← hmw]; exact hup u h
        · intro l h; rw [hrw, ← hmw]; exact hlo l h
        · intro x hx; exact Widens.mem hwd (hmem x hx)
      · refine ⟨⟨?_, fun u h => (by cases h), fun l h => (by cases h), (by show (0:Nat) < 2 ^ 64; decide)⟩, hmw, ?_⟩
        · rw [hmw]; exact Interval.wf_newTop _ hw1
        · intro x hx
          unfold IntervalDomain.Mem IntervalDomain.newTop IntervalDomain.ofInterval
          simp only
          rw [Interval.mem_newTop, hmw, ← hIw]
          exact Interval.mem_inRange hIwf hx


/-! ### the laws for `IntervalDomain` -/

/-- well-formed interval-domain values of `w` bits -/
def ivWF (w : Nat) (a : IntervalDomain) : Prop := a.WF ∧ a.interval.w = w

theorem ivDom_γ (a : IntervalDomain) (x : Int) : ivDom.γ a x ↔ a.Mem x := by
  unfold Dom.γ ivDom; simp

/-- law 2 in the inclusion form, with the structural consequence: merging an already contained
value performs no widening and leaves the interval (the value set) unchanged -/
theorem signedMergeAndWiden_absorb {a b : IntervalDomain} (ha : a.WF) (hb : b.WF)
    (hw : b.interval.w = a.interval.w) (hw64 : a.interval.w ≤ 64)
    (hle : ∀ x, b.Mem x → a.Mem x) : (signedMergeAndWiden a b).interval = a.interval := by
  obtain ⟨eI, _, _⟩ := signedMerge_facts ha hb hw hw64
  have hI := signedMergeI_absorb ha.1 hb.1 hw hw64 hle
  unfold signedMergeAndWiden
  simp only
  have : (signedMerge a b).interval = a.interval := by rw [eI, hI]
  simp only [this, true_or, if_true]

/-- a well-formed `is_top` interval is the full range -/
theorem isTop_mem {a : IntervalDomain} (ha : a.WF) (ht : a.isTop = true) (x : Int) :
    a.Mem x ↔ InRange a.interval.w x := by
  obtain ⟨⟨hw, hs, he, hse, hz, hd, hl⟩, _⟩ := ha
  unfold IntervalDomain.isTop Interval.isTop at ht
  simp only [Bool.and_eq_true, beq_iff_eq] at ht
  obtain ⟨h1, h2⟩ := ht
  -- start = smin: otherwise start - 1 is in range and equals stop < start
  have hstart : a.interval.start = smin a.interval.w := by
    apply Classical.byContradiction
    intro hne
    have hin : InRange a.interval.w (a.interval.start - 1) := by unfold InRange at *; omega
    rw [wrap_of_inRange _ hw hin] at h1
    omega
  have hstop : a.interval.stop = smax a.interval.w := by
    rw [hstart] at h1
    have h3 : (3 : Int) * smin a.interval.w ≤ smin a.interval.w - 1 := by
      have := pow2_pos (a.interval.w - 1); unfold smin; omega
    have h4 : smin a.interval.w - 1 ≤ 3 * smax a.interval.w + 2 := by
      have := pow2_pos (a.interval.w - 1); unfold smin smax; omega
    have h2' := pow2_eq a.interval.w hw
    rcases wrap_cases a.interval.w hw (smin a.interval.w - 1) h3 h4 with ⟨hin, _⟩ | ⟨hgt, _⟩ | ⟨_, hwr⟩
    · unfold InRange at hin; omega
    · unfold smin smax at hgt; have := pow2_pos (a.interval.w - 1); omega
    · rw [hwr] at h1; unfold smin smax at *; omega
  unfold IntervalDomain.Mem Interval.Mem InRange
  rw [hstart, hstop, h2]
  constructor
  · rintro ⟨h1, h2, _⟩; exact ⟨h1, h2⟩
  · rintro ⟨h1, h2⟩; exact ⟨h1, h2, by simp [Int.one_dvd]⟩

/-- **C03-interval (1 to 8 bytes).** `IntervalDomain::merge` = `signed_merge_and_widen`
satisfies the merge laws on well-formed values of one width, *including all widening steps*: the
result (plain merge, widened to a hint with stride adjustment, or `Top`) contains both inputs;
merging something already contained (`γ b ⊆ γ a`) performs no widening and leaves the value set
unchanged (so re-merging an absorbed input, and merging a value with itself, do not enlarge);
`merge_with` represents the same set.

Full statement (not proved for widths above 64 bits, where `try_to_u64`/`try_to_i64` can fail and
the code falls back to stride 1): the same for every byte size. There the inclusion form of
law 2 is in fact FALSE in the model (`[0, 3*2^64]` stride 3 merged with `{3*2^64}` gives stride 1);
laws 1, 3 and the literal form of law 2 are expected to hold. -/
theorem ivDom_laws_partial (s : Nat) (hs1 : 1 ≤ s) (hs8 : s ≤ 8) :
    Laws ivDom (ivWF (8 * s)) (InRange (8 * s)) := by
  have hw1 : 1 < 8 * s := by omega
  have hw64 : 8 * s ≤ 64 := by omega
  generalize hwdef : 8 * s = w at *
  have hbytes : ∀ {a : IntervalDomain}, ivWF w a → 8 * ivBytes a = w := by
    intro a ha; unfold ivBytes; rw [ha.2, ← hwdef]; omega
  have absorb : ∀ {a b : IntervalDomain}, ivWF w a → ivWF w b → ivDom.le b a →
      ivDom.eqv (ivDom.merge a b) a := by
    intro a b ha hb hle x
    rw [ivDom_γ, ivDom_γ]
    have hle' : ∀ x, b.Mem x → a.Mem x := fun x hx => (ivDom_γ a x).mp (hle x ((ivDom_γ b x).mpr hx))
    have := signedMergeAndWiden_absorb ha.1 hb.1 (by rw [ha.2, hb.2]) (by rw [ha.2]; exact hw64) hle'
    show (signedMergeAndWiden a b).Mem x ↔ a.Mem x
    unfold IntervalDomain.Mem; rw [this]
  have mres : ∀ {a b : IntervalDomain}, ivWF w a → ivWF w b →
      ivWF w (signedMergeAndWiden a b) ∧
      (∀ x, (signedMergeI a.interval b.interval).Mem x → (signedMergeAndWiden a b).Mem x) := by
    intro a b ha hb
    obtain ⟨h1, h2, h3⟩ := merge_result ha.1 hb.1 (by rw [ha.2, hb.2]) (by rw [ha.2]; exact hw1)
      (by rw [ha.2]; exact hw64)
    exact ⟨⟨h1, by rw [h2, ha.2]⟩, h3⟩
  have mwf : ∀ {a b : IntervalDomain}, ivWF w a → ivWF w b →
      ivWF w (defaultMergeWith signedMergeAndWiden a b) := by
    intro a b ha hb
    unfold defaultMergeWith; split
    · exact ha
    · exact (mres ha hb).1
  refine
    { merge_wf := fun ha hb => (mres ha hb).1, mergeWith_wf := mwf, top_wf := ?_, sound_l := ?_,
      sound_r := ?_, absorb := absorb, mergeWith_eqv := ?_, isTop_γ := ?_, top_γ := ?_ }
  · intro a ha
    show ivWF w (IntervalDomain.newTop (8 * ivBytes a))
    rw [hbytes ha]
    exact ⟨⟨Interval.wf_newTop w hw1, fun u h => (by cases h), fun l h => (by cases h),
      (by show (0:Nat) < 2 ^ 64; decide)⟩, rfl⟩
  · intro a b ha hb x hx
    rw [ivDom_γ] at *
    exact (mres ha hb).2 x (mem_signedMergeI ha.1.1 hb.1.1 (by rw [ha.2, hb.2])
      (by rw [ha.2]; exact hw64) (Or.inl hx))
  · intro a b ha hb x hx
    rw [ivDom_γ] at *
    exact (mres ha hb).2 x (mem_signedMergeI ha.1.1 hb.1.1 (by rw [ha.2, hb.2])
      (by rw [ha.2]; exact hw64) (Or.inr hx))
  · intro a b ha _
    exact defaultMergeWith_eqv ivDom a b rfl (absorb ha ha (Laws.le_refl _ a))
  · intro a ha ht x
    rw [ivDom_γ, isTop_mem ha.1 ht x, ha.2]
  · intro a ha x
    rw [ivDom_γ]
    show (Interval.newTop (8 * ivBytes a)).Mem x ↔ InRange w x
    rw [hbytes ha, Interval.mem_newTop]

/-- `Top` is maximal for this kind (needed by the Intersect strategy and by `MemRegion`) -/
theorem ivTop_max (w : Nat) (a : IntervalDomain) (ha : ivWF w a) (x : Int) (h : ivDom.γ a x) :
    InRange w x := by
  rw [ivDom_γ] at h
  rw [← ha.2]; exact Interval.mem_inRange ha.1.1 h

/-! ### facts that hold for all values (no well-formedness needed) -/

theorem adjustStart_w (I : Interval) : I.adjustStart.w = I.w := by
  unfold Interval.adjustStart
  split
  · rfl
  · split
    · rfl
    · cases I.adjustDiff <;> rfl

theorem adjustEnd_w (I : Interval) : I.adjustEnd.w = I.w := by
  unfold Interval.adjustEnd
  split
  · rfl
  · split
    · rfl
    · cases I.adjustDiff <;> rfl

theorem updateLower_interval (m : IntervalDomain) (bound : Option Int) :
    (m.updateLower bound).interval = m.interval := by
  unfold IntervalDomain.updateLower
  cases bound with
  | none => rfl
  | some x =>
    simp only
    cases roundUpToStrideOf x m.interval with
    | none => rfl
    | some y =>
      simp only
      split
      · cases m.lower with
        | none => rfl
        | some prev => simp only; split <;> rfl
      · rfl

theorem updateUpper_interval (m : IntervalDomain) (bound : Option Int) :
    (m.updateUpper bound).interval = m.interval := by
  unfold IntervalDomain.updateUpper
  cases bound with
  | none => rfl
  | some x =>
    simp only
    cases roundDownToStrideOf x m.interval with
    | none => rfl
    | some y =>
      simp only
      split
      · cases m.upper with
        | none => rfl
        | some prev => simp only; split <;> rfl
      · rfl

theorem signedMergeI_w (a b : Interval) : (signedMergeI a b).w = a.w := by
  unfold signedMergeI; split <;> rfl

theorem signedMerge_w (a b : IntervalDomain) : (signedMerge a b).interval.w = a.interval.w := by
  unfold signedMerge
  simp only [updateUpper_interval, updateLower_interval]
  exact signedMergeI_w _ _

/-- the merge of two interval values has the width of the first -/
theorem signedMergeAndWiden_w (a b : IntervalDomain) :
    (signedMergeAndWiden a b).interval.w = a.interval.w := by
  have hm := signedMerge_w a b
  unfold signedMergeAndWiden
  simp only
  split
  · exact hm
  · split
    · exact hm
    · have h1 : (widenLower a b (signedMerge a b)).1.interval.w = a.interval.w := by
        unfold widenLower
        cases (signedMerge a b).lower with
        | none => exact hm
        | some l =>
          simp only
          split
          · simp only [adjustStart_w]; exact hm
          · exact hm
      have h2 : (widenUpper a b (widenLower a b (signedMerge a b))).1.interval.w = a.interval.w := by
        generalize widenLower a b (signedMerge a b) = r1 at *
        unfold widenUpper
        cases r1.1.upper with
        | none => exact h1
        | some u =>
          simp only
          split
          · simp only [adjustEnd_w]; exact h1
          · exact h1
      split
      · exact h2
      · exact hm

/-- `new_top(w)` is recognised by `is_top` -/
theorem isTop_newTop (w : Nat) : (IntervalDomain.newTop w).isTop = true := by
  unfold IntervalDomain.isTop IntervalDomain.newTop IntervalDomain.ofInterval Interval.isTop Interval.newTop
  simp only [beq_self_eq_true, Bool.and_true, beq_iff_eq]
  rcases Nat.eq_zero_or_pos w with h0 | hw
  · subst h0; decide
  · have hp := pow2_pos (w - 1)
    have h2 := pow2_eq w hw
    apply wrap_eq w hw (-1)
    · unfold InRange smin smax; omega
    · unfold smin smax; omega

/-! ### non-vacuity and the wide-width counterexample -/

/-- a loop counter: `[0,4]` stride 4 with upper hint 40, merged with `[8,12]` stride 4 -/
def exA : IntervalDomain := { interval := ⟨8, 0, 4, 4⟩, upper := some 41, lower := none, delay := 0 }
def exB : IntervalDomain := { interval := ⟨8, 8, 12, 4⟩, upper := none, lower := none, delay := 0 }

example : ivWF 8 exA ∧ ivWF 8 exB :=
  ⟨⟨⟨by decide, fun u h => (by cases h; decide), fun l h => (by cases h), (by decide)⟩, rfl⟩,
   ⟨⟨by decide, fun u h => (by cases h), fun l h => (by cases h), (by decide)⟩, rfl⟩⟩
-- widened to the hint 41 rounded down into the residue class: `[0,40]` stride 4
example : signedMergeAndWiden exA exB =
    { interval := ⟨8, 0, 40, 4⟩, upper := none, lower := none, delay := 40 } := by decide
example : (signedMergeAndWiden exA exB).Mem 12 := by decide
-- above 64 bits the inclusion form of law 2 fails in the model (see `ivDom_laws_partial`)
example : (signedMergeI ⟨128, 0, 3 * 2 ^ 64, 3⟩ ⟨128, 3 * 2 ^ 64, 3 * 2 ^ 64, 0⟩).stride = 1 := by decide

end CweModel.C03
