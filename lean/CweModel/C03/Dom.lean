/-
C03 — the interface every abstract value kind is seen through (`AbstractDomain` + `HasTop` of
`src/cwe_checker_lib/src/abstract_domain/mod.rs`) and the three merge laws of the property, stated
once for an arbitrary kind.

`Dom V C` is the *executable* part: `merge`, `mergeWith` (`merge_with`), `isTop`, `top`
(`HasTop::top(&self)`) and a decidable concretisation `mem v c` ("the concrete value `c` is
represented by `v`"). The driver executes exactly these records on the implementation outputs.

`Laws D wf G` is the *proved* part for the values satisfying `wf` (the values "of the same kind":
same byte size, well-formed interval, ...), `G` being the set represented by the kind's `Top`
element (which need not be everything: `DataDomain`, `Taint`).
-/
namespace CweModel.C03

structure Dom (V C : Type) where
  /-- decidable concretisation -/
  mem : V → C → Bool
  /-- `AbstractDomain::merge` -/
  merge : V → V → V
  /-- `AbstractDomain::merge_with` (result value of the in-place update) -/
  mergeWith : V → V → V
  /-- `AbstractDomain::is_top` -/
  isTop : V → Bool
  /-- `HasTop::top(&self)` -/
  top : V → V

/-- the default body of `AbstractDomain::merge_with`:
`if self != other { *self = self.merge(other) }` -/
def defaultMergeWith {V : Type} [DecidableEq V] (merge : V → V → V) (a b : V) : V :=
  if a = b then a else merge a b

variable {V C : Type}

/-- represented set -/
def Dom.γ (D : Dom V C) (v : V) (c : C) : Prop := D.mem v c = true

instance (D : Dom V C) (v : V) (c : C) : Decidable (D.γ v c) :=
  inferInstanceAs (Decidable (D.mem v c = true))

/-- `a` represents every value `b` represents -/
def Dom.le (D : Dom V C) (b a : V) : Prop := ∀ c, D.γ b c → D.γ a c

/-- `a` and `b` represent the same set -/
def Dom.eqv (D : Dom V C) (a b : V) : Prop := ∀ c, D.γ a c ↔ D.γ b c

/-- The laws of property C03 for one kind of abstract value.

* `sound_l/sound_r`: every concrete value represented by either input is represented by the merge.
* `absorb`: merging a value with something it already absorbed (`γ b ⊆ γ a`) does not enlarge
  its represented set. (The literal form `γ (merge (merge a b) b) = γ (merge a b)` and
  `γ (merge a a) = γ a` are the derived theorems `Laws.absorb_merged`, `Laws.idem` below.)
* `mergeWith_eqv`: `merge_with` represents the same set as `merge`.
* `isTop_γ`, `top_γ`: all `Top` elements of the kind represent the same set `G`. -/
structure Laws (D : Dom V C) (wf : V → Prop) (G : C → Prop) : Prop where
  merge_wf : ∀ {a b}, wf a → wf b → wf (D.merge a b)
  mergeWith_wf : ∀ {a b}, wf a → wf b → wf (D.mergeWith a b)
  top_wf : ∀ {a}, wf a → wf (D.top a)
  sound_l : ∀ {a b}, wf a → wf b → D.le a (D.merge a b)
  sound_r : ∀ {a b}, wf a → wf b → D.le b (D.merge a b)
  absorb : ∀ {a b}, wf a → wf b → D.le b a → D.eqv (D.merge a b) a
  mergeWith_eqv : ∀ {a b}, wf a → wf b → D.eqv (D.mergeWith a b) (D.merge a b)
  isTop_γ : ∀ {a}, wf a → D.isTop a = true → ∀ c, D.γ a c ↔ G c
  top_γ : ∀ {a}, wf a → ∀ c, D.γ (D.top a) c ↔ G c

namespace Laws
variable {D : Dom V C} {wf : V → Prop} {G : C → Prop}

theorem eqv_refl (D : Dom V C) (a : V) : D.eqv a a := fun _ => Iff.rfl
theorem eqv_symm {a b : V} (h : D.eqv a b) : D.eqv b a := fun c => (h c).symm
theorem eqv_trans {a b c : V} (h₁ : D.eqv a b) (h₂ : D.eqv b c) : D.eqv a c :=
  fun x => (h₁ x).trans (h₂ x)
theorem le_refl (D : Dom V C) (a : V) : D.le a a := fun _ h => h
theorem le_trans {a b c : V} (h₁ : D.le a b) (h₂ : D.le b c) : D.le a c := fun x h => h₂ x (h₁ x h)
theorem le_of_eqv {a b : V} (h : D.eqv a b) : D.le a b := fun c => (h c).mp
theorem ge_of_eqv {a b : V} (h : D.eqv a b) : D.le b a := fun c => (h c).mpr

/-- **C03 law 3 (generic).** merging a value with itself represents the same set -/
theorem idem (L : Laws D wf G) {a : V} (ha : wf a) : D.eqv (D.merge a a) a :=
  L.absorb ha ha (le_refl D a)

/-- **C03 law 2, literal form (generic).** an input that was already merged in does not enlarge
the represented set when it is merged in again -/
theorem absorb_merged (L : Laws D wf G) {a b : V} (ha : wf a) (hb : wf b) :
    D.eqv (D.merge (D.merge a b) b) (D.merge a b) :=
  L.absorb (L.merge_wf ha hb) hb (L.sound_r ha hb)

theorem absorb_merged_left (L : Laws D wf G) {a b : V} (ha : wf a) (hb : wf b) :
    D.eqv (D.merge (D.merge a b) a) (D.merge a b) :=
  L.absorb (L.merge_wf ha hb) ha (L.sound_l ha hb)

/-- the same four facts for `merge_with` -/
theorem mw_sound_l (L : Laws D wf G) {a b : V} (ha : wf a) (hb : wf b) : D.le a (D.mergeWith a b) :=
  fun c h => (L.mergeWith_eqv ha hb c).mpr (L.sound_l ha hb c h)
theorem mw_sound_r (L : Laws D wf G) {a b : V} (ha : wf a) (hb : wf b) : D.le b (D.mergeWith a b) :=
  fun c h => (L.mergeWith_eqv ha hb c).mpr (L.sound_r ha hb c h)
theorem mw_absorb (L : Laws D wf G) {a b : V} (ha : wf a) (hb : wf b) (h : D.le b a) :
    D.eqv (D.mergeWith a b) a :=
  eqv_trans (L.mergeWith_eqv ha hb) (L.absorb ha hb h)

/-- a `Top` element represents at least what any value merged with it represents... and the
converse inclusion: whatever is merged with a top element still contains `G`. -/
theorem top_le_mw_top (L : Laws D wf G) {a : V} (ha : wf a) {c : C} (hc : G c) :
    D.γ (D.mergeWith a (D.top a)) c :=
  L.mw_sound_r ha (L.top_wf ha) c ((L.top_γ ha c).mpr hc)

end Laws

/-- Laws for the default `merge_with`: it represents the same set as `merge` as soon as `merge`
is idempotent up to `γ`. Used by every kind that does not override `merge_with`. -/
theorem defaultMergeWith_eqv [DecidableEq V] (D : Dom V C) (a b : V)
    (hmw : D.mergeWith = defaultMergeWith D.merge) (hidem : D.eqv (D.merge a a) a) :
    D.eqv (D.mergeWith a b) (D.merge a b) := by
  rw [hmw]; unfold defaultMergeWith
  by_cases h : a = b
  · subst h; simp only [if_true]; exact Laws.eqv_symm hidem
  · simp only [h, if_false]; exact Laws.eqv_refl D _

end CweModel.C03
