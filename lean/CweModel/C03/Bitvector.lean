/-
C03 — `BitvectorDomain` (`src/cwe_checker_lib/src/abstract_domain/bitvector.rs`):
`Top(bytesize)` or one known bit-vector.

Concrete values are pairs `(bytesize, value)`; "of the same kind" means "of the same byte size".
-/
import CweModel.C03.Dom

namespace CweModel.C03

/-- `enum BitvectorDomain { Top(ByteSize), Value(Bitvector) }`; a bit-vector is (bytes, unsigned value) -/
inductive BvDom where
  | top (bytes : Nat)
  | val (bytes : Nat) (v : Nat)
deriving DecidableEq, Repr

/-- a concrete bit-vector: (byte size, unsigned value) -/
abbrev Bv := Nat × Nat

namespace BvDom

/-- `SizedDomain::bytesize` -/
def bytesize : BvDom → Nat
  | top s => s
  | val s _ => s

/-- `HasTop::top` -/
def topOf (a : BvDom) : BvDom := .top a.bytesize

/-- `AbstractDomain::merge`: `if self == other { self.clone() } else { self.top() }` -/
def merge (a b : BvDom) : BvDom := if a = b then a else a.topOf

def isTop : BvDom → Bool
  | top _ => true
  | val _ _ => false

def mem : BvDom → Bv → Bool
  | top s, c => c.1 == s
  | val s v, c => c.1 == s && c.2 == v

end BvDom

/-- `BitvectorDomain` as a value kind (`merge_with` is the trait default) -/
def bvDom : Dom BvDom Bv where
  mem := BvDom.mem
  merge := BvDom.merge
  mergeWith := defaultMergeWith BvDom.merge
  isTop := BvDom.isTop
  top := BvDom.topOf

/-- values of byte size `s` -/
def BvDom.wf (s : Nat) (a : BvDom) : Prop := a.bytesize = s

/-- the set represented by `Top(s)`: all bit-vectors of `s` bytes -/
def bvTop (s : Nat) (c : Bv) : Prop := c.1 = s

theorem BvDom.mem_top_iff (a : BvDom) (c : Bv) : BvDom.mem a.topOf c = true ↔ c.1 = a.bytesize := by
  simp [BvDom.topOf, BvDom.mem]

theorem BvDom.mem_size {a : BvDom} {c : Bv} (h : BvDom.mem a c = true) : c.1 = a.bytesize := by
  cases a <;> simp [BvDom.mem, BvDom.bytesize] at * <;> simp [h]

/-- **C03-bitvector.** `BitvectorDomain` satisfies the merge laws on values of one byte size:
the merge contains both inputs, re-merging an absorbed value changes nothing, `merge a a = a`,
`merge_with` agrees with `merge`. -/
theorem bvDom_laws (s : Nat) : Laws bvDom (BvDom.wf s) (bvTop s) := by
  have absorb : ∀ {a b : BvDom}, BvDom.wf s a → BvDom.wf s b → bvDom.le b a → bvDom.eqv (bvDom.merge a b) a := by
    intro a b ha hb hle c
    show BvDom.mem (BvDom.merge a b) c = true ↔ BvDom.mem a c = true
    unfold BvDom.merge
    by_cases hab : a = b
    · simp [hab]
    · simp only [hab, if_false]
      cases a with
      | top sa => simp [BvDom.topOf, BvDom.bytesize]
      | val sa va =>
        -- `b` is below a single value, so it is that value (or `b` would be `Top`)
        exfalso
        cases b with
        | top sb =>
          have h1 := hle (sb, va) (by simp [Dom.γ, bvDom, BvDom.mem])
          have h2 := hle (sb, va + 1) (by simp [Dom.γ, bvDom, BvDom.mem])
          simp [Dom.γ, bvDom, BvDom.mem] at h1 h2
        | val sb vb =>
          have h1 := hle (sb, vb) (by simp [Dom.γ, bvDom, BvDom.mem])
          simp [Dom.γ, bvDom, BvDom.mem] at h1
          exact hab (by rw [h1.1, h1.2])
  have idem : ∀ a : BvDom, bvDom.eqv (bvDom.merge a a) a := by
    intro a c; show BvDom.mem (BvDom.merge a a) c = true ↔ BvDom.mem a c = true; simp [BvDom.merge]
  refine
    { merge_wf := ?_, mergeWith_wf := ?_, top_wf := ?_, sound_l := ?_, sound_r := ?_,
      absorb := absorb, mergeWith_eqv := ?_, isTop_γ := ?_, top_γ := ?_ }
  · intro a b ha hb
    show (BvDom.merge a b).bytesize = s
    unfold BvDom.merge; split
    · exact ha
    · exact ha
  · intro a b ha hb
    show (defaultMergeWith BvDom.merge a b).bytesize = s
    unfold defaultMergeWith BvDom.merge; split
    · exact ha
    · exact ha
  · intro a ha; simpa [bvDom, BvDom.wf, BvDom.topOf, BvDom.bytesize] using ha
  · intro a b ha hb c hc
    show BvDom.mem (BvDom.merge a b) c = true
    unfold BvDom.merge; split
    · exact hc
    · rw [BvDom.mem_top_iff]; exact BvDom.mem_size hc
  · intro a b ha hb c hc
    show BvDom.mem (BvDom.merge a b) c = true
    unfold BvDom.merge; split
    · rename_i h; rw [h]; exact hc
    · rw [BvDom.mem_top_iff, BvDom.mem_size hc]
      rw [BvDom.wf] at ha hb; rw [ha, hb]
  · intro a b _ _
    exact defaultMergeWith_eqv bvDom a b rfl (idem a)
  · intro a ha ht c
    cases a with
    | top sa => simp [Dom.γ, bvDom, BvDom.mem, bvTop, BvDom.wf, BvDom.bytesize] at *; rw [ha]
    | val _ _ => simp [bvDom, BvDom.isTop] at ht
  · intro a ha c
    show BvDom.mem a.topOf c = true ↔ _
    rw [BvDom.mem_top_iff, bvTop, ha]

/-- exact forms: `merge a a = a`, and `merge_with` *is* `merge` -/
theorem BvDom.merge_self (a : BvDom) : BvDom.merge a a = a := by simp [BvDom.merge]

theorem bvDom_mergeWith_eq (a b : BvDom) : bvDom.mergeWith a b = bvDom.merge a b := by
  show defaultMergeWith BvDom.merge a b = BvDom.merge a b
  unfold defaultMergeWith; split
  · rename_i h; subst h; exact (BvDom.merge_self a).symm
  · rfl

/-- `Top` is maximal for this kind (needed by the Intersect strategy) -/
theorem bvTop_max (s : Nat) (a : BvDom) (ha : BvDom.wf s a) (c : Bv) (h : bvDom.γ a c) : bvTop s c := by
  rw [bvTop, ← ha]; exact BvDom.mem_size h

-- non-vacuity
example : BvDom.wf 1 (.val 1 7) ∧ BvDom.wf 1 (.val 1 9) := ⟨rfl, rfl⟩
example : BvDom.merge (.val 1 7) (.val 1 9) = .top 1 := by decide
example : bvDom.γ (BvDom.merge (.val 1 7) (.val 1 9)) (1, 9) := by decide

end CweModel.C03
