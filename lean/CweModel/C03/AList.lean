/-
C03 — `BTreeMap<K, V>` as an association list in key order, with integer keys.

The merge functions of `DomainMap` (and the `relative_values` merge of `DataDomain`) visit keys with
`retain`, `entry(..).and_modify(..).or_insert_with(..)`, `get` and `insert`. Each of these loops
acts key by key, so the model builds the result as

    buildMap (unionKeys a b) (fun k => comb k (get a k) (get b k))

i.e. the keys of both maps in ascending order (the iteration/serialisation order of a `BTreeMap`),
each mapped through the loop body `comb`. The loop bodies themselves are in `Maps.lean` /
`Data.lean`. That the Rust loops have this key-wise effect is part of what the correspondence run
checks (it compares whole maps, entry by entry).
-/
namespace CweModel.C03

abbrev AList (V : Type) := List (Int × V)

variable {V : Type}

/-- `BTreeMap::get` -/
def AList.get : AList V → Int → Option V
  | [], _ => none
  | (k', v) :: rest, k => if k' = k then some v else AList.get rest k

def AList.keys (m : AList V) : List Int := m.map (·.1)

/-- insert into an ascending list without duplicates -/
def insertKey (k : Int) : List Int → List Int
  | [] => [k]
  | x :: xs => if k = x then x :: xs else if k < x then k :: x :: xs else x :: insertKey k xs

/-- the keys of both maps, ascending, no duplicates -/
def unionKeys (a b : AList V) : List Int :=
  (a.keys ++ b.keys).foldr insertKey []

/-- the map with entries `(k, f k)` for the `k ∈ keys` where `f k` is present -/
def buildMap (keys : List Int) (f : Int → Option V) : AList V :=
  keys.filterMap (fun k => (f k).map (fun v => (k, v)))

/-- key-wise combination of two maps; `comb k none none` is never used -/
def mergeBy (comb : Int → Option V → Option V → Option V) (a b : AList V) : AList V :=
  buildMap (unionKeys a b) (fun k => comb k (a.get k) (b.get k))

/-! ### lemmas -/

theorem mem_insertKey {k x : Int} {l : List Int} : x ∈ insertKey k l ↔ x = k ∨ x ∈ l := by
  induction l with
  | nil => simp [insertKey]
  | cons y ys ih =>
    unfold insertKey
    split
    · rename_i h; subst h; simp
    · split
      · simp
      · simp only [List.mem_cons, ih]
        constructor
        · rintro (h | h | h) <;> simp [h]
        · rintro (h | h | h) <;> simp [h]

theorem mem_foldr_insertKey {x : Int} {l : List Int} : x ∈ l.foldr insertKey [] ↔ x ∈ l := by
  induction l with
  | nil => simp
  | cons y ys ih => simp [List.foldr_cons, mem_insertKey, ih]

theorem mem_unionKeys {a b : AList V} {k : Int} : k ∈ unionKeys a b ↔ k ∈ a.keys ∨ k ∈ b.keys := by
  unfold unionKeys
  rw [mem_foldr_insertKey, List.mem_append]

theorem AList.get_none_of_not_mem {m : AList V} {k : Int} (h : k ∉ m.keys) : m.get k = none := by
  induction m with
  | nil => rfl
  | cons e rest ih =>
    obtain ⟨k', v⟩ := e
    simp only [AList.keys, List.map_cons, List.mem_cons, not_or] at h
    have hne : ¬ k' = k := fun h' => h.1 h'.symm
    simp only [AList.get, hne, if_false]
    exact ih h.2

theorem AList.mem_keys_of_get {m : AList V} {k : Int} {v : V} (h : m.get k = some v) : k ∈ m.keys := by
  apply Classical.byContradiction
  intro hn
  rw [AList.get_none_of_not_mem hn] at h
  cases h

theorem get_buildMap (keys : List Int) (f : Int → Option V) (k : Int) :
    (buildMap keys f).get k = if k ∈ keys then f k else none := by
  induction keys with
  | nil => simp [buildMap, AList.get]
  | cons x xs ih =>
    unfold buildMap at ih ⊢
    rw [List.filterMap_cons]
    cases hfx : f x with
    | none =>
      simp only [Option.map_none]
      rw [ih]
      by_cases hk : k = x
      · subst hk; simp [hfx]
      · simp [hk]
    | some v =>
      simp only [Option.map_some, AList.get]
      by_cases hk : x = k
      · subst hk; simp [hfx]
      · have hk' : ¬ k = x := fun h => hk h.symm
        simp only [hk, if_false, List.mem_cons, hk', false_or]
        exact ih

/-- **key-wise reading of `mergeBy`** -/
theorem get_mergeBy (comb : Int → Option V → Option V → Option V)
    (hnone : ∀ k, comb k none none = none) (a b : AList V) (k : Int) :
    (mergeBy comb a b).get k = comb k (a.get k) (b.get k) := by
  unfold mergeBy
  rw [get_buildMap]
  by_cases h : k ∈ unionKeys a b
  · simp [h]
  · simp only [h, if_false]
    rw [mem_unionKeys, not_or] at h
    rw [AList.get_none_of_not_mem h.1, AList.get_none_of_not_mem h.2, hnone]

end CweModel.C03
