/-
C03 — the model: one file per kind of abstract value, each containing the model of the kind's
`merge` / `merge_with` (mirroring the Rust functions named in its header), its concretisation, and
the proofs of the merge laws for that kind. This file only collects them for the driver.
-/
import CweModel.C03.Dom
import CweModel.C03.AList
import CweModel.C03.Bitvector
import CweModel.C03.Taint
import CweModel.C03.Data
import CweModel.C03.Maps
import CweModel.C03.Interval
import CweModel.C03.MemRegion
