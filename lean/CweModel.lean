-- Root of the model library; property modules are built individually by ./check.
import CweModel.C19.Props
