-- Root of the model library; property modules are built individually by ./check and setup.sh.
import CweModel.Base.Proto
