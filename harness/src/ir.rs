//! Builders for IR terms (the repo's `expr!`/`def!` macros are `cfg(test)` only) and the canonical
//! JSON form of programs/projects exchanged with the Lean drivers (`CweModel.Base.IR`).
//!
//! Canonical JSON: every term is serialised with the repo's own serde derives, except that the
//! `BTreeMap<Tid, _>`/`BTreeSet<Tid>` containers of `Program` (which serde_json cannot write because
//! `Tid` is not a string key) become arrays in key order:
//! `{"subs":[Term<Sub>…], "extern_symbols":[ExternSymbol…], "entry_points":[Tid…], "address_base_offset":n}`.
use cwe_checker_lib::intermediate_representation::*;
use serde_json::{json, Value};
use std::collections::{BTreeMap, BTreeSet};

pub fn tid(id: &str) -> Tid {
    Tid::new(id)
}
/// Tid with explicit address
pub fn tid_at(id: &str, address: &str) -> Tid {
    serde_json::from_value(json!({"id": id, "address": address})).unwrap()
}
pub fn tid_id(t: &Tid) -> String {
    format!("{}", t)
}
pub fn var(name: &str, size: u64) -> Variable {
    Variable { name: name.to_string(), size: ByteSize::new(size), is_temp: false }
}
pub fn tmp(name: &str, size: u64) -> Variable {
    Variable { name: name.to_string(), size: ByteSize::new(size), is_temp: true }
}
/// constant of `size` bytes holding `val` (truncated)
pub fn bv(val: u64, size: u64) -> Bitvector {
    Bitvector::from_u64(val).into_resize_unsigned(ByteSize::new(size))
}
pub fn bvs(val: i64, size: u64) -> Bitvector {
    Bitvector::from_i64(val).into_resize_signed(ByteSize::new(size))
}
pub fn e_var(name: &str, size: u64) -> Expression {
    Expression::Var(var(name, size))
}
pub fn e_const(val: u64, size: u64) -> Expression {
    Expression::Const(bv(val, size))
}
pub fn e_bin(op: BinOpType, lhs: Expression, rhs: Expression) -> Expression {
    Expression::BinOp { op, lhs: Box::new(lhs), rhs: Box::new(rhs) }
}
pub fn e_un(op: UnOpType, arg: Expression) -> Expression {
    Expression::UnOp { op, arg: Box::new(arg) }
}
pub fn e_cast(op: CastOpType, size: u64, arg: Expression) -> Expression {
    Expression::Cast { op, size: ByteSize::new(size), arg: Box::new(arg) }
}
pub fn e_sub(low_byte: u64, size: u64, arg: Expression) -> Expression {
    Expression::Subpiece { low_byte: ByteSize::new(low_byte), size: ByteSize::new(size), arg: Box::new(arg) }
}
pub fn e_unknown(desc: &str, size: u64) -> Expression {
    Expression::Unknown { description: desc.to_string(), size: ByteSize::new(size) }
}
pub fn d_assign(t: &str, v: Variable, value: Expression) -> Term<Def> {
    Term { tid: tid(t), term: Def::Assign { var: v, value } }
}
pub fn d_load(t: &str, v: Variable, address: Expression) -> Term<Def> {
    Term { tid: tid(t), term: Def::Load { var: v, address } }
}
pub fn d_store(t: &str, address: Expression, value: Expression) -> Term<Def> {
    Term { tid: tid(t), term: Def::Store { address, value } }
}
pub fn j_branch(t: &str, target: &str) -> Term<Jmp> {
    Term { tid: tid(t), term: Jmp::Branch(tid(target)) }
}
pub fn j_cbranch(t: &str, target: &str, condition: Expression) -> Term<Jmp> {
    Term { tid: tid(t), term: Jmp::CBranch { target: tid(target), condition } }
}
pub fn j_branch_ind(t: &str, target: Expression) -> Term<Jmp> {
    Term { tid: tid(t), term: Jmp::BranchInd(target) }
}
pub fn j_call(t: &str, target: &str, ret: Option<&str>) -> Term<Jmp> {
    Term { tid: tid(t), term: Jmp::Call { target: tid(target), return_: ret.map(tid) } }
}
pub fn j_call_ind(t: &str, target: Expression, ret: Option<&str>) -> Term<Jmp> {
    Term { tid: tid(t), term: Jmp::CallInd { target, return_: ret.map(tid) } }
}
pub fn j_call_other(t: &str, desc: &str, ret: Option<&str>) -> Term<Jmp> {
    Term { tid: tid(t), term: Jmp::CallOther { description: desc.to_string(), return_: ret.map(tid) } }
}
pub fn j_return(t: &str, target: Expression) -> Term<Jmp> {
    Term { tid: tid(t), term: Jmp::Return(target) }
}
pub fn blk(t: &str, defs: Vec<Term<Def>>, jmps: Vec<Term<Jmp>>) -> Term<Blk> {
    Term { tid: tid(t), term: Blk { defs, jmps, indirect_jmp_targets: Vec::new() } }
}
pub fn sub(t: &str, name: &str, blocks: Vec<Term<Blk>>, cconv: Option<&str>) -> Term<Sub> {
    Term { tid: tid(t), term: Sub { name: name.to_string(), blocks, calling_convention: cconv.map(|s| s.to_string()) } }
}
pub fn extern_symbol(t: &str, name: &str, params: Vec<Arg>, returns: Vec<Arg>, no_return: bool) -> ExternSymbol {
    ExternSymbol {
        tid: tid(t),
        addresses: vec!["UNKNOWN".to_string()],
        name: name.to_string(),
        calling_convention: Some("__stdcall".to_string()),
        parameters: params,
        return_values: returns,
        no_return,
        has_var_args: false,
    }
}
pub fn program(subs: Vec<Term<Sub>>, externs: Vec<ExternSymbol>, entry_points: Vec<Tid>) -> Program {
    Program {
        subs: subs.into_iter().map(|s| (s.tid.clone(), s)).collect(),
        extern_symbols: externs.into_iter().map(|s| (s.tid.clone(), s)).collect(),
        entry_points: entry_points.into_iter().collect(),
        address_base_offset: 0,
    }
}

/// x86-64 System V like calling convention on the 8-byte registers below.
pub fn cconv_x64() -> CallingConvention {
    CallingConvention {
        name: "__stdcall".to_string(),
        integer_parameter_register: ["RDI", "RSI", "RDX", "RCX", "R8", "R9"].iter().map(|r| var(r, 8)).collect(),
        float_parameter_register: Vec::new(),
        integer_return_register: vec![var("RAX", 8)],
        float_return_register: Vec::new(),
        callee_saved_register: ["RBX", "RBP", "R12", "R13", "R14", "R15"].iter().map(|r| var(r, 8)).collect(),
    }
}
pub const X64_REGS: [&str; 16] = [
    "RAX", "RBX", "RCX", "RDX", "RSI", "RDI", "RBP", "RSP", "R8", "R9", "R10", "R11", "R12", "R13", "R14", "R15",
];
pub fn datatype_properties_x64() -> DatatypeProperties {
    DatatypeProperties {
        char_size: ByteSize::new(1),
        double_size: ByteSize::new(8),
        float_size: ByteSize::new(4),
        integer_size: ByteSize::new(4),
        long_double_size: ByteSize::new(8),
        long_long_size: ByteSize::new(8),
        long_size: ByteSize::new(8),
        pointer_size: ByteSize::new(8),
        short_size: ByteSize::new(2),
    }
}
/// A project around `program` with x86-64 registers (8 byte) plus 1-byte flags ZF/CF/SF/OF,
/// stack pointer RSP, the calling convention above as `__stdcall` (the standard one) and an
/// empty little-endian memory image.
pub fn project_x64(program: Program) -> Project {
    let mut register_set: BTreeSet<Variable> = X64_REGS.iter().map(|r| var(r, 8)).collect();
    for f in ["ZF", "CF", "SF", "OF"] {
        register_set.insert(var(f, 1));
    }
    let mut calling_conventions = BTreeMap::new();
    calling_conventions.insert("__stdcall".to_string(), cconv_x64());
    Project {
        program: Term { tid: tid("program"), term: program },
        cpu_architecture: "x86_64".to_string(),
        stack_pointer_register: var("RSP", 8),
        calling_conventions,
        register_set,
        datatype_properties: datatype_properties_x64(),
        runtime_memory_image: RuntimeMemoryImage::empty(true),
    }
}

/// canonical JSON of a program (see module doc)
pub fn program_to_json(p: &Program) -> Value {
    json!({
        "subs": p.subs.values().map(|s| serde_json::to_value(s).unwrap()).collect::<Vec<_>>(),
        "extern_symbols": p.extern_symbols.values().map(|s| serde_json::to_value(s).unwrap()).collect::<Vec<_>>(),
        "entry_points": p.entry_points.iter().map(|t| serde_json::to_value(t).unwrap()).collect::<Vec<_>>(),
        "address_base_offset": p.address_base_offset,
    })
}
pub fn program_from_json(v: &Value) -> Program {
    let subs: Vec<Term<Sub>> = serde_json::from_value(v["subs"].clone()).expect("subs");
    let externs: Vec<ExternSymbol> = serde_json::from_value(v["extern_symbols"].clone()).expect("extern_symbols");
    let entry: Vec<Tid> = serde_json::from_value(v["entry_points"].clone()).expect("entry_points");
    let mut p = program(subs, externs, entry);
    p.address_base_offset = v["address_base_offset"].as_u64().unwrap_or(0);
    p
}
/// canonical JSON of a project: the program in canonical form plus the fields analyses read.
pub fn project_to_json(p: &Project) -> Value {
    json!({
        "program": program_to_json(&p.program.term),
        "program_tid": serde_json::to_value(&p.program.tid).unwrap(),
        "cpu_architecture": p.cpu_architecture,
        "stack_pointer_register": serde_json::to_value(&p.stack_pointer_register).unwrap(),
        "calling_conventions": p.calling_conventions.values().map(|c| serde_json::to_value(c).unwrap()).collect::<Vec<_>>(),
        "register_set": p.register_set.iter().map(|r| serde_json::to_value(r).unwrap()).collect::<Vec<_>>(),
        "datatype_properties": serde_json::to_value(&p.datatype_properties).unwrap(),
    })
}
pub fn project_from_json(v: &Value) -> Project {
    let ccs: Vec<CallingConvention> = serde_json::from_value(v["calling_conventions"].clone()).expect("calling_conventions");
    let regs: Vec<Variable> = serde_json::from_value(v["register_set"].clone()).expect("register_set");
    Project {
        program: Term {
            tid: serde_json::from_value(v["program_tid"].clone()).unwrap_or_else(|_| tid("program")),
            term: program_from_json(&v["program"]),
        },
        cpu_architecture: v["cpu_architecture"].as_str().unwrap_or("x86_64").to_string(),
        stack_pointer_register: serde_json::from_value(v["stack_pointer_register"].clone()).expect("sp"),
        calling_conventions: ccs.into_iter().map(|c| (c.name.clone(), c)).collect(),
        register_set: regs.into_iter().collect(),
        datatype_properties: serde_json::from_value(v["datatype_properties"].clone()).expect("datatype_properties"),
        runtime_memory_image: RuntimeMemoryImage::empty(true),
    }
}
