//! C21 harness: runs the REAL `cwe_checker` command-line binary on generated P-Code projects + ELF
//! images (random multi-function programs and check-trigger programs; PIE / EXEC / kernel module)
//! with default, all-checks and random `--partial` selections, and records exit status, stderr and
//! the raw stdout. The Lean driver parses the real stdout and checks well-formedness, labels and
//! the canonical order.
#[path = "../cli.rs"]
mod cli;
use cli::*;
use verif_harness::*;

struct Job {
    input_id: usize,
    partial: Option<String>,
    tag: &'static str,
}

/// all term addresses of a P-Code project document (for the "reported addresses exist" check)
fn project_addresses(project: &str) -> Vec<String> {
    fn walk(v: &Value, out: &mut std::collections::BTreeSet<String>) {
        match v {
            Value::Object(m) => {
                if let (Some(Value::String(_)), Some(Value::String(a))) = (m.get("id"), m.get("address")) {
                    out.insert(a.clone());
                }
                for x in m.values() {
                    walk(x, out);
                }
            }
            Value::Array(a) => {
                for x in a {
                    walk(x, out);
                }
            }
            _ => {}
        }
    }
    let mut out = std::collections::BTreeSet::new();
    if let Ok(v) = serde_json::from_str::<Value>(project) {
        walk(&v, &mut out);
    }
    out.into_iter().collect()
}

fn main() {
    let args = Args::parse();
    let mut out = Out::new(
        &args,
        "real cwe_checker CLI on generated P-Code projects + ELF images: random multi-function x86-64 programs (loops, \
         calls, extern symbols with calling conventions, loads/stores, sub-registers, indirect jumps/calls, shared blocks, \
         tail jumps) and check-trigger programs; PIE / EXEC / kernel-module ELF; default, all-checks and random --partial \
         selections; 60 s limit per run; non-trivial = run that printed at least one warning; distinct by (input, selection)",
    );
    let cli = match build_cli() {
        Ok(c) => c,
        Err(e) => {
            eprintln!("{}", e);
            std::process::exit(3);
        }
    };
    let root = scratch_root();
    let all_names = cli_module_names(&cli);
    if all_names.is_empty() {
        eprintln!("--module-versions of the real CLI lists no modules");
        std::process::exit(3);
    }
    let avail_lkm = names_runnable_with_lkm_config(&cli, &root, &all_names);
    let limit = args.num("limit_s", 60, 60);

    // inputs: recipe (regenerated) or inline project/ELF of a replay line
    let mut recipes: Vec<Option<Recipe>> = Vec::new();
    let mut inline: Vec<Option<(Input, bool)>> = Vec::new();
    let mut jobs: Vec<Job> = Vec::new();
    if let Some(lines) = args.replay_lines() {
        for line in lines {
            let v: Value = serde_json::from_str(&line).expect("replay line");
            if v.get("proj").is_some() {
                inline.push(Some((Input::from_json(&v), v["cfg_lkm"].as_bool().unwrap_or(false))));
                recipes.push(None);
            } else {
                recipes.push(Some(Recipe::from_json(&v["gen"])));
                inline.push(None);
            }
            jobs.push(Job { input_id: recipes.len() - 1, partial: v["partial"].as_str().map(|s| s.to_string()), tag: "replay" });
        }
    } else {
        let mut rng = Rng::new(args.seed);
        let n_inputs = args.num("inputs", 150, 2500) as usize;
        // directed programs that are part of every run
        let mut fixed: Vec<Recipe> = Recipe::always_dangling();
        fixed.extend(Recipe::always_diverge());
        fixed.extend(Recipe::always_isolated());
        fixed.extend(Recipe::always_uaf());
        let n_fixed = fixed.len();
        for i in 0..n_inputs + n_fixed {
            let rc = if i < n_fixed {
                fixed[i].clone()
            } else {
                match rng.below(14) {
                    0..=6 => Recipe::random_program(&mut rng),
                    7 => Recipe::random_shared(&mut rng),
                    8 => if rng.chance(1, 2) { Recipe::random_diverge(&mut rng) } else { Recipe::random_isolated(&mut rng) },
                    _ => Recipe::random_gadget(&mut rng),
                }
            };
            let avail: &Vec<String> = if rc.cfg_lkm { &avail_lkm } else { &all_names };
            jobs.push(Job { input_id: i, partial: None, tag: "default" });
            jobs.push(Job { input_id: i, partial: Some(avail.join(",")), tag: "all" });
            // any subset of ALL checks (for a kernel module with the kernel configuration this includes
            // checks that configuration has no section for)
            let mut v = all_names.clone();
            rng.shuffle(&mut v);
            v.truncate(1 + rng.below(6) as usize);
            jobs.push(Job { input_id: i, partial: Some(v.join(",")), tag: "partial" });
            recipes.push(Some(rc));
            inline.push(None);
        }
    }

    let th = threads();
    let idx: Vec<usize> = (0..recipes.len()).collect();
    let prepared: Vec<(Input, Files, String, bool)> = parallel(&idx, th, |_, &i| {
        let (inp, cfg_lkm) = match (&recipes[i], &inline[i]) {
            (Some(rc), _) => (rc.build(), rc.cfg_lkm),
            (None, Some((inp, c))) => (inp.clone(), *c),
            _ => unreachable!(),
        };
        let files = write_input(&root, i, &inp);
        (inp, files, config_path(cfg_lkm), cfg_lkm)
    });
    let results: Vec<RunResult> = parallel(&jobs, th, |_, j| {
        let (_, files, cfgp, _) = &prepared[j.input_id];
        run_cli(&cli, files, cfgp, j.partial.as_deref(), limit)
    });

    for (j, r) in jobs.iter().zip(results.iter()) {
        let (inp, _, _, cfg_lkm) = &prepared[j.input_id];
        let exit = if r.timed_out { -2 } else { r.exit.unwrap_or(-1) };
        let parsed: Option<Value> = serde_json::from_str(&r.stdout).ok();
        let nwarn = parsed.as_ref().and_then(|v| v.as_array().map(|a| a.len()));
        let anomalous = exit != 0 || !r.stderr.is_empty() || nwarn.is_none();
        let mut line = json!({
            "mode": j.tag,
            "partial": j.partial,
            "lkm": inp.is_lkm,
            "cfg_lkm": cfg_lkm,
            "impl": {
                "exit": exit,
                "timeout": r.timed_out,
                "stderr": r.stderr.chars().take(400).collect::<String>(),
                "panic_at": panic_location(&r.stderr),
                "panic_msg": panic_message(&r.stderr),
                "stdout": if r.stdout.len() > 2_000_000 { "<more than 2 MB>".to_string() } else { r.stdout.clone() },
            },
            "addrs": project_addresses(&inp.project),
        });
        match &recipes[j.input_id] {
            Some(rc) if !anomalous => line["gen"] = rc.json(),
            Some(rc) => {
                // anomalous run: carry the complete input inline (replay does not depend on the generator)
                line["gen"] = rc.json();
                line["proj"] = json!(inp.project);
                line["elf"] = json!(hex(&inp.elf));
            }
            None => {
                line["proj"] = json!(inp.project);
                line["elf"] = json!(hex(&inp.elf));
            }
        }
        out.count(&format!("mode:{}", j.tag));
        out.count(&format!("exit:{}", exit));
        if let Some(rc) = &recipes[j.input_id] {
            out.count(&format!("gen:{}:{:?}{}", rc.g, rc.kind, if rc.cfg_lkm { "+lkm_config" } else { "" }));
            if rc.g == "special" {
                out.count(&format!("special:{}", rc.gadgets.first().map(|s| s.split(':').next().unwrap_or("")).unwrap_or("")));
            }
            if rc.shared && inp.features.iter().any(|f| f == "shared-blocks") {
                out.count("feature:shared-blocks");
            }
        }
        out.count_n("warnings_total", nwarn.unwrap_or(0) as u64);
        out.count_n("cli_ms_total", r.ms);
        if r.ms > 5000 {
            out.count("cli_runs_over_5s");
        }
        let key = format!("{}|{:?}", j.input_id, j.partial);
        out.case(&line.to_string(), if nwarn.unwrap_or(0) > 0 { Some(&key) } else { None });
    }
    if std::env::var("C21_KEEP").is_err() {
        let _ = std::fs::remove_dir_all(&root);
    } else {
        eprintln!("kept {}", root.display());
    }
    out.finish();
}
