//! C01 harness: constant folding of the real `Bitvector::{bin_op,un_op,cast,subpiece}` and `BitvectorDomain`.
use cwe_checker_lib::abstract_domain::{BitvectorDomain, RegisterDomain};
use cwe_checker_lib::intermediate_representation::*;
use apint::Width;
use verif_harness::*;

const BIN_OPS: [(BinOpType, &str); 34] = {
    use BinOpType::*;
    [
        (Piece, "Piece"), (IntEqual, "IntEqual"), (IntNotEqual, "IntNotEqual"), (IntLess, "IntLess"),
        (IntSLess, "IntSLess"), (IntLessEqual, "IntLessEqual"), (IntSLessEqual, "IntSLessEqual"),
        (IntAdd, "IntAdd"), (IntSub, "IntSub"), (IntCarry, "IntCarry"), (IntSCarry, "IntSCarry"),
        (IntSBorrow, "IntSBorrow"), (IntXOr, "IntXOr"), (IntAnd, "IntAnd"), (IntOr, "IntOr"),
        (IntLeft, "IntLeft"), (IntRight, "IntRight"), (IntSRight, "IntSRight"), (IntMult, "IntMult"),
        (IntDiv, "IntDiv"), (IntRem, "IntRem"), (IntSDiv, "IntSDiv"), (IntSRem, "IntSRem"),
        (BoolXOr, "BoolXOr"), (BoolAnd, "BoolAnd"), (BoolOr, "BoolOr"), (FloatEqual, "FloatEqual"),
        (FloatNotEqual, "FloatNotEqual"), (FloatLess, "FloatLess"), (FloatLessEqual, "FloatLessEqual"),
        (FloatAdd, "FloatAdd"), (FloatSub, "FloatSub"), (FloatMult, "FloatMult"), (FloatDiv, "FloatDiv"),
    ]
};
const UN_OPS: [(UnOpType, &str); 10] = {
    use UnOpType::*;
    [
        (IntNegate, "IntNegate"), (Int2Comp, "Int2Comp"), (BoolNegate, "BoolNegate"), (FloatNegate, "FloatNegate"),
        (FloatAbs, "FloatAbs"), (FloatSqrt, "FloatSqrt"), (FloatCeil, "FloatCeil"), (FloatFloor, "FloatFloor"),
        (FloatRound, "FloatRound"), (FloatNaN, "FloatNaN"),
    ]
};
const CAST_OPS: [(CastOpType, &str); 7] = {
    use CastOpType::*;
    [
        (IntZExt, "IntZExt"), (IntSExt, "IntSExt"), (Int2Float, "Int2Float"), (Float2Float, "Float2Float"),
        (Trunc, "Trunc"), (PopCount, "PopCount"), (LzCount, "LzCount"),
    ]
};

/// bitvector of `bits` bits from up to two u64 limbs
fn mk(bits: usize, lo: u64, hi: u64) -> Bitvector {
    if bits <= 64 {
        Bitvector::from_u64(lo).into_truncate(bits).unwrap_or_else(|_| Bitvector::from_u64(lo))
    } else {
        let hi_part = Bitvector::from_u64(hi).into_zero_extend(bits).unwrap().into_checked_shl(64).unwrap();
        let lo_part = Bitvector::from_u64(lo).into_zero_extend(bits).unwrap();
        hi_part | &lo_part
    }
}
fn hexval(b: &Bitvector) -> String {
    let s = format!("{:x}", b);
    let t = s.trim_start_matches('0');
    if t.is_empty() { "0".to_string() } else { t.to_string() }
}
fn show(r: Result<Result<Bitvector, anyhow::Error>, String>) -> String {
    match r {
        Ok(Ok(v)) => format!("{}:{}", v.width().to_usize(), hexval(&v)),
        Ok(Err(_)) => "u".into(),
        Err(_) => "p".into(),
    }
}
fn show_dom(r: Result<BitvectorDomain, String>) -> String {
    match r {
        Ok(BitvectorDomain::Top(n)) => format!("T{}", u64::from(n)),
        Ok(BitvectorDomain::Value(v)) => format!("V{}:{}", v.width().to_usize(), hexval(&v)),
        Err(_) => "p".into(),
    }
}
fn dom_str(d: &BitvectorDomain) -> String {
    show_dom(Ok(d.clone()))
}
fn binop(op: BinOpType, a: &Bitvector, b: &Bitvector) -> String {
    let (a, b) = (a.clone(), b.clone());
    show(catch(move || a.bin_op(op, &b)))
}

fn rand_val(rng: &mut Rng, bits: usize) -> Bitvector {
    if bits <= 64 {
        mk(bits, rng.biased(bits as u32), 0)
    } else {
        let hi = rng.biased((bits - 64) as u32);
        let lo = match rng.below(4) { 0 => 0, 1 => u64::MAX, _ => rng.next() };
        mk(bits, lo, hi)
    }
}

fn single(out: &mut Out, rng: &mut Rng) {
    match rng.below(10) {
        0..=4 => {
            let (op, name) = *rng.pick(&BIN_OPS);
            let wa = *rng.pick(&[8usize, 16, 32, 64, 64, 128]);
            // mostly equal widths; shifts and piece with mixed widths; sometimes a size mismatch (panic expected)
            let wb = match op {
                BinOpType::Piece | BinOpType::IntLeft | BinOpType::IntRight | BinOpType::IntSRight => {
                    *rng.pick(&[8usize, 16, 32, 64])
                }
                _ => if rng.chance(1, 40) { *rng.pick(&[8usize, 16, 32, 64]) } else { wa },
            };
            let a = rand_val(rng, wa);
            let mut b = rand_val(rng, wb);
            match op {
                BinOpType::IntLeft | BinOpType::IntRight | BinOpType::IntSRight => {
                    if rng.chance(2, 3) {
                        b = mk(wb, rng.below(wa as u64 + 3), 0);
                    }
                }
                BinOpType::IntDiv | BinOpType::IntRem | BinOpType::IntSDiv | BinOpType::IntSRem => {
                    if rng.chance(1, 8) && wa == wb {
                        b = mk(wb, 0, 0);
                    }
                }
                BinOpType::BoolAnd | BinOpType::BoolOr | BinOpType::BoolXOr => {}
                _ => {}
            }
            let r = binop(op, &a, &b);
            out.count(&format!("bin:{}", name));
            out.count(&format!("res:{}", &r[..1.min(r.len())].replace(|c: char| c.is_ascii_digit(), "v")));
            let line = format!("b {} {} {} {} {} {}", name, wa, hexval(&a), wb, hexval(&b), r);
            out.case(&line, if r != "u" && r != "p" { Some(&line) } else { None });
        }
        5 => {
            let (op, name) = *rng.pick(&UN_OPS);
            let wa = *rng.pick(&[8usize, 16, 32, 64, 128]);
            let a = if op == UnOpType::BoolNegate && rng.chance(9, 10) { mk(8, rng.below(2), 0) } else { rand_val(rng, wa) };
            let a2 = a.clone();
            let r = show(catch(move || a2.un_op(op)));
            out.count(&format!("un:{}", name));
            let line = format!("u {} {} {} {}", name, a.width().to_usize(), hexval(&a), r);
            out.case(&line, if r != "u" && r != "p" { Some(&line) } else { None });
        }
        6 => {
            let (op, name) = *rng.pick(&CAST_OPS);
            let wa = *rng.pick(&[8usize, 16, 32, 64, 128]);
            let bytes = *rng.pick(&[1u64, 2, 4, 8, 16]);
            let a = rand_val(rng, wa);
            let a2 = a.clone();
            let r = show(catch(move || a2.cast(op, ByteSize::new(bytes))));
            out.count(&format!("cast:{}", name));
            let line = format!("c {} {} {} {} {}", name, bytes, wa, hexval(&a), r);
            out.case(&line, if r != "u" && r != "p" { Some(&line) } else { None });
        }
        7 => {
            let wa = *rng.pick(&[8usize, 16, 32, 64, 128]);
            let nb = (wa / 8) as u64;
            let low = rng.below(nb + 1);
            let size = 1 + rng.below(nb + 1);
            let a = rand_val(rng, wa);
            let a2 = a.clone();
            let r = show(catch(move || Ok(a2.subpiece(ByteSize::new(low), ByteSize::new(size)))));
            out.count("subpiece");
            let line = format!("s {} {} {} {} {}", low, size, wa, hexval(&a), r);
            out.case(&line, if r != "p" { Some(&line) } else { None });
        }
        _ => domain_case(out, rng),
    }
}

fn rand_dom(rng: &mut Rng, bytes: u64) -> BitvectorDomain {
    if rng.chance(1, 4) {
        BitvectorDomain::Top(ByteSize::new(bytes))
    } else {
        BitvectorDomain::Value(rand_val(rng, bytes as usize * 8))
    }
}

fn domain_case(out: &mut Out, rng: &mut Rng) {
    let ba = *rng.pick(&[1u64, 2, 4, 8, 16]);
    let a = rand_dom(rng, ba);
    match rng.below(6) {
        0..=2 => {
            let (op, name) = *rng.pick(&BIN_OPS);
            let bb = match op {
                BinOpType::Piece | BinOpType::IntLeft | BinOpType::IntRight | BinOpType::IntSRight => *rng.pick(&[1u64, 2, 4, 8]),
                _ => if rng.chance(1, 30) { *rng.pick(&[1u64, 2, 4, 8]) } else { ba },
            };
            let mut b = rand_dom(rng, bb);
            if matches!(op, BinOpType::IntDiv | BinOpType::IntSDiv | BinOpType::IntRem | BinOpType::IntSRem) && rng.chance(1, 6) {
                b = BitvectorDomain::Value(mk(bb as usize * 8, 0, 0));
            }
            let (a2, b2) = (a.clone(), b.clone());
            let r = show_dom(catch(move || a2.bin_op(op, &b2)));
            out.count("dom:bin");
            let line = format!("d bin {} {} {} {}", name, dom_str(&a), dom_str(&b), r);
            out.case(&line, if r.starts_with('V') { Some(&line) } else { None });
        }
        3 => {
            let (op, name) = *rng.pick(&UN_OPS);
            let a = if op == UnOpType::BoolNegate && rng.chance(4, 5) { BitvectorDomain::Value(mk(8, rng.below(2), 0)) } else { a };
            let a2 = a.clone();
            let r = show_dom(catch(move || a2.un_op(op)));
            out.count("dom:un");
            let line = format!("d un {} {} {}", name, dom_str(&a), r);
            out.case(&line, if r.starts_with('V') { Some(&line) } else { None });
        }
        4 => {
            let (op, name) = *rng.pick(&CAST_OPS);
            let bytes = *rng.pick(&[1u64, 2, 4, 8, 16]);
            let a2 = a.clone();
            let r = show_dom(catch(move || a2.cast(op, ByteSize::new(bytes))));
            out.count("dom:cast");
            let line = format!("d cast {} {} {} {}", name, bytes, dom_str(&a), r);
            out.case(&line, if r.starts_with('V') { Some(&line) } else { None });
        }
        _ => {
            let low = rng.below(ba + 1);
            let size = 1 + rng.below(ba);
            let a2 = a.clone();
            let r = show_dom(catch(move || a2.subpiece(ByteSize::new(low), ByteSize::new(size))));
            out.count("dom:sub");
            let line = format!("d sub {} {} {} {}", low, size, dom_str(&a), r);
            out.case(&line, if r.starts_with('V') { Some(&line) } else { None });
        }
    }
}

fn helper(kind: &str, a: &Bitvector, b: &Bitvector) -> String {
    let (a, b, k) = (a.clone(), b.clone(), kind.to_string());
    let r = catch(move || match k.as_str() {
        "sadd" => a.signed_add_overflow_checked(&b).map(|v| hexval(&v)).unwrap_or("none".into()),
        "ssub" => a.signed_sub_overflow_checked(&b).map(|v| hexval(&v)).unwrap_or("none".into()),
        _ => match a.signed_mult_with_overflow_flag(&b) {
            Ok((v, f)) => format!("{}:{}", hexval(&v), f as u8),
            Err(_) => "err".into(),
        },
    });
    r.unwrap_or("p".into())
}

fn parse_hex(s: &str, bits: usize) -> Bitvector {
    let v = u128::from_str_radix(s, 16).expect("hex");
    mk(bits, v as u64, (v >> 64) as u64)
}
fn parse_dom(s: &str) -> BitvectorDomain {
    if let Some(n) = s.strip_prefix('T') {
        BitvectorDomain::Top(ByteSize::new(n.parse().unwrap()))
    } else {
        let (w, v) = s[1..].split_once(':').unwrap();
        BitvectorDomain::Value(parse_hex(v, w.parse().unwrap()))
    }
}
fn find_bin(name: &str) -> BinOpType { BIN_OPS.iter().find(|(_, n)| *n == name).expect("op").0 }
fn find_un(name: &str) -> UnOpType { UN_OPS.iter().find(|(_, n)| *n == name).expect("op").0 }
fn find_cast(name: &str) -> CastOpType { CAST_OPS.iter().find(|(_, n)| *n == name).expect("op").0 }

fn replay(out: &mut Out, line: &str) {
    let t: Vec<&str> = line.split_whitespace().collect();
    let n = t.len();
    let new = match t[0] {
        "B" => {
            let op = find_bin(t[1]);
            let wa: usize = t[2].parse().unwrap();
            let a = parse_hex(t[3], wa);
            let wb: usize = t[4].parse().unwrap();
            let rs: Vec<String> = (0..256u64).map(|b| binop(op, &a, &mk(wb, b, 0))).collect();
            format!("B {} {} {} {} {}", t[1], wa, t[3], wb, rs.join(" "))
        }
        "b" => {
            let r = binop(find_bin(t[1]), &parse_hex(t[3], t[2].parse().unwrap()), &parse_hex(t[5], t[4].parse().unwrap()));
            format!("{} {}", t[..n - 1].join(" "), r)
        }
        "u" => {
            let a = parse_hex(t[3], t[2].parse().unwrap());
            let op = find_un(t[1]);
            format!("{} {}", t[..n - 1].join(" "), show(catch(move || a.un_op(op))))
        }
        "c" => {
            let a = parse_hex(t[4], t[3].parse().unwrap());
            let op = find_cast(t[1]);
            let bytes: u64 = t[2].parse().unwrap();
            format!("{} {}", t[..n - 1].join(" "), show(catch(move || a.cast(op, ByteSize::new(bytes)))))
        }
        "s" => {
            let a = parse_hex(t[4], t[3].parse().unwrap());
            let (low, size): (u64, u64) = (t[1].parse().unwrap(), t[2].parse().unwrap());
            format!("{} {}", t[..n - 1].join(" "), show(catch(move || Ok(a.subpiece(ByteSize::new(low), ByteSize::new(size))))))
        }
        "h" => {
            let w: usize = t[2].parse().unwrap();
            format!("{} {}", t[..n - 1].join(" "), helper(t[1], &parse_hex(t[3], w), &parse_hex(t[4], w)))
        }
        "d" => {
            let r = match t[1] {
                "bin" => { let (op, a, b) = (find_bin(t[2]), parse_dom(t[3]), parse_dom(t[4])); show_dom(catch(move || a.bin_op(op, &b))) }
                "un" => { let (op, a) = (find_un(t[2]), parse_dom(t[3])); show_dom(catch(move || a.un_op(op))) }
                "cast" => { let (op, bytes, a) = (find_cast(t[2]), t[3].parse::<u64>().unwrap(), parse_dom(t[4])); show_dom(catch(move || a.cast(op, ByteSize::new(bytes)))) }
                _ => { let (low, size, a) = (t[2].parse::<u64>().unwrap(), t[3].parse::<u64>().unwrap(), parse_dom(t[4])); show_dom(catch(move || a.subpiece(ByteSize::new(low), ByteSize::new(size)))) }
            };
            format!("{} {}", t[..n - 1].join(" "), r)
        }
        _ => panic!("bad replay line"),
    };
    out.case(&new, Some(&new));
}

fn main() {
    quiet_panics();
    let args = Args::parse();
    let mut out = Out::new(
        &args,
        "exhaustive: every binary op x all 65536 one-byte operand pairs (lines `B`, 256 pairs each), all unary ops/casts/subpieces \
         on all 1-byte and 2-byte values; sampled: 1/2/4/8/16-byte operands biased to sign/overflow boundaries, mixed-width shifts \
         and piece, BitvectorDomain Top/Value operands; non-trivial = a value was returned; distinct by full input",
    );
    if let Some(lines) = args.replay_lines() {
        for l in lines {
            replay(&mut out, &l);
        }
        out.finish();
        return;
    }
    let mut rng = Rng::new(args.seed);
    if args.tier != "search" {
        // exhaustive 1-byte space: 34 ops x 256 x 256
        for (op, name) in BIN_OPS.iter() {
            for a in 0..256u64 {
                let av = mk(8, a, 0);
                let rs: Vec<String> = (0..256u64).map(|b| binop(*op, &av, &mk(8, b, 0))).collect();
                let line = format!("B {} 8 {:x} 8 {}", name, a, rs.join(" "));
                out.evaluations += 255; // the line stands for 256 evaluations
                out.case(&line, Some(&format!("B{}{}", name, a)));
            }
            out.count_n(&format!("exh:{}", name), 65536);
        }
        // shifts of wider values by every 1-byte amount
        for (op, name) in [(BinOpType::IntLeft, "IntLeft"), (BinOpType::IntRight, "IntRight"), (BinOpType::IntSRight, "IntSRight"), (BinOpType::Piece, "Piece")] {
            for wa in [16usize, 32, 64] {
                for _ in 0..16 {
                    let av = rand_val(&mut rng, wa);
                    let rs: Vec<String> = (0..256u64).map(|b| binop(op, &av, &mk(8, b, 0))).collect();
                    let line = format!("B {} {} {} 8 {}", name, wa, hexval(&av), rs.join(" "));
                    out.evaluations += 255;
                    out.case(&line, Some(&line[..40.min(line.len())]));
                }
            }
        }
        for bits in [8usize, 16] {
            for a in 0..(1u64 << bits) {
                let av = mk(bits, a, 0);
                for (op, name) in UN_OPS.iter() {
                    if bits == 16 && a % 7 != 0 && !matches!(op, UnOpType::Int2Comp | UnOpType::IntNegate) { continue; }
                    let a2 = av.clone();
                    let op2 = *op;
                    let r = show(catch(move || a2.un_op(op2)));
                    let line = format!("u {} {} {:x} {}", name, bits, a, r);
                    out.case(&line, if r != "u" && r != "p" { Some(&line) } else { None });
                }
                for (op, name) in CAST_OPS.iter() {
                    for bytes in [1u64, 2, 4, 8] {
                        if bits == 16 && a % 5 != 0 && bytes > 2 { continue; }
                        let a2 = av.clone();
                        let op2 = *op;
                        let r = show(catch(move || a2.cast(op2, ByteSize::new(bytes))));
                        let line = format!("c {} {} {} {:x} {}", name, bytes, bits, a, r);
                        out.case(&line, if r != "u" && r != "p" { Some(&line) } else { None });
                    }
                }
                for low in 0..(bits as u64 / 8 + 1) {
                    for size in 1..(bits as u64 / 8 + 2) {
                        let a2 = av.clone();
                        let r = show(catch(move || Ok(a2.subpiece(ByteSize::new(low), ByteSize::new(size)))));
                        let line = format!("s {} {} {} {:x} {}", low, size, bits, a, r);
                        out.case(&line, if r != "p" { Some(&line) } else { None });
                    }
                }
            }
        }
        // overflow-checked helpers: all one-byte pairs
        for kind in ["sadd", "ssub", "smul"] {
            for a in 0..256u64 {
                for b in 0..256u64 {
                    let r = helper(kind, &mk(8, a, 0), &mk(8, b, 0));
                    let line = format!("h {} 8 {:x} {:x} {}", kind, a, b, r);
                    out.case(&line, Some(&line));
                }
            }
        }
        out.exhaustive = true;
    }
    let n = args.num("samples", 200_000, 5_000_000);
    for i in 0..n {
        if i % 8 == 0 {
            let w = *rng.pick(&[16usize, 32, 64, 64, 128]);
            let kind = *rng.pick(&["sadd", "ssub", "smul"]);
            let a = if rng.chance(1, 6) { mk(w, u64::MAX, u64::MAX) } else { rand_val(&mut rng, w) };
            let b = rand_val(&mut rng, w);
            let r = helper(kind, &a, &b);
            out.count(&format!("helper:{}", kind));
            let line = format!("h {} {} {} {} {}", kind, w, hexval(&a), hexval(&b), r);
            out.case(&line, Some(&line));
        } else {
            single(&mut out, &mut rng);
        }
    }
    out.finish();
}
