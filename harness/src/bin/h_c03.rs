//! C03 harness: drives the real `merge` / `merge_with` of every abstract value kind.
//!
//! One case = a pair `(a, b)` of values of one kind. The real code computes
//!   m   = a.merge(&b)            mw  = { let mut x = a.clone(); x.merge_with(&b); x }
//!   m2  = m.merge(&b)            maa = a.merge(&a)
//! and the line carries `a`, `b` and these four outputs in a compact canonical encoding
//! (see the `Enc` impls). The Lean driver recomputes all four with the model and evaluates the
//! three laws of the property on the IMPLEMENTATION outputs.
use cwe_checker_lib::abstract_domain::*;
use cwe_checker_lib::analysis::taint::Taint;
use cwe_checker_lib::intermediate_representation::*;
use std::collections::BTreeMap;
use verif_harness::*;

// ---------------------------------------------------------------------------------------------
// encodings

trait Enc: Sized {
    fn enc(&self) -> Value;
    fn dec(v: &Value) -> Self;
}

fn bv_signed(bits: u64, x: i128) -> Bitvector {
    Bitvector::from_i128(x).into_resize_signed(ByteSize::new(bits / 8))
}

/// a signed value of `bits` bits as JSON: a number up to 64 bits, a decimal string above
fn jv(bits: u64, x: i128) -> Value {
    if bits <= 64 {
        json!(x as i64)
    } else {
        json!(x.to_string())
    }
}

fn get_i128(v: &Value) -> i128 {
    match v {
        Value::String(s) => s.parse().unwrap(),
        _ => v.as_i64().unwrap() as i128,
    }
}

impl Enc for BitvectorDomain {
    fn enc(&self) -> Value {
        match self {
            BitvectorDomain::Top(s) => json!({"t": u64::from(*s)}),
            BitvectorDomain::Value(bv) => json!({"v": [u64::from(bv.bytesize()), bv.try_to_u64().unwrap()]}),
        }
    }
    fn dec(v: &Value) -> Self {
        if let Some(t) = v.get("t") {
            BitvectorDomain::Top(ByteSize::new(t.as_u64().unwrap()))
        } else {
            let a = v["v"].as_array().unwrap();
            BitvectorDomain::Value(
                Bitvector::from_u64(a[1].as_u64().unwrap()).into_resize_unsigned(ByteSize::new(a[0].as_u64().unwrap())),
            )
        }
    }
}

impl Enc for Taint {
    fn enc(&self) -> Value {
        match self {
            Taint::Tainted(s) => json!({"T": u64::from(*s)}),
            Taint::Top(s) => json!({"U": u64::from(*s)}),
        }
    }
    fn dec(v: &Value) -> Self {
        if let Some(t) = v.get("T") {
            Taint::Tainted(ByteSize::new(t.as_u64().unwrap()))
        } else {
            Taint::Top(ByteSize::new(v["U"].as_u64().unwrap()))
        }
    }
}

/// IntervalDomain through its serde derive (all fields are private).
impl Enc for IntervalDomain {
    fn enc(&self) -> Value {
        let j = serde_json::to_value(self).unwrap();
        let start: Bitvector = serde_json::from_value(j["interval"]["start"].clone()).unwrap();
        let bits = u64::from(start.bytesize()) * 8;
        let bv = |v: &Value| -> Value {
            if v.is_null() {
                Value::Null
            } else {
                let b: Bitvector = serde_json::from_value(v.clone()).unwrap();
                jv(bits, b.try_to_i128().unwrap())
            }
        };
        json!({
            "w": bits,
            "s": bv(&j["interval"]["start"]),
            "e": bv(&j["interval"]["end"]),
            "st": j["interval"]["stride"],
            "lo": bv(&j["widening_lower_bound"]),
            "up": bv(&j["widening_upper_bound"]),
            "d": j["widening_delay"],
        })
    }
    fn dec(v: &Value) -> Self {
        let w = v["w"].as_u64().unwrap();
        let bv = |x: &Value| -> Value {
            if x.is_null() {
                Value::Null
            } else {
                serde_json::to_value(bv_signed(w, get_i128(x))).unwrap()
            }
        };
        serde_json::from_value(json!({
            "interval": {"start": bv(&v["s"]), "end": bv(&v["e"]), "stride": v["st"]},
            "widening_upper_bound": bv(&v["up"]),
            "widening_lower_bound": bv(&v["lo"]),
            "widening_delay": v["d"],
        }))
        .unwrap()
    }
}

/// the four abstract identifiers used in `DataDomain` values, in `Ord` order
fn ids() -> Vec<AbstractIdentifier> {
    let mut v: Vec<AbstractIdentifier> = (0..4)
        .map(|i| {
            AbstractIdentifier::from_var(
                Tid::new(format!("t{}", i)),
                &Variable { name: format!("R{}", 3 - i), size: ByteSize::new(8), is_temp: false },
            )
        })
        .collect();
    v.sort();
    v
}

impl<T: RegisterDomain + Enc> Enc for DataDomain<T> {
    fn enc(&self) -> Value {
        let idv = ids();
        let rel: Vec<Value> = self
            .get_relative_values()
            .iter()
            .map(|(id, t)| json!([idv.iter().position(|x| x == id).unwrap(), t.enc()]))
            .collect();
        json!({
            "size": u64::from(self.bytesize()),
            "rel": rel,
            "abs": self.get_absolute_value().map(|t| t.enc()),
            "top": self.contains_top(),
        })
    }
    fn dec(v: &Value) -> Self {
        let idv = ids();
        let mut d = DataDomain::new_empty(ByteSize::new(v["size"].as_u64().unwrap()));
        let rel: BTreeMap<AbstractIdentifier, T> = v["rel"]
            .as_array()
            .unwrap()
            .iter()
            .map(|e| (idv[e[0].as_u64().unwrap() as usize].clone(), T::dec(&e[1])))
            .collect();
        d.set_relative_values(rel);
        if !v["abs"].is_null() {
            d.set_absolute_value(Some(T::dec(&v["abs"])));
        }
        if v["top"].as_bool().unwrap() {
            d.set_contains_top_flag();
        }
        d
    }
}

impl<V: AbstractDomain + Enc, S: MapMergeStrategy<u64, V> + Clone + Eq> Enc for DomainMap<u64, V, S> {
    fn enc(&self) -> Value {
        Value::Array(self.iter().map(|(k, v)| json!([k, v.enc()])).collect())
    }
    fn dec(v: &Value) -> Self {
        let m: BTreeMap<u64, V> =
            v.as_array().unwrap().iter().map(|e| (e[0].as_u64().unwrap(), V::dec(&e[1]))).collect();
        m.into()
    }
}

impl<T: AbstractDomain + SizedDomain + HasTop + std::fmt::Debug + Enc> Enc for MemRegion<T> {
    fn enc(&self) -> Value {
        json!({
            "ab": u64::from(self.get_address_bytesize()),
            "vals": self.iter().map(|(k, v)| json!([k, v.enc()])).collect::<Vec<_>>(),
        })
    }
    /// entries of a region never overlap and are never top, so re-inserting them in key order
    /// reproduces the region exactly
    fn dec(v: &Value) -> Self {
        let mut r = MemRegion::new(ByteSize::new(v["ab"].as_u64().unwrap()));
        for e in v["vals"].as_array().unwrap() {
            r.insert_at_byte_index(T::dec(&e[1]), e[0].as_i64().unwrap());
        }
        r
    }
}

// ---------------------------------------------------------------------------------------------
// the real code

fn run<V: AbstractDomain + Enc + std::panic::RefUnwindSafe>(a: &V, b: &V) -> Value {
    let r = catch(|| {
        let m = a.merge(b);
        let mut mw = a.clone();
        mw.merge_with(b);
        let m2 = m.merge(b);
        let maa = a.merge(a);
        let mut mwaa = a.clone();
        mwaa.merge_with(a);
        json!({"m": m.enc(), "mw": mw.enc(), "m2": m2.enc(), "maa": maa.enc(), "mwaa": mwaa.enc(),
               "top": [a.is_top(), b.is_top(), m.is_top()]})
    });
    match r {
        Ok(v) => v,
        Err(p) => Value::String(format!("panic:{}", p.replace(' ', "_"))),
    }
}

fn run_enc<V: AbstractDomain + Enc + std::panic::RefUnwindSafe>(a: &Value, b: &Value) -> Value {
    run(&V::dec(a), &V::dec(b))
}

/// dispatch on (kind, value kind, strategy)
fn eval(kind: &str, vk: &str, strat: &str, a: &Value, b: &Value) -> Value {
    type DB = DataDomain<BitvectorDomain>;
    type DI = DataDomain<IntervalDomain>;
    macro_rules! maps {
        ($v:ty) => {
            match strat {
                "union" => run_enc::<DomainMap<u64, $v, UnionMergeStrategy>>(a, b),
                "intersect" => run_enc::<DomainMap<u64, $v, IntersectMergeStrategy>>(a, b),
                "mergetop" => run_enc::<DomainMap<u64, $v, MergeTopStrategy>>(a, b),
                _ => Value::String("unknown-strategy".into()),
            }
        };
    }
    match (kind, vk) {
        ("val", "bv") => run_enc::<BitvectorDomain>(a, b),
        ("val", "taint") => run_enc::<Taint>(a, b),
        ("val", "iv") => run_enc::<IntervalDomain>(a, b),
        ("val", "data_bv") => run_enc::<DB>(a, b),
        ("val", "data_iv") => run_enc::<DI>(a, b),
        ("map", "bv") => maps!(BitvectorDomain),
        ("map", "taint") => maps!(Taint),
        ("map", "iv") => maps!(IntervalDomain),
        ("map", "data_bv") => maps!(DB),
        ("map", "data_iv") => maps!(DI),
        ("mem", "bv") => run_enc::<MemRegion<BitvectorDomain>>(a, b),
        ("mem", "iv") => run_enc::<MemRegion<IntervalDomain>>(a, b),
        ("mem", "data_bv") => run_enc::<MemRegion<DB>>(a, b),
        ("mem", "data_iv") => run_enc::<MemRegion<DI>>(a, b),
        ("mem", "taint") => run_enc::<MemRegion<Taint>>(a, b),
        _ => Value::String("unknown-kind".into()),
    }
}

// ---------------------------------------------------------------------------------------------
// generators (all produce encoded values; the real values are built by `dec`)

fn gen_bv(rng: &mut Rng, size: u64) -> Value {
    if rng.chance(1, 4) {
        json!({"t": size})
    } else {
        let mask = if size >= 8 { u64::MAX } else { (1u64 << (8 * size)) - 1 };
        let pool = [0u64, 1, 2, 0x7f, 0x80, 0xff, u64::MAX];
        let v = if rng.chance(3, 4) { *rng.pick(&pool) } else { rng.biased((8 * size) as u32) };
        json!({"v": [size, v & mask]})
    }
}

fn gen_taint(rng: &mut Rng, size: u64) -> Value {
    if rng.chance(1, 2) {
        json!({"T": size})
    } else {
        json!({"U": size})
    }
}

fn smin(bits: u64) -> i128 {
    if bits >= 128 { i128::MIN } else { -(1i128 << (bits - 1)) }
}
fn smax(bits: u64) -> i128 {
    if bits >= 128 { i128::MAX } else { (1i128 << (bits - 1)) - 1 }
}

/// a signed value of `bits` bits, biased towards the boundaries and small numbers
/// (for 128 bits also towards multiples of 2^64, where `try_to_u64` starts to fail)
fn gen_sval(rng: &mut Rng, bits: u64) -> i128 {
    let (lo, hi) = (smin(bits), smax(bits));
    match rng.below(8) {
        0 => lo,
        1 => hi,
        2 => lo + rng.below(6) as i128,
        3 => hi - rng.below(6) as i128,
        4 | 5 => (rng.range(-20, 20) as i128).clamp(lo, hi),
        6 if bits > 64 => {
            let k = rng.range(-3, 3) as i128;
            (k << 64) + rng.range(-4, 4) as i128
        }
        _ => {
            if bits == 8 {
                rng.range(-128, 127) as i128
            } else if bits <= 64 {
                let x = rng.next() as i64;
                (if bits >= 64 { x } else { (x << (64 - bits)) >> (64 - bits) }) as i128
            } else {
                let x = ((rng.next() as u128) << 64 | rng.next() as u128) as i128;
                x >> rng.below(100)
            }
        }
    }
}

/// IntervalDomain: mostly well-formed (stride divides the length, 0 iff singleton), arbitrary hints
/// and delays; `raw` = unconstrained fields (start > end, stride not dividing, ...).
fn gen_iv(rng: &mut Rng, bits: u64, raw: bool) -> Value {
    let (lo, hi) = (smin(bits), smax(bits));
    if rng.chance(1, 24) {
        return json!({"w": bits, "s": jv(bits, lo), "e": jv(bits, hi), "st": 1, "lo": null, "up": null, "d": 0});
    }
    let hint = |rng: &mut Rng, base: i128, below: bool| -> Value {
        match rng.below(5) {
            0 | 1 => Value::Null,
            2 => jv(bits, gen_sval(rng, bits)),
            _ => {
                let span = if rng.chance(1, 2) { 6 } else { 60 };
                let d = 1 + rng.below(span) as i128;
                let x = if below { base.checked_sub(d) } else { base.checked_add(d) };
                match x {
                    Some(x) if x >= lo && x <= hi => jv(bits, x),
                    _ => Value::Null,
                }
            }
        }
    };
    let (s, e, st) = if raw {
        let s = gen_sval(rng, bits);
        let e = gen_sval(rng, bits);
        let st = match rng.below(4) {
            0 => 0,
            1 => 1,
            _ => rng.below(9),
        };
        (s, e, st)
    } else {
        let s = gen_sval(rng, bits);
        let st: u64 = match rng.below(10) {
            0 | 1 => 0,
            2 | 3 | 4 => 1,
            5 => 2,
            6 => 3,
            7 => 4,
            8 => 1 + rng.below(16),
            _ => 1 + rng.below(if bits == 8 { 100 } else { 100_000 }),
        };
        let room = hi.wrapping_sub(s) as u128; // hi >= s, the difference fits in u128
        let maxn = if st == 0 { 0 } else { room / st as u128 };
        let n: u128 = if maxn == 0 {
            0
        } else if bits > 64 && rng.chance(1, 3) {
            // long intervals: lengths around and above 2^64
            let k = ((1u128 << 64) / st as u128) * (1 + rng.below(3) as u128) + rng.below(3) as u128;
            k.min(maxn)
        } else {
            let cap = maxn.min(if rng.chance(1, 2) { 5 } else { 300 }) as u64;
            rng.below(cap + 1) as u128
        };
        if n == 0 || st == 0 {
            (s, s, 0)
        } else {
            (s, s.wrapping_add((st as u128 * n) as i128), st)
        }
    };
    let lo_h = hint(rng, s, true);
    let up_h = hint(rng, e, false);
    let len = if e >= s { e.wrapping_sub(s) as u128 } else { s.wrapping_sub(e) as u128 };
    let len64 = if len > u64::MAX as u128 { u64::MAX } else { len as u64 };
    let d = match rng.below(7) {
        0 | 1 | 2 => 0,
        3 => len64,
        4 => rng.below(10),
        5 => rng.below(300),
        _ => u64::MAX - rng.below(3),
    };
    json!({"w": bits, "s": jv(bits, s), "e": jv(bits, e), "st": st, "lo": lo_h, "up": up_h, "d": d})
}

fn gen_val(rng: &mut Rng, vk: &str, size: u64) -> Value {
    match vk {
        "bv" => gen_bv(rng, size),
        "taint" => gen_taint(rng, size),
        "iv" => gen_iv(rng, 8 * size, false),
        "data_bv" => gen_data(rng, "bv", size),
        "data_iv" => gen_data(rng, "iv", size),
        _ => unreachable!(),
    }
}

fn gen_data(rng: &mut Rng, tk: &str, size: u64) -> Value {
    match rng.below(12) {
        0 => return json!({"size": size, "rel": [], "abs": null, "top": true}),
        1 => return json!({"size": size, "rel": [], "abs": null, "top": false}),
        _ => {}
    }
    let mut rel = Vec::new();
    for i in 0..4 {
        if rng.chance(1, 3) {
            rel.push(json!([i, gen_val(rng, tk, size)]));
        }
    }
    let abs = if rng.chance(1, 2) { gen_val(rng, tk, size) } else { Value::Null };
    json!({"size": size, "rel": rel, "abs": abs, "top": rng.chance(1, 4)})
}

/// a value "related" to `a`: equal, or equal up to one component, or independent
fn gen_related(rng: &mut Rng, vk: &str, size: u64, a: &Value) -> Value {
    match rng.below(8) {
        0 => a.clone(),
        1 | 2 if vk.starts_with("data") => {
            let mut b = a.clone();
            let tk = &vk[5..];
            match rng.below(4) {
                0 => b["abs"] = if rng.chance(1, 3) { Value::Null } else { gen_val(rng, tk, size) },
                1 => b["top"] = json!(!a["top"].as_bool().unwrap()),
                2 => {
                    let arr = b["rel"].as_array_mut().unwrap();
                    if !arr.is_empty() {
                        let i = rng.below(arr.len() as u64) as usize;
                        if rng.chance(1, 2) {
                            arr.remove(i);
                        } else {
                            arr[i][1] = gen_val(rng, tk, size);
                        }
                    }
                }
                _ => {
                    let arr = b["rel"].as_array_mut().unwrap();
                    let id = rng.below(4);
                    if !arr.iter().any(|e| e[0].as_u64() == Some(id)) {
                        arr.push(json!([id, gen_val(rng, tk, size)]));
                        arr.sort_by_key(|e| e[0].as_u64());
                    }
                }
            }
            b
        }
        1 | 2 if vk == "iv" => {
            // same interval, different hints / delay, or a neighbouring interval
            let mut b = a.clone();
            let bits = 8 * size;
            match rng.below(4) {
                0 => b["d"] = json!(rng.below(20)),
                1 => b["lo"] = if rng.chance(1, 3) { Value::Null } else { jv(bits, gen_sval(rng, bits)) },
                2 => b["up"] = if rng.chance(1, 3) { Value::Null } else { jv(bits, gen_sval(rng, bits)) },
                _ => {
                    // shift by a multiple of the stride (loop counter pattern)
                    let st = a["st"].as_u64().unwrap().max(1) as i128;
                    let k = st * (1 + rng.below(3) as i128);
                    if let (Some(s), Some(e)) = (get_i128(&a["s"]).checked_add(k), get_i128(&a["e"]).checked_add(k)) {
                        if e <= smax(bits) && s <= e {
                            b["s"] = jv(bits, s);
                            b["e"] = jv(bits, e);
                        }
                    }
                }
            }
            b
        }
        _ => gen_val(rng, vk, size),
    }
}

fn size_of_key(k: u64) -> u64 {
    [1, 8, 4, 1, 8, 2, 1, 8][(k % 8) as usize]
}

fn gen_map(rng: &mut Rng, vk: &str) -> Value {
    let n = rng.below(7);
    let mut m: BTreeMap<u64, Value> = BTreeMap::new();
    for _ in 0..n {
        let k = rng.below(8);
        m.insert(k, gen_val(rng, vk, size_of_key(k)));
    }
    Value::Array(m.into_iter().map(|(k, v)| json!([k, v])).collect())
}

fn gen_related_map(rng: &mut Rng, vk: &str, a: &Value) -> Value {
    match rng.below(6) {
        0 => a.clone(),
        1 | 2 | 3 => {
            let mut m: BTreeMap<u64, Value> =
                a.as_array().unwrap().iter().map(|e| (e[0].as_u64().unwrap(), e[1].clone())).collect();
            for _ in 0..(1 + rng.below(3)) {
                let k = rng.below(8);
                match rng.below(3) {
                    0 => {
                        m.remove(&k);
                    }
                    1 => {
                        m.insert(k, gen_val(rng, vk, size_of_key(k)));
                    }
                    _ => {
                        if let Some(v) = m.get(&k).cloned() {
                            m.insert(k, gen_related(rng, vk, size_of_key(k), &v));
                        }
                    }
                }
            }
            Value::Array(m.into_iter().map(|(k, v)| json!([k, v])).collect())
        }
        _ => gen_map(rng, vk),
    }
}

/// a memory region from a short history of writes, executed by the REAL `insert_at_byte_index`
fn gen_mem_history(rng: &mut Rng, vk: &str, prefix: &[(i64, Value)]) -> Vec<(i64, Value)> {
    let mut h = prefix.to_vec();
    let n = rng.below(6);
    for _ in 0..n {
        let size = *rng.pick(&[1u64, 4, 8, 8]);
        let pos = match rng.below(3) {
            0 => rng.range(-3, 3) * 8,
            1 => rng.range(-6, 6) * 4,
            _ => rng.range(-20, 20),
        };
        h.push((pos, gen_val(rng, vk, size)));
    }
    h
}

fn mem_from_history(vk: &str, h: &[(i64, Value)]) -> Value {
    fn build<T: AbstractDomain + SizedDomain + HasTop + std::fmt::Debug + Enc>(h: &[(i64, Value)]) -> Value {
        let mut r: MemRegion<T> = MemRegion::new(ByteSize::new(8));
        for (p, v) in h {
            r.insert_at_byte_index(T::dec(v), *p);
        }
        r.enc()
    }
    match vk {
        "bv" => build::<BitvectorDomain>(h),
        "iv" => build::<IntervalDomain>(h),
        "taint" => build::<Taint>(h),
        "data_bv" => build::<DataDomain<BitvectorDomain>>(h),
        "data_iv" => build::<DataDomain<IntervalDomain>>(h),
        _ => unreachable!(),
    }
}

// ---------------------------------------------------------------------------------------------

fn emit(out: &mut Out, kind: &str, vk: &str, strat: &str, a: &Value, b: &Value) {
    let r = eval(kind, vk, strat, a, b);
    let line = json!({"kind": kind, "vk": vk, "s": strat, "a": a, "b": b, "impl": r}).to_string();
    out.count(&format!("kind:{}-{}{}{}", kind, vk, if strat.is_empty() { "" } else { "-" }, strat));
    let nontrivial = match &r {
        Value::String(_) => {
            out.count("res:panic");
            false
        }
        o => {
            let m = &o["m"];
            if a == b {
                out.count("pair:equal");
            }
            if m != a && m != b {
                out.count("res:proper-merge");
                true
            } else {
                out.count("res:one-input");
                false
            }
        }
    };
    let key = format!("{}|{}|{}|{}|{}", kind, vk, strat, a, b);
    out.case(&line, if nontrivial { Some(&key) } else { None });
}

fn main() {
    quiet_panics();
    let args = Args::parse();
    let mut out = Out::new(
        &args,
        "pairs (a,b) of abstract values of one kind: BitvectorDomain, Taint, IntervalDomain (1/4/8/16 bytes, well-formed with \
         arbitrary hints and delays, plus a raw stream), DataDomain<Bitvector|Interval> over 4 ids, DomainMap with 0-6 of 8 keys \
         under Union/Intersect/MergeTop over each value kind, MemRegion from write histories; b independent, equal or a small \
         edit of a; real merge, merge_with, merge(merge(a,b),b), merge(a,a) executed; non-trivial = merge result differs from \
         both inputs; distinct by (kind, a, b)",
    );
    if let Some(lines) = args.replay_lines() {
        for line in lines {
            let v: Value = serde_json::from_str(&line).expect("replay line");
            emit(
                &mut out,
                v["kind"].as_str().unwrap(),
                v["vk"].as_str().unwrap(),
                v["s"].as_str().unwrap_or(""),
                &v["a"],
                &v["b"],
            );
        }
        out.finish();
        return;
    }
    let mut rng = Rng::new(args.seed);
    let kinds: Vec<String> = args
        .extra
        .get("kinds")
        .cloned()
        .unwrap_or_else(|| "bv,taint,iv,data_bv,data_iv".into())
        .split(',')
        .map(|s| s.to_string())
        .collect();
    let has = |k: &str| kinds.iter().any(|x| x == k);
    let with_maps = !args.extra.contains_key("nomaps");
    let with_mem = !args.extra.contains_key("nomem");

    // plain values
    let n_small = args.num("small", 1500, 40_000);
    let n_iv = args.num("iv", 45_000, 600_000);
    let n_data = args.num("data", 5000, 80_000);
    let n_map = args.num("maps", 700, 10_000);
    let n_mem = args.num("mem", 1500, 25_000);
    for vk in ["bv", "taint"] {
        if !has(vk) {
            continue;
        }
        for _ in 0..n_small {
            let size = *rng.pick(&[1u64, 1, 4, 8]);
            let a = gen_val(&mut rng, vk, size);
            // a small share of pairs mixes sizes (outside the property; model = implementation only)
            let size_b = if rng.chance(1, 16) { *rng.pick(&[1u64, 4, 8]) } else { size };
            let b = gen_related(&mut rng, vk, size_b, &a);
            emit(&mut out, "val", vk, "", &a, &b);
        }
    }
    if has("iv") {
        for i in 0..n_iv {
            let bits = if i % 16 == 15 { 128 } else if i % 8 < 6 { 8 } else if i % 8 == 6 { 32 } else { 64 };
            let raw = rng.chance(1, 16);
            let a = gen_iv(&mut rng, bits, raw);
            let raw_b = rng.chance(1, 2);
            let b = if raw { gen_iv(&mut rng, bits, raw_b) } else { gen_related(&mut rng, "iv", bits / 8, &a) };
            emit(&mut out, "val", "iv", "", &a, &b);
        }
    }
    for vk in ["data_bv", "data_iv"] {
        if !has(&vk[5..]) || !has(vk) {
            continue;
        }
        for _ in 0..n_data {
            let size = *rng.pick(&[1u64, 1, 8]);
            let a = gen_val(&mut rng, vk, size);
            let b = gen_related(&mut rng, vk, size, &a);
            emit(&mut out, "val", vk, "", &a, &b);
        }
    }
    if with_maps {
        for vk in ["bv", "taint", "iv", "data_bv", "data_iv"] {
            if !has(vk) {
                continue;
            }
            for strat in ["union", "intersect", "mergetop"] {
                for _ in 0..n_map {
                    let a = gen_map(&mut rng, vk);
                    let b = gen_related_map(&mut rng, vk, &a);
                    emit(&mut out, "map", vk, strat, &a, &b);
                }
            }
        }
    }
    if with_mem {
        for vk in ["bv", "iv", "data_bv", "data_iv", "taint"] {
            if !has(vk) {
                continue;
            }
            for _ in 0..n_mem {
                let ha = gen_mem_history(&mut rng, vk, &[]);
                let hb = match rng.below(4) {
                    0 => ha.clone(),
                    1 | 2 => gen_mem_history(&mut rng, vk, &ha),
                    _ => gen_mem_history(&mut rng, vk, &[]),
                };
                let a = mem_from_history(vk, &ha);
                let b = mem_from_history(vk, &hb);
                emit(&mut out, "mem", vk, "", &a, &b);
            }
        }
    }
    out.finish();
}
