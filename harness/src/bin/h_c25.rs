//! C25 harness: drives the real `LogThread::spawn(LogThread::collect_and_deduplicate)` /
//! `get_msg_sender` / `collect` with real sender threads.
//!
//! case line: {"mode": "single"|"multi", "threads": [[msg…]…], "raw": [[LogThreadMsg as serde JSON…]…],
//!             "impl": {"logs": [msg…], "cwes": [msg…]} | "panic"}
//!   msg: {"t":"L","id":…,"a":null|address} | {"t":"C","id":…,"as":[addresses]} | {"t":"T"}
//! `id` is a digest of every field of the message other than the addresses. In "alphabet" cases the
//! message contents are drawn from a small shared alphabet, so fully identical messages occur within a
//! thread (runs of 2-4 equal messages, A,B,A patterns) and across threads; the identity of a message is
//! only its position in the recorded per-thread sequence, never part of the message. In "unique" cases
//! the text carries (thread, sequence number).
//!  * single: one sender; the history may contain an explicit `Terminate` and warnings without
//!    address (collector panics); the result must be exactly the model's.
//!  * multi: 2-6 sender threads released by a barrier, random yields/spins between sends, all
//!    senders joined before `collect()`; the Lean driver looks for an interleaving explaining the result.
use cwe_checker_lib::intermediate_representation::Tid;
use cwe_checker_lib::utils::log::{CweWarning, LogLevel, LogMessage, LogThread, LogThreadMsg};
use std::sync::{Arc, Barrier};
use verif_harness::*;

fn log_json(l: &LogMessage) -> Value {
    let id = format!(
        "{}|{:?}|{}|{}",
        l.text,
        l.level,
        l.source.as_deref().unwrap_or("-"),
        l.location.as_ref().map(|t| t.to_string()).unwrap_or_else(|| "-".into())
    );
    json!({"t": "L", "id": id, "a": l.location.as_ref().map(|t| t.address.clone())})
}

fn cwe_json(w: &CweWarning) -> Value {
    let id = format!(
        "{}|{}|{}|{}|{:?}|{}",
        w.name,
        w.version,
        w.tids.join(","),
        w.symbols.join(","),
        w.other,
        w.description
    );
    json!({"t": "C", "id": id, "as": w.addresses})
}

fn msg_json(m: &LogThreadMsg) -> Value {
    match m {
        LogThreadMsg::Log(l) => log_json(l),
        LogThreadMsg::Cwe(w) => cwe_json(w),
        LogThreadMsg::Terminate => json!({"t": "T"}),
    }
}

const ADDRS: &[&str] = &[
    "00401000", "0040100a", "00401000_1", "9", "10", "100", "UNKNOWN", "", "0", "ffff0000", "FFFF0000", "00400fff",
];

struct Case {
    mode: &'static str,
    threads: Vec<Vec<LogThreadMsg>>,
    /// per message: (kind of pause, amount) before the send
    pauses: Vec<Vec<(u8, u32)>>,
    sender_on_main: bool,
    unique: bool,
    /// stream tag carried into the case line ("" or "slow-sender-gap")
    tag: &'static str,
}

/// a message whose whole content comes from a small alphabet (so that equal messages are frequent)
fn gen_small_msg(rng: &mut Rng, pool: &[&str], single: bool) -> LogThreadMsg {
    let k = rng.below(100);
    if single && k < 2 {
        return LogThreadMsg::Terminate;
    }
    if k < 45 {
        // address-less log: text A/B/C, mostly the same level and no source
        let text = *rng.pick(&["A", "A", "B", "C"]);
        let mut l = if rng.chance(4, 5) { LogMessage::new_info(text) } else { LogMessage::new_debug(text) };
        if rng.chance(1, 6) {
            l = l.source("src");
        }
        LogThreadMsg::Log(l)
    } else if k < 72 {
        let text = *rng.pick(&["X", "X", "Y"]);
        let mut tid = Tid::new(*rng.pick(&["blk_1", "blk_1", "blk_2"]));
        tid.address = rng.pick(pool).to_string();
        LogThreadMsg::Log(LogMessage::new_debug(text).location(tid))
    } else {
        let mut w = CweWarning::new(*rng.pick(&["CWE476", "CWE476", "CWE416"]), "0.3", *rng.pick(&["(desc) W", "(desc) W", "(desc) V"]));
        let n = if single && rng.chance(1, 80) { 0 } else { 1 + rng.below(2) };
        w = w.addresses((0..n).map(|_| rng.pick(pool).to_string()).collect());
        LogThreadMsg::Cwe(w)
    }
}

fn gen_msg(rng: &mut Rng, pool: &[&str], thread: usize, seq: usize, single: bool) -> LogThreadMsg {
    let tag = format!("t{}s{}", thread, seq);
    let k = rng.below(100);
    if single && k < 3 {
        return LogThreadMsg::Terminate;
    }
    if k < 40 {
        // log, with or without location
        let mut l = match rng.below(3) {
            0 => LogMessage::new_info(tag.clone()),
            1 => LogMessage::new_debug(tag.clone()),
            _ => LogMessage::new_error(tag.clone()),
        };
        if rng.chance(1, 2) {
            l = l.source(*rng.pick(&["Pointer Inference", "CWE476", "src"]));
        }
        if rng.chance(1, 2) {
            let mut tid = Tid::new(format!("instr_{}_{}", tag, rng.below(3)));
            tid.address = rng.pick(pool).to_string();
            l = l.location(tid);
        }
        LogThreadMsg::Log(l)
    } else if k < 70 {
        let mut l = LogMessage::new_debug(tag.clone());
        let mut tid = Tid::new(format!("blk_{}", tag));
        tid.address = rng.pick(pool).to_string();
        l = l.location(tid);
        LogThreadMsg::Log(l)
    } else {
        let mut w = CweWarning::new(
            *rng.pick(&["CWE476", "CWE416", "CWE119"]),
            "0.3",
            format!("(desc) {}", tag),
        );
        let n = if single && rng.chance(1, 60) { 0 } else { 1 + rng.below(3) };
        w = w.addresses((0..n).map(|_| rng.pick(pool).to_string()).collect());
        if rng.chance(1, 2) {
            w = w.tids(vec![format!("tid_{}", tag)]);
        }
        if rng.chance(1, 3) {
            w = w.symbols(vec!["malloc".into()]);
        }
        if rng.chance(1, 4) {
            w = w.other(vec![vec!["k".into(), tag.clone()]]);
        }
        LogThreadMsg::Cwe(w)
    }
}

fn gen_case(rng: &mut Rng, single: bool) -> Case {
    let npool = 1 + rng.below(5) as usize;
    let mut pool: Vec<&str> = Vec::new();
    for _ in 0..npool {
        pool.push(*rng.pick(ADDRS));
    }
    let nthreads = if single { 1 } else { 2 + rng.below(5) as usize };
    let maxlen = if single { 20 } else { *rng.pick(&[2u64, 4, 8, 12]) };
    let mut threads = Vec::new();
    let mut pauses = Vec::new();
    let unique = rng.chance(3, 10);
    for t in 0..nthreads {
        let n = rng.below(maxlen + 1) as usize;
        let mut msgs: Vec<LogThreadMsg> = Vec::new();
        while msgs.len() < n {
            let s = msgs.len();
            let m = if unique { gen_msg(rng, &pool, t, s, single) } else { gen_small_msg(rng, &pool, single) };
            // runs of 2-4 equal messages
            let reps = if !unique && rng.chance(1, 4) { 2 + rng.below(3) as usize } else { 1 };
            for _ in 0..reps {
                if msgs.len() < n {
                    msgs.push(m.clone());
                }
            }
        }
        threads.push(msgs);
        let style = rng.below(4);
        pauses.push(
            (0..n)
                .map(|_| match style {
                    0 => (0u8, 0u32),
                    1 => (1, rng.below(3) as u32),
                    2 => (2, rng.below(400) as u32),
                    _ => match rng.below(8) {
                        0 => (3, rng.below(30) as u32),
                        1 | 2 => (1, 1 + rng.below(2) as u32),
                        3 | 4 => (2, rng.below(2000) as u32),
                        _ => (0, 0),
                    },
                })
                .collect::<Vec<_>>(),
        );
    }
    Case { mode: if single { "single" } else { "multi" }, threads, pauses, sender_on_main: single && rng.chance(1, 2), unique, tag: "" }
}

/// "slow sender": messages of every kind, an idle gap of `gap_ms` (the sender sleeps), then messages of
/// every kind again (address-less logs, logs with address, warnings for a fresh and for an already used
/// address). With `two_threads` a second sender sends a few messages right at the start.
fn gen_slow_case(rng: &mut Rng, gaps_ms: &[u32], two_threads: bool) -> Case {
    let info = |t: &str| LogThreadMsg::Log(LogMessage::new_info(t));
    let located = |t: &str, addr: &str| {
        let mut tid = Tid::new("blk_1");
        tid.address = addr.to_string();
        LogThreadMsg::Log(LogMessage::new_debug(t).location(tid))
    };
    let warn = |d: &str, addr: &str| {
        LogThreadMsg::Cwe(CweWarning::new("CWE476", "0.3", format!("(desc) {}", d)).addresses(vec![addr.to_string()]))
    };
    let pool = ["10", "9", "00401000"];
    let mut msgs: Vec<LogThreadMsg> = vec![info("A"), located("X", "10"), warn("W", "10"), warn("W", "9")];
    for _ in 0..rng.below(4) {
        msgs.push(gen_small_msg(rng, &pool, false));
    }
    rng.shuffle(&mut msgs);
    let mut pauses: Vec<(u8, u32)> = msgs.iter().map(|_| (0u8, 0u32)).collect();
    for (round, gap) in gaps_ms.iter().enumerate() {
        let fresh = format!("fresh{}", round);
        let mut after: Vec<LogThreadMsg> = vec![
            info("B"),
            info("A"),
            located("Y", "10"),
            located("X", &fresh),
            warn("V", &fresh),
            warn("V", "10"),
        ];
        for _ in 0..rng.below(4) {
            after.push(gen_small_msg(rng, &pool, false));
        }
        rng.shuffle(&mut after);
        for (i, m) in after.into_iter().enumerate() {
            msgs.push(m);
            pauses.push(if i == 0 { (4, *gap) } else { (0, 0) });
        }
    }
    let mut threads = vec![msgs];
    let mut all_pauses = vec![pauses];
    if two_threads {
        let n = 2 + rng.below(4) as usize;
        threads.push((0..n).map(|_| gen_small_msg(rng, &pool, false)).collect());
        all_pauses.push(vec![(0, 0); n]);
    }
    Case {
        mode: if two_threads { "multi" } else { "single" },
        threads,
        pauses: all_pauses,
        sender_on_main: false,
        unique: false,
        tag: "slow-sender-gap",
    }
}

fn pause(p: (u8, u32)) {
    match p.0 {
        1 => {
            for _ in 0..p.1 {
                std::thread::yield_now();
            }
        }
        2 => {
            for _ in 0..p.1 {
                std::hint::spin_loop();
            }
        }
        3 => std::thread::sleep(std::time::Duration::from_micros(p.1 as u64)),
        4 => std::thread::sleep(std::time::Duration::from_millis(p.1 as u64)),
        _ => {}
    }
}

/// run the real collector on the case
fn eval(c: &Case) -> Value {
    let threads = c.threads.clone();
    let pauses = c.pauses.clone();
    let on_main = c.sender_on_main;
    let r = catch(move || {
        let log_thread = LogThread::spawn(LogThread::collect_and_deduplicate);
        if on_main {
            let sender = log_thread.get_msg_sender();
            for (m, p) in threads[0].iter().zip(pauses[0].iter()) {
                pause(*p);
                let _ = sender.send(m.clone());
            }
        } else {
            let barrier = Arc::new(Barrier::new(threads.len()));
            let handles: Vec<_> = threads
                .into_iter()
                .zip(pauses.into_iter())
                .map(|(msgs, ps)| {
                    let sender = log_thread.get_msg_sender();
                    let barrier = barrier.clone();
                    std::thread::spawn(move || {
                        barrier.wait();
                        for (m, p) in msgs.into_iter().zip(ps.into_iter()) {
                            pause(p);
                            let _ = sender.send(m);
                        }
                    })
                })
                .collect();
            for h in handles {
                h.join().expect("sender thread");
            }
        }
        // every send has returned: collection is requested now
        log_thread.collect()
    });
    match r {
        Ok((logs, cwes)) => json!({
            "logs": logs.iter().map(log_json).collect::<Vec<_>>(),
            "cwes": cwes.iter().map(cwe_json).collect::<Vec<_>>(),
        }),
        Err(_) => json!("panic"),
    }
}

fn emit(out: &mut Out, c: &Case) {
    let r = eval(c);
    emit_with(out, c, r);
}

fn emit_with(out: &mut Out, c: &Case, r: Value) {
    let threads: Vec<Vec<Value>> = c.threads.iter().map(|t| t.iter().map(msg_json).collect()).collect();
    let raw: Vec<Vec<Value>> =
        c.threads.iter().map(|t| t.iter().map(|m| serde_json::to_value(m).unwrap()).collect()).collect();
    let pauses: Vec<Vec<(u8, u32)>> = c.pauses.clone();
    let line = json!({"mode": c.mode, "threads": threads, "raw": raw, "pauses": pauses, "main": c.sender_on_main, "tag": c.tag, "impl": r});
    if !c.tag.is_empty() {
        out.count(c.tag);
        let gap = c.pauses.iter().flatten().filter(|p| p.0 == 4).map(|p| p.1).max().unwrap_or(0);
        out.count(&format!("slow-sender-gap:max-gap-ms={}", gap));
    }
    let total: usize = c.threads.iter().map(|t| t.len()).sum();
    out.count(&format!("mode:{}", c.mode));
    out.count(if c.unique { "contents:unique" } else { "contents:small-alphabet" });
    {
        // identical messages: back-to-back within a thread, anywhere within a thread, across threads
        let all: Vec<String> = threads.iter().flatten().map(|m| m.to_string()).collect();
        let mut d = all.clone();
        d.sort();
        d.dedup();
        if d.len() < all.len() {
            out.count("case:with-identical-messages");
        }
        if threads.iter().any(|t| t.windows(2).any(|w| w[0] == w[1] && w[0]["t"] == "L" && w[0]["a"].is_null())) {
            out.count("case:with-back-to-back-identical-general-logs");
        }
    }
    out.count(&format!("threads:{}", c.threads.len()));
    out.count_n("messages_sent", total as u64);
    let mut nontrivial = false;
    if let Some(o) = r.as_object() {
        let n = o["logs"].as_array().unwrap().len() + o["cwes"].as_array().unwrap().len();
        out.count_n("messages_returned", n as u64);
        if n < total {
            out.count("case:with-dedup-or-cutoff");
        }
        // did the address-less logs of different threads visibly interleave?
        let owners: Vec<String> = o["logs"]
            .as_array()
            .unwrap()
            .iter()
            .filter(|l| l["a"].is_null())
            .map(|l| l["id"].as_str().unwrap().split('s').next().unwrap().to_string())
            .collect();
        let mut seen: Vec<&String> = Vec::new();
        let mut mixed = false;
        for t in &owners {
            if seen.last() == Some(&t) {
                continue;
            }
            if seen.contains(&t) {
                mixed = true;
            }
            seen.push(t);
        }
        if mixed && c.unique {
            out.count("multi:observed-interleaved-general-logs");
        }
        nontrivial = n > 0;
    } else {
        out.count("res:panic");
    }
    for t in &c.threads {
        for m in t {
            match m {
                LogThreadMsg::Terminate => out.count("msg:terminate"),
                LogThreadMsg::Cwe(w) if w.addresses.is_empty() => out.count("msg:cwe-no-address"),
                LogThreadMsg::Cwe(_) => out.count("msg:cwe"),
                LogThreadMsg::Log(l) if l.location.is_some() => out.count("msg:log-with-location"),
                LogThreadMsg::Log(_) => out.count("msg:log-general"),
            }
        }
    }
    let key = json!(threads).to_string();
    out.case(&line.to_string(), if nontrivial { Some(&key) } else { None });
}

fn main() {
    quiet_panics();
    let args = Args::parse();
    let mut out = Out::new(
        &args,
        "real LogThread + real std::thread senders; single: one sender, 0-20 messages (3% explicit Terminate, rare \
         address-less warning); multi: 2-6 senders x 0-12 messages released by a barrier with random \
         yield/spin/sleep pauses, all joined before collect(); 1-5 addresses per case so that keys collide within \
         and across threads; 70% of the cases draw message contents from a small alphabet with runs of 2-4 equal \
         messages (identical messages within and across threads), plus 8 directed histories ([A,A], [A,A,A,B,A], ...); slow-sender stream: histories with idle gaps of 1.2 s / 2.5 s (thorough: also 6 s / 11 s, several gaps) between messages of every kind, run concurrently; non-trivial = at least one message returned; distinct by the sent histories",
    );
    if let Some(lines) = args.replay_lines() {
        for line in lines {
            let v: Value = serde_json::from_str(&line).expect("replay line");
            let threads: Vec<Vec<LogThreadMsg>> =
                serde_json::from_value(v["raw"].clone()).expect("raw messages");
            let pauses: Vec<Vec<(u8, u32)>> = serde_json::from_value(v["pauses"].clone())
                .unwrap_or_else(|_| threads.iter().map(|t| vec![(0, 0); t.len()]).collect());
            let mode = if v["mode"].as_str() == Some("single") { "single" } else { "multi" };
            let c = Case { mode, threads, pauses, sender_on_main: v["main"].as_bool().unwrap_or(false), unique: false,
                tag: if v["tag"].as_str() == Some("slow-sender-gap") { "slow-sender-gap" } else { "" } };
            emit(&mut out, &c);
        }
        out.finish();
        return;
    }
    let mut rng = Rng::new(args.seed);
    // slow-sender stream: evaluated concurrently (own threads) while the other streams run, so the wall
    // time is one gap, not the sum
    let slow_specs: Vec<(Vec<u32>, bool)> = if args.tier == "quick" {
        vec![(vec![1200], false), (vec![2500], false), (vec![1200], true), (vec![2500], true)]
    } else {
        vec![
            (vec![1200], false), (vec![2500], false), (vec![6000], false), (vec![11000], false),
            (vec![1200], true), (vec![2500], true), (vec![6000], true), (vec![11000], true),
            (vec![1200, 2500], false), (vec![2500, 6000], true), (vec![6000, 1200, 2500], false),
            (vec![1200, 1200, 1200], true), (vec![11000, 2500], false), (vec![2500, 2500], true),
        ]
    };
    let slow_cases: Vec<Case> = slow_specs.iter().map(|(g, two)| gen_slow_case(&mut rng, g, *two)).collect();
    let slow_handles: Vec<std::thread::JoinHandle<Value>> = slow_cases
        .iter()
        .map(|c| {
            let c2 = Case {
                mode: c.mode,
                threads: c.threads.clone(),
                pauses: c.pauses.clone(),
                sender_on_main: c.sender_on_main,
                unique: c.unique,
                tag: c.tag,
            };
            std::thread::spawn(move || eval(&c2))
        })
        .collect();
    let n_single = args.num("single", 2500, 60000);
    let n_multi = args.num("multi", 3500, 100000);
    // directed, always-run histories with identical messages
    {
        let a = || LogThreadMsg::Log(LogMessage::new_info("A"));
        let b = || LogThreadMsg::Log(LogMessage::new_info("B"));
        let x = |addr: &str| {
            let mut tid = Tid::new("blk_1");
            tid.address = addr.to_string();
            LogThreadMsg::Log(LogMessage::new_debug("X").location(tid))
        };
        let w = |addr: &str| LogThreadMsg::Cwe(CweWarning::new("CWE476", "0.3", "(desc) W").addresses(vec![addr.to_string()]));
        let directed: Vec<Vec<Vec<LogThreadMsg>>> = vec![
            vec![vec![a(), a()]],
            vec![vec![a(), a(), a(), b(), a()]],
            vec![vec![a(), b(), a()]],
            vec![vec![x("10"), x("10")]],
            vec![vec![x("10"), a(), a(), x("10"), w("10"), w("10"), a()]],
            vec![vec![a(), a()], vec![a(), a()]],
            vec![vec![a(), b(), a()], vec![a(), a(), b()], vec![b(), b()]],
            vec![vec![x("10"), x("10")], vec![x("10")], vec![w("9"), w("9")], vec![w("9")]],
        ];
        for threads in directed {
            let pauses = threads.iter().map(|t| vec![(0u8, 0u32); t.len()]).collect();
            let single = threads.len() == 1;
            let c = Case { mode: if single { "single" } else { "multi" }, threads, pauses, sender_on_main: false, unique: false, tag: "" };
            out.count("directed");
            emit(&mut out, &c);
        }
    }
    for _ in 0..n_single {
        let c = gen_case(&mut rng, true);
        emit(&mut out, &c);
    }
    for _ in 0..n_multi {
        let c = gen_case(&mut rng, false);
        emit(&mut out, &c);
    }
    for (c, h) in slow_cases.iter().zip(slow_handles.into_iter()) {
        let r = h.join().unwrap_or_else(|_| json!("panic"));
        emit_with(&mut out, c, r);
    }
    out.finish();
}
