//! C13 harness: drives the real pointer inference (`get_program_cfg` -> `compute_function_signatures`
//! -> `PointerInference` fixpoint) on generated single-function programs over registers and stack
//! memory at constant offsets, and dumps what the analysis knows at every block start and block end.
//!
//! Case kinds (field `q`):
//! * `"pi"`: the analysed project (canonical JSON), the function, per block the analysis state at the
//!   `BlkStart` node (`S`) and the `BlkEnd` node (`E`): `null` if the node has no value, else the
//!   `Data` value of every physical register that is not `Top`
//!   (`{"rel":[[id index, interval]…], "abs": interval|null, "top": bool}`, intervals as
//!   `{"w":bits,"s":start,"e":end,"st":stride}` with signed bounds); the table of abstract
//!   identifiers (`{"tid":…, "loc": AbstractLocation}`), the TIDs of the NULL-dereference warnings
//!   (CWE476 of the "Memory" module), whether the fixpoint stabilised, and the seeds of the concrete
//!   runs the Lean driver performs and, per run, explicit initial register values (`inits`, biased towards the
//!   constants the program compares with). Besides the random programs a directed set is always generated:
//!   one program per comparison operator × constant side × boundary constant (0, 1, -1, 2, MIN, MIN+1, MAX,
//!   MAX-1) × operand width (1, 2, 4, 8 bytes) × negation.
//! * `"null"`: one call of the real `State::check_def_for_null_dereferences` on a state whose address
//!   register holds a given `Data` value: the decision (`false`/`true`/`err`) and the register value
//!   afterwards.
//! * `"dd"`: one call of the real `<DataDomain<IntervalDomain> as RegisterDomain>::bin_op / un_op / cast /
//!   subpiece` on generated values (`a`, `b`; all private fields through the serde derives): the result.
//! * `"ev"`: one call of the real `pointer_inference::State::eval` on a state built with `State::new` +
//!   `set_register` (register values `regs`, known global addresses `globals`) and a generated
//!   well-sized expression: the result, and the binding of `TGT` after `handle_register_assign(TGT, expr)`.
//!   `DataDomain` values of these two kinds are written as `{"size","rel":[[id index, iv]…],"abs","top"}`
//!   with `iv = {"w","s","e","st","lo","up","d"}` (signed bounds/hints, decimal strings above 64 bit);
//!   identifier indices are positions in the `Ord`-sorted identifier pool `id_pool()`.
//! * `"ms"`: a sequence of `Def`s pushed through the real `Context::update_def` (the
//!   `forward_interprocedural_fixpoint::Context` implementation of the pointer inference, obtained from a real
//!   `PointerInference` of a one-block x86-64 project with an empty memory image) starting in a constructed
//!   state (`State::new` + `set_register`, optional extra memory objects / non-unique objects): the state after
//!   every `Def` (`{"regs":[[name,size,Data]…],"objs":[[id index, is_unique, [[offset, Data]…]]…]}`), `null`
//!   where `update_def` returned `None`.
//! * `"mg"`: the real `<State as AbstractDomain>::merge` in both orders on two states produced by `update_def` sequences.
//! * `"cs"`: the real `Context::update_call_stub` for one of the extern symbols of the harness project after a sequence.
//! * `"sc"`: one call of the real `Context::specialize_conditional(state, condition, block, is_true)` on a
//!   constructed register state: the specialised state or `null` ("unsatisfiable"). `hints` = concrete register
//!   values proposed to the driver's semantic check (solutions of `(x OP k) == c` and their neighbours for
//!   comparisons with a bitwise / arithmetic / shift operator inside); the driver uses those inside γ of the register.
use cwe_checker_lib::abstract_domain::{
    AbstractDomain, AbstractIdentifier, AbstractLocation, DataDomain, IntervalDomain, RegisterDomain, SizedDomain,
};
use cwe_checker_lib::analysis::forward_interprocedural_fixpoint::Context as _;
use cwe_checker_lib::analysis::graph::{get_program_cfg, Node};
use cwe_checker_lib::analysis::interprocedural_fixpoint_generic::NodeValue;
use cwe_checker_lib::analysis::pointer_inference::{Data, PointerInference, State as PiState};
use cwe_checker_lib::intermediate_representation::*;
use cwe_checker_lib::pipeline::AnalysisResults;
use std::collections::{BTreeMap, BTreeSet};
use verif_harness::ir::*;
use verif_harness::*;

const GPR: [&str; 14] = ["RAX", "RBX", "RCX", "RDX", "RSI", "RDI", "R8", "R9", "R10", "R11", "R12", "R13", "R14", "R15"];
const FLAGS: [&str; 4] = ["ZF", "CF", "SF", "OF"];

// ------------------------------------------------------------------------------------------
// canonical JSON of analysis values

fn apint_signed(v: &Value) -> (u64, i64) {
    let w = v["width"][0].as_u64().expect("width");
    let d = v["digits"][0].as_u64().expect("digits");
    let s = if w >= 64 {
        d as i64
    } else if d >> (w - 1) & 1 == 1 {
        (d | (!0u64 << w)) as i64
    } else {
        d as i64
    };
    (w, s)
}

fn itv_json(i: &IntervalDomain) -> Value {
    let v = serde_json::to_value(i).expect("interval json");
    let (w, s) = apint_signed(&v["interval"]["start"]);
    let (_, e) = apint_signed(&v["interval"]["end"]);
    json!({"w": w, "s": s, "e": e, "st": v["interval"]["stride"]})
}

fn id_index(id: &AbstractIdentifier, ids: &mut Vec<Value>) -> usize {
    let j = json!({
        "tid": format!("{}", id.get_tid()),
        "loc": serde_json::to_value(id.get_location()).expect("location json"),
        "hints": id.get_path_hints().len(),
    });
    if let Some(k) = ids.iter().position(|x| *x == j) {
        k
    } else {
        ids.push(j);
        ids.len() - 1
    }
}

fn data_json(d: &Data, ids: &mut Vec<Value>) -> Value {
    let rel: Vec<Value> = d.get_relative_values().iter().map(|(id, off)| json!([id_index(id, ids), itv_json(off)])).collect();
    json!({
        "rel": rel,
        "abs": d.get_absolute_value().map(itv_json),
        "top": d.contains_top(),
    })
}

fn state_json(st: &PiState, regs: &[Variable], ids: &mut Vec<Value>) -> Value {
    let mut m = serde_json::Map::new();
    for r in regs {
        let d = st.get_register(r);
        if !d.is_top() {
            m.insert(r.name.clone(), data_json(&d, ids));
        }
    }
    Value::Object(m)
}


/// `Data` with identifiers numbered by a given table (positions in `Ord` order)
fn enc_data_tab(d: &Data, tab: &[AbstractIdentifier]) -> Value {
    let idx = |id: &AbstractIdentifier| tab.iter().position(|x| x == id).map(|p| p as i64).unwrap_or(-1);
    let rel: Vec<Value> = d.get_relative_values().iter().map(|(id, t)| json!([idx(id), enc_iv(t)])).collect();
    json!({"size": u64::from(d.bytesize()), "rel": rel, "abs": d.get_absolute_value().map(enc_iv), "top": d.contains_top()})
}

fn ids_of_state(st: &PiState, vars: &[Variable], acc: &mut BTreeSet<AbstractIdentifier>) {
    acc.insert(st.stack_id.clone());
    acc.insert(st.get_global_mem_id());
    for v in vars {
        acc.extend(st.get_register(v).referenced_ids().cloned());
    }
    for (id, obj) in st.memory.iter() {
        acc.insert(id.clone());
        acc.extend(obj.get_referenced_ids_overapproximation().iter().cloned());
        for (_off, d) in obj.get_mem_region().iter() {
            acc.extend(d.referenced_ids().cloned());
        }
    }
}

fn enc_state_tab(st: &PiState, vars: &[Variable], tab: &[AbstractIdentifier]) -> Value {
    let idx = |id: &AbstractIdentifier| tab.iter().position(|x| x == id).map(|p| p as i64).unwrap_or(-1);
    let mut regs = Vec::new();
    for v in vars {
        let d = st.get_register(v);
        if !d.is_top() {
            regs.push(json!([v.name, u64::from(v.size), enc_data_tab(&d, tab), v.is_temp]));
        }
    }
    let objs: Vec<Value> = st
        .memory
        .iter()
        .map(|(id, obj)| {
            let cells: Vec<Value> = obj.get_mem_region().iter().map(|(off, d)| json!([off, enc_data_tab(d, tab)])).collect();
            let targets: Vec<i64> = obj.get_referenced_ids_overapproximation().iter().map(idx).collect();
            json!([idx(id), obj.is_unique(), cells, targets])
        })
        .collect();
    json!({"regs": regs, "objs": objs})
}

/// all variables a state of the function may bind: the register set and every variable of the program text
fn program_vars(p: &Project) -> Vec<Variable> {
    let mut set: BTreeSet<Variable> = p.register_set.iter().cloned().collect();
    let mut add = |e: &Expression, set: &mut BTreeSet<Variable>| {
        for v in e.input_vars() {
            set.insert(v.clone());
        }
    };
    for sub in p.program.term.subs.values() {
        for blk in &sub.term.blocks {
            for d in &blk.term.defs {
                match &d.term {
                    Def::Assign { var, value } => {
                        set.insert(var.clone());
                        add(value, &mut set);
                    }
                    Def::Load { var, address } => {
                        set.insert(var.clone());
                        add(address, &mut set);
                    }
                    Def::Store { address, value } => {
                        add(address, &mut set);
                        add(value, &mut set);
                    }
                }
            }
            for j in &blk.term.jmps {
                match &j.term {
                    Jmp::CBranch { condition, .. } => add(condition, &mut set),
                    Jmp::BranchInd(e) | Jmp::Return(e) => add(e, &mut set),
                    Jmp::CallInd { target, .. } => add(target, &mut set),
                    _ => {}
                }
            }
        }
    }
    set.into_iter().collect()
}

// ------------------------------------------------------------------------------------------
// generator

struct Gen<'a> {
    rng: &'a mut Rng,
    frame_pointer: bool,
}

impl<'a> Gen<'a> {
    fn reg(&mut self) -> &'static str {
        // few registers, so that values meet
        if self.rng.chance(3, 4) {
            GPR[self.rng.below(6) as usize]
        } else {
            GPR[self.rng.below(14) as usize]
        }
    }
    fn small(&mut self) -> u64 {
        match self.rng.below(8) {
            0 => 0,
            1 => 1,
            2 => 2 + self.rng.below(14),
            3 => (-(1 + self.rng.below(16) as i64)) as u64,
            4 => 8 * self.rng.below(5),
            5 => 100 + self.rng.below(2000),
            6 => *self.rng.pick(&[0x7fff_ffff_ffff_ffffu64, 0x8000_0000_0000_0000, 0xffff_ffff, 0x8000_0000, 1023, 1024, (-1024i64) as u64]),
            _ => self.rng.below(64),
        }
    }
    fn operand(&mut self) -> Expression {
        if self.rng.chance(2, 5) {
            e_const(self.small(), 8)
        } else {
            e_var(self.reg(), 8)
        }
    }
    fn expr8(&mut self, depth: u32) -> Expression {
        let k = self.rng.below(24);
        if depth == 0 || k < 6 {
            return self.operand();
        }
        match k {
            6..=17 => {
                let op = *self.rng.pick(&[
                    BinOpType::IntAdd,
                    BinOpType::IntAdd,
                    BinOpType::IntAdd,
                    BinOpType::IntSub,
                    BinOpType::IntSub,
                    BinOpType::IntMult,
                    BinOpType::IntAnd,
                    BinOpType::IntOr,
                    BinOpType::IntXOr,
                    BinOpType::IntLeft,
                    BinOpType::IntRight,
                    BinOpType::IntSRight,
                    BinOpType::IntDiv,
                    BinOpType::IntRem,
                    BinOpType::IntSDiv,
                    BinOpType::IntSRem,
                ]);
                let l = self.expr8(depth - 1);
                let r = match op {
                    BinOpType::IntLeft | BinOpType::IntRight | BinOpType::IntSRight => {
                        if self.rng.chance(4, 5) {
                            {
                                let wide = self.rng.chance(1, 8);
                                e_const(self.rng.below(if wide { 70 } else { 8 }), 8)
                            }
                        } else {
                            self.operand()
                        }
                    }
                    BinOpType::IntMult | BinOpType::IntDiv | BinOpType::IntRem | BinOpType::IntSDiv | BinOpType::IntSRem => {
                        if self.rng.chance(3, 4) {
                            e_const(self.small(), 8)
                        } else {
                            self.operand()
                        }
                    }
                    _ => self.expr8(depth - 1),
                };
                e_bin(op, l, r)
            }
            18 | 19 => e_un(*self.rng.pick(&[UnOpType::Int2Comp, UnOpType::IntNegate]), self.expr8(depth - 1)),
            20 | 21 => {
                let sz = *self.rng.pick(&[1u64, 2, 4]);
                let low = if self.rng.chance(1, 4) { self.rng.below(8 - sz + 1) } else { 0 };
                e_cast(*self.rng.pick(&[CastOpType::IntZExt, CastOpType::IntSExt]), 8, e_sub(low, sz, self.expr8(depth - 1)))
            }
            22 => e_cast(CastOpType::IntZExt, 8, e_var(FLAGS[self.rng.below(4) as usize], 1)),
            _ => e_unknown("unk", 8),
        }
    }
    fn cmp(&mut self) -> Expression {
        if self.rng.chance(1, 4) {
            return self.cmp_nested();
        }
        if self.rng.chance(1, 2) {
            return self.cmp_boundary();
        }
        let op = *self.rng.pick(&CMP_OPS);
        let (l, r) = match self.rng.below(4) {
            0 => (e_const(self.small(), 8), e_var(self.reg(), 8)),
            1 => (e_var(self.reg(), 8), e_var(self.reg(), 8)),
            2 => (self.expr8(1), e_const(self.small(), 8)),
            _ => (e_var(self.reg(), 8), e_const(self.small(), 8)),
        };
        e_bin(op, l, r)
    }
    /// `(x OP k) cmp c` / `(x OP y) cmp c` with a bitwise / arithmetic / shift operator inside the comparison
    fn cmp_nested(&mut self) -> Expression {
        let op = *self.rng.pick(&CMP_OPS);
        let inner = *self.rng.pick(&NEST_OPS);
        let w = *self.rng.pick(&[8u64, 8, 4, 1]);
        let (k, c) = *self.rng.pick(&nest_pairs(inner));
        let x = cmp_operand(self.reg(), w);
        let is_shift = matches!(inner, BinOpType::IntLeft | BinOpType::IntRight | BinOpType::IntSRight);
        let second = if self.rng.chance(1, 4) && !is_shift { cmp_operand(self.reg(), w) } else { e_const(k & mask_w(w), w) };
        let lhs = e_bin(inner, x, second);
        let c = if self.rng.chance(1, 6) { self.small() } else { c } & mask_w(w);
        let e = if self.rng.chance(1, 2) { e_bin(op, e_const(c, w), lhs) } else { e_bin(op, lhs, e_const(c, w)) };
        if self.rng.chance(1, 4) {
            e_un(UnOpType::BoolNegate, e)
        } else {
            e
        }
    }
    /// a comparison of a (possibly truncated) register with a constant at or next to a boundary of the
    /// operand width, constant on either side, possibly negated
    fn cmp_boundary(&mut self) -> Expression {
        let op = *self.rng.pick(&CMP_OPS);
        let w = *self.rng.pick(&[8u64, 8, 8, 4, 2, 1]);
        let c = match self.rng.below(4) {
            0 => (self.small()) & mask_w(w),
            1 => self.rng.next() & mask_w(w),
            _ => *self.rng.pick(&boundary_consts(w)),
        };
        let reg = self.reg();
        let x = cmp_operand(reg, w);
        let e = if self.rng.chance(1, 2) { e_bin(op, e_const(c, w), x) } else { e_bin(op, x, e_const(c, w)) };
        if self.rng.chance(1, 4) {
            e_un(UnOpType::BoolNegate, e)
        } else {
            e
        }
    }
    fn cond(&mut self, depth: u32) -> Expression {
        match self.rng.below(20) {
            0..=5 => e_var(FLAGS[self.rng.below(4) as usize], 1),
            6..=13 => self.cmp(),
            14 | 15 if depth > 0 => e_un(UnOpType::BoolNegate, self.cond(depth - 1)),
            16 | 17 if depth > 0 => {
                let op = *self.rng.pick(&[BinOpType::BoolAnd, BinOpType::BoolOr, BinOpType::BoolXOr]);
                e_bin(op, self.cond(depth - 1), self.cond(depth - 1))
            }
            18 => {
                let op = *self.rng.pick(&[BinOpType::IntCarry, BinOpType::IntSCarry, BinOpType::IntSBorrow]);
                e_bin(op, self.operand(), self.operand())
            }
            19 if self.rng.chance(1, 2) => {
                // a bare 1-byte bitwise operation as condition (a boolean: bit 0)
                let op = *self.rng.pick(&[BinOpType::IntAnd, BinOpType::IntAnd, BinOpType::IntXOr]);
                let x = e_sub(0, 1, e_var(self.reg(), 8));
                match op {
                    BinOpType::IntAnd => e_bin(op, x, e_const(1, 1)),
                    _ => e_bin(BinOpType::IntAnd, e_bin(op, x, e_const(self.rng.below(4), 1)), e_const(1, 1)),
                }
            }
            _ => self.cmp(),
        }
    }
    fn stack_addr(&mut self) -> Expression {
        // most accesses hit a few neighbouring slots, so that stores and loads meet
        let off = match self.rng.below(16) {
            0 => self.rng.range(-70, 30),
            1 | 2 => 4 * self.rng.range(-12, 4),
            3..=6 => 8 * self.rng.range(-8, 3),
            _ => -8 * (1 + self.rng.below(4) as i64),
        };
        let base = if self.frame_pointer && self.rng.chance(1, 2) { "RBP" } else { "RSP" };
        if off == 0 && self.rng.chance(1, 2) {
            e_var(base, 8)
        } else if off < 0 && self.rng.chance(1, 3) {
            e_bin(BinOpType::IntSub, e_var(base, 8), e_const((-off) as u64, 8))
        } else {
            e_bin(BinOpType::IntAdd, e_var(base, 8), e_const(off as u64, 8))
        }
    }
    fn defs(&mut self, prefix: &str, start: usize, n: u64) -> Vec<Term<Def>> {
        let mut v = Vec::new();
        let mut k = start;
        let mut t = |k: &mut usize| {
            *k += 1;
            format!("{}_d{}", prefix, *k - 1)
        };
        for _ in 0..n {
            match self.rng.below(43) {
                40 | 41 => {
                    // load through a register / a constant address (exercises the NULL-window check);
                    // memory behind non-stack pointers is never written by the generated programs
                    let a = match self.rng.below(4) {
                        0 => e_const(self.small(), 8),
                        1 => e_bin(BinOpType::IntAdd, e_var(self.reg(), 8), e_const(self.small(), 8)),
                        _ => e_var(self.reg(), 8),
                    };
                    v.push(d_load(&t(&mut k), var(self.reg(), 8), a));
                }
                42 => {
                    // store to a constant address in or just outside the NULL window
                    let c = *self.rng.pick(&[0u64, 8, 1000, 1023, 1024, 1032, (-8i64) as u64, (-1024i64) as u64, (-1025i64) as u64]);
                    v.push(d_store(&t(&mut k), e_const(c, 8), e_var(self.reg(), 8)));
                }
                0..=15 => v.push(d_assign(&t(&mut k), var(self.reg(), 8), self.expr8(2))),
                16..=20 => v.push(d_assign(&t(&mut k), var(FLAGS[self.rng.below(4) as usize], 1), self.cond(1))),
                21..=27 => {
                    let a = self.stack_addr();
                    let val = if self.rng.chance(1, 2) { e_var(self.reg(), 8) } else { self.expr8(1) };
                    v.push(d_store(&t(&mut k), a, val));
                }
                28 => {
                    // narrow store
                    let a = self.stack_addr();
                    let sz = *self.rng.pick(&[1u64, 2, 4]);
                    v.push(d_store(&t(&mut k), a, e_sub(0, sz, e_var(self.reg(), 8))));
                }
                29 => {
                    let a = self.stack_addr();
                    v.push(d_store(&t(&mut k), a, e_var(FLAGS[self.rng.below(4) as usize], 1)));
                }
                30..=36 => {
                    let a = self.stack_addr();
                    v.push(d_load(&t(&mut k), var(self.reg(), 8), a));
                }
                37 => {
                    // narrow load through a temporary, then extension
                    let a = self.stack_addr();
                    let sz = *self.rng.pick(&[1u64, 2, 4]);
                    v.push(d_load(&t(&mut k), tmp("$t", sz), a));
                    let op = *self.rng.pick(&[CastOpType::IntZExt, CastOpType::IntSExt]);
                    v.push(d_assign(&t(&mut k), var(self.reg(), 8), e_cast(op, 8, Expression::Var(tmp("$t", sz)))));
                }
                38 => {
                    // stack pointer adjustment
                    let c = 8 * (1 + self.rng.below(6));
                    let op = if self.rng.chance(2, 3) { BinOpType::IntSub } else { BinOpType::IntAdd };
                    v.push(d_assign(&t(&mut k), var("RSP", 8), e_bin(op, e_var("RSP", 8), e_const(c, 8))));
                }
                _ => {
                    // counter step
                    let r = self.reg();
                    let c = 1 + self.rng.below(4);
                    let op = if self.rng.chance(3, 4) { BinOpType::IntAdd } else { BinOpType::IntSub };
                    v.push(d_assign(&t(&mut k), var(r, 8), e_bin(op, e_var(r, 8), e_const(c, 8))));
                }
            }
        }
        v
    }
}

/// counting loop: `b0: …; R := c0; b1: …; R := R ± k; if (R cmp bound) goto b1; b2: uses of R; return`
fn gen_loop_project(rng: &mut Rng, out: &mut Out) -> Project {
    out.count("gen:loop-template");
    let frame_pointer = false;
    let r = GPR[rng.below(6) as usize];
    let other = |g: &mut Gen| loop {
        let x = g.reg();
        if x != r {
            return x;
        }
    };
    let c0 = *rng.pick(&[0u64, 1, 3, 100, (-20i64) as u64, 1000]);
    let k = 1 + rng.below(7);
    let down = rng.chance(1, 4);
    let bound = if down { c0.wrapping_sub(k * (2 + rng.below(12))) } else { c0.wrapping_add(k * (2 + rng.below(12)) + rng.below(k)) };
    let mut g = Gen { rng, frame_pointer };
    let n0 = g.rng.below(3);
    let mut b0 = g.defs("f0_b0", 0, n0);
    b0.push(d_assign("f0_b0_c", var(r, 8), e_const(c0, 8)));
    let n1 = g.rng.below(3);
    let mut b1 = g.defs("f0_b1", 0, n1);
    b1.retain(|d| !matches!(&d.term, Def::Assign { var: v, .. } | Def::Load { var: v, .. } if v.name == r));
    let step_op = if down { BinOpType::IntSub } else { BinOpType::IntAdd };
    b1.push(d_assign("f0_b1_s", var(r, 8), e_bin(step_op, e_var(r, 8), e_const(k, 8))));
    let cmp = if down {
        *g.rng.pick(&[BinOpType::IntNotEqual, BinOpType::IntSLess, BinOpType::IntSLessEqual])
    } else {
        *g.rng.pick(&[BinOpType::IntNotEqual, BinOpType::IntSLess, BinOpType::IntSLessEqual, BinOpType::IntLess, BinOpType::IntLessEqual])
    };
    let cond = if down && cmp != BinOpType::IntNotEqual {
        e_bin(cmp, e_const(bound, 8), e_var(r, 8))
    } else {
        e_bin(cmp, e_var(r, 8), e_const(bound, 8))
    };
    let via_flag = g.rng.chance(1, 3);
    let cond = if via_flag {
        b1.push(d_assign("f0_b1_f", var("ZF", 1), cond));
        e_var("ZF", 1)
    } else {
        cond
    };
    let x = other(&mut g);
    let y = other(&mut g);
    let mut b2 = Vec::new();
    let use_ = match g.rng.below(6) {
        0 => e_bin(BinOpType::IntSub, e_const(g.small(), 8), e_var(r, 8)),
        1 => e_un(UnOpType::Int2Comp, e_var(r, 8)),
        2 => e_bin(BinOpType::IntMult, e_var(r, 8), e_const(2 + g.rng.below(5), 8)),
        3 => e_bin(BinOpType::IntSub, e_var(r, 8), e_const(g.small(), 8)),
        4 => e_bin(BinOpType::IntAdd, e_bin(BinOpType::IntLeft, e_var(r, 8), e_const(g.rng.below(4), 8)), e_const(g.small(), 8)),
        _ => e_cast(CastOpType::IntSExt, 8, e_sub(0, 4, e_var(r, 8))),
    };
    b2.push(d_assign("f0_b2_u", var(x, 8), use_));
    b2.push(d_store("f0_b2_s", e_bin(BinOpType::IntAdd, e_var("RSP", 8), e_const((-16i64) as u64, 8)), e_var(x, 8)));
    b2.push(d_load("f0_b2_l", var(y, 8), e_bin(BinOpType::IntAdd, e_var("RSP", 8), e_const((-16i64) as u64, 8))));
    let n2 = g.rng.below(3);
    b2.extend(g.defs("f0_b2", 0, n2));
    let blocks = vec![
        blk("f0_b0", b0, vec![j_branch("f0_b0_j0", "f0_b1")]),
        blk("f0_b1", b1, vec![j_cbranch("f0_b1_j0", "f0_b1", cond), j_branch("f0_b1_j1", "f0_b2")]),
        blk("f0_b2", b2, vec![j_branch("f0_b2_j0", "f0_b3")]),
        blk("f0_b3", vec![], vec![j_return("f0_b3_j0", Expression::Var(tmp("$ret", 8)))]),
    ];
    project_x64(program(vec![sub("f0", "fn0", blocks, None)], vec![], vec![tid("f0")]))
}

/// diamond: `b0: …; if c goto b2; b1: stores/assignments; goto b3; b2: other stores/assignments; b3: loads; return`
fn gen_diamond_project(rng: &mut Rng, out: &mut Out) -> Project {
    out.count("gen:diamond-template");
    let mut g = Gen { rng, frame_pointer: false };
    let slot = |k: u64| e_bin(BinOpType::IntAdd, e_var("RSP", 8), e_const((-8 * (1 + k as i64)) as u64, 8));
    let n0 = g.rng.below(3);
    let b0 = g.defs("f0_b0", 0, n0);
    let c = g.cond(1);
    let mut arms = Vec::new();
    let shared = g.reg();
    for (name, base) in [("f0_b1", 0u64), ("f0_b2", 1)] {
        let mut v = Vec::new();
        let n = 1 + g.rng.below(3);
        for i in 0..n {
            let val = match g.rng.below(3) {
                0 => e_const(g.small().wrapping_add(base), 8),
                1 => e_var(g.reg(), 8),
                _ => g.expr8(1),
            };
            let k = g.rng.below(3);
            v.push(d_store(&format!("{}_s{}", name, i), slot(k), val));
        }
        if g.rng.chance(2, 3) {
            // both arms assign the same register: a constant or a strided two-element set
            let c = g.small().wrapping_mul(1 + base * 3).wrapping_add(base);
            let val = if g.rng.chance(1, 2) {
                e_const(c, 8)
            } else {
                let k = 2 + g.rng.below(7);
                let f = FLAGS[g.rng.below(4) as usize];
                e_bin(BinOpType::IntAdd, e_bin(BinOpType::IntMult, e_cast(CastOpType::IntZExt, 8, e_var(f, 1)), e_const(k, 8)), e_const(c, 8))
            };
            v.push(d_assign(&format!("{}_a", name), var(shared, 8), val));
        }
        let ne = g.rng.below(2);
        v.extend(g.defs(name, 0, ne));
        arms.push(v);
    }
    let mut b3 = Vec::new();
    for i in 0..(1 + g.rng.below(3)) {
        let k = g.rng.below(3);
        b3.push(d_load(&format!("f0_b3_l{}", i), var(g.reg(), 8), slot(k)));
    }
    let n3 = g.rng.below(3);
    b3.extend(g.defs("f0_b3", 0, n3));
    let b2 = arms.pop().unwrap();
    let b1 = arms.pop().unwrap();
    let blocks = vec![
        blk("f0_b0", b0, vec![j_cbranch("f0_b0_j0", "f0_b2", c), j_branch("f0_b0_j1", "f0_b1")]),
        blk("f0_b1", b1, vec![j_branch("f0_b1_j0", "f0_b3")]),
        blk("f0_b2", b2, vec![j_branch("f0_b2_j0", "f0_b3")]),
        blk("f0_b3", b3, vec![j_branch("f0_b3_j0", "f0_b4")]),
        blk("f0_b4", vec![], vec![j_return("f0_b4_j0", Expression::Var(tmp("$ret", 8)))]),
    ];
    project_x64(program(vec![sub("f0", "fn0", blocks, None)], vec![], vec![tid("f0")]))
}

fn gen_project(rng: &mut Rng, out: &mut Out) -> Project {
    match rng.below(10) {
        0 | 1 => return gen_loop_project(rng, out),
        2 | 3 => return gen_diamond_project(rng, out),
        _ => (),
    }
    let big = rng.chance(1, 3);
    let n_blocks = 2 + rng.below(if big { 6 } else { 4 }) as usize;
    let frame_pointer = rng.chance(1, 4);
    let bt = |j: usize| format!("f0_b{}", j);
    let mut blocks = Vec::new();
    for j in 0..n_blocks {
        let mut g = Gen { rng, frame_pointer };
        let mut defs = Vec::new();
        if j == 0 {
            let mut k = 0;
            if frame_pointer {
                defs.push(d_assign("f0_b0_p0", var("RSP", 8), e_bin(BinOpType::IntSub, e_var("RSP", 8), e_const(8, 8))));
                defs.push(d_store("f0_b0_p1", e_var("RSP", 8), e_var("RBP", 8)));
                defs.push(d_assign("f0_b0_p2", var("RBP", 8), e_var("RSP", 8)));
                k = 3;
                out.count("gen:frame-pointer");
            }
            if g.rng.chance(1, 2) {
                let c = 8 * (1 + g.rng.below(8));
                defs.push(d_assign(&format!("f0_b0_p{}", k), var("RSP", 8), e_bin(BinOpType::IntSub, e_var("RSP", 8), e_const(c, 8))));
            }
            // initialise some registers with constants so that intervals arise
            for _ in 0..g.rng.below(3) {
                let r = g.reg();
                let c = g.small();
                defs.push(d_assign(&format!("f0_b0_i{}", defs.len()), var(r, 8), e_const(c, 8)));
            }
        }
        let long = g.rng.chance(1, 4);
        let n_defs = g.rng.below(if long { 8 } else { 5 });
        defs.extend(g.defs(&bt(j), 0, n_defs));
        let last = j + 1 == n_blocks;
        let any = |g: &mut Gen| bt(g.rng.below(n_blocks as u64) as usize);
        let next = |g: &mut Gen| {
            if j + 1 < n_blocks && g.rng.chance(4, 5) {
                bt(j + 1)
            } else {
                bt(g.rng.below(n_blocks as u64) as usize)
            }
        };
        let jt = |n: usize| format!("{}_j{}", bt(j), n);
        let choice = if last { 100 } else { g.rng.below(20) };
        let jmps = match choice {
            0..=3 => {
                out.count("jmp:branch");
                vec![j_branch(&jt(0), &next(&mut g))]
            }
            4..=17 => {
                out.count("jmp:cbranch+branch");
                let c = g.cond(1);
                vec![j_cbranch(&jt(0), &any(&mut g), c), j_branch(&jt(1), &next(&mut g))]
            }
            18 => {
                out.count("jmp:return");
                vec![j_return(&jt(0), Expression::Var(tmp("$ret", 8)))]
            }
            19 => {
                out.count("jmp:cbranch+return");
                let c = g.cond(1);
                vec![j_cbranch(&jt(0), &any(&mut g), c), j_return(&jt(1), Expression::Var(tmp("$ret", 8)))]
            }
            _ => {
                out.count("jmp:return");
                vec![j_return(&jt(0), Expression::Var(tmp("$ret", 8)))]
            }
        };
        blocks.push(blk(&bt(j), defs, jmps));
    }
    let s = sub("f0", "fn0", blocks, None);
    project_x64(program(vec![s], vec![], vec![tid("f0")]))
}

// ------------------------------------------------------------------------------------------
// comparisons against boundary constants

const CMP_OPS: [BinOpType; 6] = [
    BinOpType::IntEqual,
    BinOpType::IntNotEqual,
    BinOpType::IntLess,
    BinOpType::IntLessEqual,
    BinOpType::IntSLess,
    BinOpType::IntSLessEqual,
];

fn mask_w(w: u64) -> u64 {
    if w >= 8 {
        u64::MAX
    } else {
        (1u64 << (8 * w)) - 1
    }
}

/// 0, 1, -1, 2, MIN, MIN+1, MAX, MAX-1 of a `w`-byte operand (as bit patterns)
fn boundary_consts(w: u64) -> Vec<u64> {
    let m = mask_w(w);
    let min = 1u64 << (8 * w - 1);
    vec![0, 1, m, 2, min, min + 1, min - 1, min - 2]
}


/// operators nested inside a comparison: `(x OP k) cmp c`
const NEST_OPS: [BinOpType; 9] = [
    BinOpType::IntAnd,
    BinOpType::IntOr,
    BinOpType::IntXOr,
    BinOpType::IntAdd,
    BinOpType::IntSub,
    BinOpType::IntMult,
    BinOpType::IntLeft,
    BinOpType::IntRight,
    BinOpType::IntSRight,
];

/// (k, c) pairs for `(x OP k) cmp c` such that satisfying values of `x` exist that differ from `c` (and from `k`)
fn nest_pairs(op: BinOpType) -> Vec<(u64, u64)> {
    match op {
        BinOpType::IntAnd => vec![(0xff, 4), (4, 4), (1, 0), (0xf0, 0x30), (0xff, 0), (0x80, 0x80), (1, 1), (6, 2)],
        BinOpType::IntOr => vec![(1, 5), (0xf, 0xff), (8, 8), (0x10, 0x13)],
        BinOpType::IntXOr => vec![(0xff, 4), (1, 0), (5, 5)],
        BinOpType::IntAdd => vec![(1, 0), (3, 10), (0x80, 0x7f)],
        BinOpType::IntSub => vec![(1, 0), (5, 0xfb), (2, 7)],
        BinOpType::IntMult => vec![(2, 8), (3, 9), (4, 0)],
        BinOpType::IntLeft => vec![(1, 8), (4, 0x30), (3, 0)],
        BinOpType::IntRight | BinOpType::IntSRight => vec![(1, 2), (4, 3), (2, 0)],
        _ => vec![(1, 1)],
    }
}

/// values of `x` that (may) satisfy `(x OP k) == c` and neighbours that do not, on `w` bytes
fn nest_candidates(rng: &mut Rng, op: BinOpType, k: u64, c: u64, w: u64) -> Vec<u64> {
    let m = mask_w(w);
    let mut v: Vec<u64> = match op {
        BinOpType::IntAnd => vec![c, c | (rng.next() & !k), c | !k, c | 0x100, c ^ 1, k, !0, 0, c | (1 << (8 * w - 1)) & !k],
        BinOpType::IntOr => vec![c & !k, c, c & !(rng.next() & k), 0, c ^ 1],
        BinOpType::IntXOr => vec![c ^ k, (c ^ k).wrapping_add(1), c, k],
        BinOpType::IntAdd => vec![c.wrapping_sub(k), c.wrapping_sub(k).wrapping_add(1), c.wrapping_sub(k).wrapping_sub(1), c],
        BinOpType::IntSub => vec![c.wrapping_add(k), c.wrapping_add(k).wrapping_add(1), c.wrapping_add(k).wrapping_sub(1), c],
        BinOpType::IntMult => {
            let mut t = vec![c, 0, 1];
            if k != 0 {
                t.push(c / k);
                t.push((c / k).wrapping_add(1));
                // other solutions modulo 2^(8w): add 2^(8w) / gcd-part
                if k % 2 == 0 && w <= 8 {
                    t.push((c / k) | (1 << (8 * w - 1)));
                }
            }
            t
        }
        BinOpType::IntLeft => vec![c >> (k % 64), (c >> (k % 64)) | (1 << (8 * w - 1)), (c >> (k % 64)).wrapping_add(1), c],
        BinOpType::IntRight | BinOpType::IntSRight => {
            vec![c << (k % 64), (c << (k % 64)) | 1, (c << (k % 64)) | ((1 << (k % 64)) - 1), (c << (k % 64)).wrapping_add(1 << (k % 64)), c]
        }
        _ => vec![c],
    };
    v.push(rng.next());
    v.into_iter().map(|x| x & m).collect()
}

/// the register itself, or its low `w` bytes
fn cmp_operand(reg: &str, w: u64) -> Expression {
    if w == 8 {
        e_var(reg, 8)
    } else {
        e_sub(0, w, e_var(reg, 8))
    }
}

/// `(register, constant, width)` for every comparison of a (truncated) register with a constant in `e`
fn collect_cmps(e: &Expression, acc: &mut Vec<(String, u64, u64)>) {
    fn operand(e: &Expression) -> Option<(String, u64)> {
        match e {
            Expression::Var(v) if v.size == ByteSize::new(8) => Some((v.name.clone(), 8)),
            Expression::Subpiece { low_byte, size, arg } if *low_byte == ByteSize::new(0) => match &**arg {
                Expression::Var(v) => Some((v.name.clone(), u64::from(*size))),
                _ => None,
            },
            _ => None,
        }
    }
    match e {
        Expression::BinOp { op, lhs, rhs } => {
            if CMP_OPS.contains(op) {
                for (x, c) in [(&**lhs, &**rhs), (&**rhs, &**lhs)] {
                    if let (Some((r, w)), Expression::Const(bv)) = (operand(x), c) {
                        if let Ok(v) = bv.try_to_u64() {
                            acc.push((r, v, w));
                        }
                    }
                }
            }
            collect_cmps(lhs, acc);
            collect_cmps(rhs, acc);
        }
        Expression::UnOp { arg, .. } | Expression::Cast { arg, .. } | Expression::Subpiece { arg, .. } => collect_cmps(arg, acc),
        _ => (),
    }
}

/// `(register, register size, candidate value, operand width)` for every comparison `(x OP k) cmp c` / `c cmp (x OP k)`
/// of a (truncated) register, and for bare bitwise operations `x OP k`
fn collect_nested(rng: &mut Rng, e: &Expression, acc: &mut Vec<(String, u64, u64, u64)>) {
    fn operand(e: &Expression) -> Option<(String, u64, u64)> {
        match e {
            Expression::Var(v) => Some((v.name.clone(), u64::from(v.size), u64::from(v.size))),
            Expression::Subpiece { low_byte, size, arg } if *low_byte == ByteSize::new(0) => match &**arg {
                Expression::Var(v) => Some((v.name.clone(), u64::from(v.size), u64::from(*size))),
                _ => None,
            },
            _ => None,
        }
    }
    if let Expression::BinOp { op, lhs, rhs } = e {
        if CMP_OPS.contains(op) {
            for (x, c) in [(&**lhs, &**rhs), (&**rhs, &**lhs)] {
                if let (Expression::BinOp { op: inner, lhs: a, rhs: b }, Expression::Const(cv)) = (x, c) {
                    if let (Some((r, vs, w)), Expression::Const(kv), Ok(cval)) = (operand(a), &**b, cv.try_to_u64()) {
                        if let Ok(k) = kv.try_to_u64() {
                            for cand in nest_candidates(rng, *inner, k, cval, w) {
                                acc.push((r.clone(), vs, cand, w));
                            }
                        }
                    }
                }
            }
        }
        // a bare bitwise condition `x & k`
        if NEST_OPS.contains(op) {
            if let (Some((r, vs, w)), Expression::Const(kv)) = (operand(lhs), &**rhs) {
                if let Ok(k) = kv.try_to_u64() {
                    for c in [0u64, 1, k] {
                        for cand in nest_candidates(rng, *op, k, c, w) {
                            acc.push((r.clone(), vs, cand, w));
                        }
                    }
                }
            }
        }
        collect_nested(rng, lhs, acc);
        collect_nested(rng, rhs, acc);
    } else if let Expression::UnOp { arg, .. } | Expression::Cast { arg, .. } | Expression::Subpiece { arg, .. } = e {
        collect_nested(rng, arg, acc);
    }
}

/// initial register values for the concrete runs, biased so that both outcomes of the comparisons of the
/// program occur: per run (2 of 3) one compared register is set to the constant, its neighbours or another
/// boundary of the operand width (upper bytes random)
fn inits_around_comparisons(rng: &mut Rng, project: &Project, n_runs: usize) -> Value {
    let mut cmps = Vec::new();
    let mut nested = Vec::new();
    for s in project.program.term.subs.values() {
        for b in &s.term.blocks {
            for d in &b.term.defs {
                if let Def::Assign { value, .. } = &d.term {
                    collect_cmps(value, &mut cmps);
                    collect_nested(rng, value, &mut nested);
                }
            }
            for j in &b.term.jmps {
                if let Jmp::CBranch { condition, .. } = &j.term {
                    collect_cmps(condition, &mut cmps);
                    collect_nested(rng, condition, &mut nested);
                }
            }
        }
    }
    let mut runs = Vec::new();
    for _ in 0..n_runs {
        if !nested.is_empty() && rng.chance(1, 2) {
            // a value around the solutions of a comparison with a nested operator
            let (reg, vs, low, w) = rng.pick(&nested).clone();
            if vs != 8 {
                continue;
            }
            let m = mask_w(w);
            let upper = if rng.chance(1, 2) { 0 } else { rng.next() & !m };
            runs.push(json!([[reg, 8, upper | (low & m)]]));
            continue;
        }
        if cmps.is_empty() || rng.chance(1, 3) {
            runs.push(json!([]));
            continue;
        }
        let (reg, c, w) = rng.pick(&cmps).clone();
        let m = mask_w(w);
        let low = match rng.below(8) {
            0 | 1 => c,
            2 => c.wrapping_add(1),
            3 => c.wrapping_sub(1),
            4 => c.wrapping_add(2),
            5 => *rng.pick(&boundary_consts(w)),
            6 => c.wrapping_sub(2),
            _ => rng.next(),
        } & m;
        let upper = if rng.chance(1, 2) { 0 } else { rng.next() & !m };
        runs.push(json!([[reg, 8, upper | low]]));
    }
    Value::Array(runs)
}

/// One program for a comparison `c op x` / `x op c` (possibly negated) on the low `w` bytes of RAX:
/// ```text
/// b0: [prep of RAX] [RBX := c | ZF := cond]; if cond goto bT; goto bF
/// bT: RCX := RAX + 1; goto b3      bF: RDX := RAX - 1; goto b3      b3: return
/// ```
/// `variant`: 0 literal constant, 1 constant held in RBX, 2 condition through the flag ZF.
/// `prep`: 0 RAX as it is (parameter), 1 `RAX := SExt(low byte of RAX) + k` with `k` such that the
/// interval [k-128, k+127] contains `c`.
/// Returns the project and the initial values of RAX for the runs (the constant, its neighbours, the
/// boundaries of the width, random values).
fn directed_cmp_project(rng: &mut Rng, op: BinOpType, const_left: bool, c: u64, w: u64, neg: bool, variant: u64, prep: u64) -> (Project, Value) {
    let m = mask_w(w);
    let mut b0 = Vec::new();
    // signed reading of the constant, sign extended to 64 bits
    let c_signed: i64 = if w == 8 { c as i64 } else { ((c << (64 - 8 * w)) as i64) >> (64 - 8 * w) };
    let d: i64 = rng.range(-3, 3);
    let k = c_signed.wrapping_sub(d);
    if prep == 1 {
        b0.push(d_assign(
            "f0_b0_p",
            var("RAX", 8),
            e_bin(BinOpType::IntAdd, e_cast(CastOpType::IntSExt, 8, e_sub(0, 1, e_var("RAX", 8))), e_const(k as u64, 8)),
        ));
    }
    let cexpr = if variant == 1 {
        b0.push(d_assign("f0_b0_c", var("RBX", 8), e_const(c, 8)));
        cmp_operand("RBX", w)
    } else {
        e_const(c, w)
    };
    let x = cmp_operand("RAX", w);
    let mut cond = if const_left { e_bin(op, cexpr, x) } else { e_bin(op, x, cexpr) };
    if neg {
        cond = e_un(UnOpType::BoolNegate, cond);
    }
    if variant == 2 {
        b0.push(d_assign("f0_b0_f", var("ZF", 1), cond));
        cond = e_var("ZF", 1);
    }
    let blocks = vec![
        blk("f0_b0", b0, vec![j_cbranch("f0_b0_j0", "f0_bT", cond), j_branch("f0_b0_j1", "f0_bF")]),
        blk("f0_bT", vec![d_assign("f0_bT_u", var("RCX", 8), e_bin(BinOpType::IntAdd, e_var("RAX", 8), e_const(1, 8)))], vec![j_branch("f0_bT_j0", "f0_b3")]),
        blk("f0_bF", vec![d_assign("f0_bF_u", var("RDX", 8), e_bin(BinOpType::IntSub, e_var("RAX", 8), e_const(1, 8)))], vec![j_branch("f0_bF_j0", "f0_b3")]),
        blk("f0_b3", vec![], vec![j_return("f0_b3_j0", Expression::Var(tmp("$ret", 8)))]),
    ];
    let project = project_x64(program(vec![sub("f0", "fn0", blocks, None)], vec![], vec![tid("f0")]));
    // values the compared operand shall take
    let mut targets: Vec<u64> = vec![c, c.wrapping_add(1) & m, c.wrapping_sub(1) & m, c.wrapping_add(2) & m];
    targets.extend(boundary_consts(w));
    targets.push(rng.next() & m);
    targets.push(rng.below(100) & m);
    let mut runs = Vec::new();
    for t in targets {
        let upper = if w == 8 || rng.chance(1, 2) { 0 } else { rng.next() & !m };
        let init = if prep == 1 {
            // RAX becomes sext(low byte) + k: choose the low byte such that the low `w` bytes become `t`, if possible
            let want = (t.wrapping_sub(k as u64)) & m; // sext(b) must be ≡ want (mod 2^(8w))
            let want_signed: i64 = if w == 8 { want as i64 } else { ((want << (64 - 8 * w)) as i64) >> (64 - 8 * w) };
            if (-128..=127).contains(&want_signed) {
                (rng.next() & !0xff) | (want_signed as u8 as u64)
            } else {
                rng.next()
            }
        } else {
            upper | t
        };
        runs.push(json!([["RAX", 8, init]]));
    }
    (project, Value::Array(runs))
}

/// One program `b0: if ((RAX OP k) cmp c) goto bT; goto bF` (as `directed_cmp_project`), `second_reg`: `k` is held in RBX,
/// `bare`: the condition is the 1-byte operation itself (`(AL OP k) & 1`-style boolean). Initial values of RAX: the
/// solutions of `(x OP k) == c` and their neighbours.
fn directed_nested_project(rng: &mut Rng, cmp: BinOpType, inner: BinOpType, k: u64, c: u64, w: u64, const_left: bool, neg: bool, second_reg: bool, bare: bool) -> (Project, Value) {
    let m = mask_w(w);
    let mut b0 = Vec::new();
    let x = cmp_operand("RAX", w);
    let second = if second_reg {
        b0.push(d_assign("f0_b0_k", var("RBX", 8), e_const(k & m, 8)));
        cmp_operand("RBX", w)
    } else {
        e_const(k & m, w)
    };
    let lhs = e_bin(inner, x, second);
    let mut cond = if bare {
        e_bin(BinOpType::IntAnd, e_bin(inner, e_sub(0, 1, e_var("RAX", 8)), e_const(k & 0xff, 1)), e_const(1, 1))
    } else if const_left {
        e_bin(cmp, e_const(c & m, w), lhs)
    } else {
        e_bin(cmp, lhs, e_const(c & m, w))
    };
    if bare && inner == BinOpType::IntAnd {
        cond = e_bin(BinOpType::IntAnd, e_sub(0, 1, e_var("RAX", 8)), e_const(1, 1));
    }
    if neg {
        cond = e_un(UnOpType::BoolNegate, cond);
    }
    let blocks = vec![
        blk("f0_b0", b0, vec![j_cbranch("f0_b0_j0", "f0_bT", cond), j_branch("f0_b0_j1", "f0_bF")]),
        blk("f0_bT", vec![d_assign("f0_bT_u", var("RCX", 8), e_bin(BinOpType::IntAdd, e_var("RAX", 8), e_const(1, 8)))], vec![j_branch("f0_bT_j0", "f0_b3")]),
        blk("f0_bF", vec![d_assign("f0_bF_u", var("RDX", 8), e_bin(BinOpType::IntSub, e_var("RAX", 8), e_const(1, 8)))], vec![j_branch("f0_bF_j0", "f0_b3")]),
        blk("f0_b3", vec![], vec![j_return("f0_b3_j0", Expression::Var(tmp("$ret", 8)))]),
    ];
    let project = project_x64(program(vec![sub("f0", "fn0", blocks, None)], vec![], vec![tid("f0")]));
    let mut runs = Vec::new();
    let ww = if bare { 1 } else { w };
    let mm = mask_w(ww);
    let cs: Vec<u64> = if bare { vec![0, 1] } else { vec![c] };
    for cc in cs {
        for t in nest_candidates(rng, inner, k & mm, cc & mm, ww) {
            let upper = if ww == 8 || rng.chance(1, 2) { 0 } else { rng.next() & !mm };
            runs.push(json!([["RAX", 8, upper | (t & mm)]]));
        }
    }
    (project, Value::Array(runs))
}

/// the directed always-run set for nested operators: operator × (k, c) pair × comparison × orientation / negation /
/// second operand in a register / bare 1-byte condition, thinned by `stride`
fn gen_directed_nested(rng: &mut Rng, out: &mut Out, stride: u64) {
    let mut idx = 0u64;
    for inner in NEST_OPS {
        for (k, c) in nest_pairs(inner) {
            for cmp in CMP_OPS {
                for variant in 0..4u64 {
                    idx += 1;
                    if idx % stride != 0 {
                        continue;
                    }
                    let w = *rng.pick(&[8u64, 8, 4, 1]);
                    let is_shift = matches!(inner, BinOpType::IntLeft | BinOpType::IntRight | BinOpType::IntSRight);
                    let (const_left, neg, second_reg) = match variant {
                        0 => (false, false, false),
                        1 => (true, false, false),
                        2 => (false, true, false),
                        _ => (false, false, !is_shift),
                    };
                    let bare = idx % 23 == 0 && matches!(inner, BinOpType::IntAnd | BinOpType::IntXOr | BinOpType::IntOr);
                    let (project, inits) = directed_nested_project(rng, cmp, inner, k, c, w, const_left, neg, second_reg, bare);
                    let seeds: Vec<u64> = inits.as_array().unwrap().iter().map(|_| rng.next() >> 12).collect();
                    out.count("gen:directed-nested-comparison");
                    emit_pi(out, &project, &seeds, &inits);
                }
            }
        }
    }
}

/// the directed always-run set: every operator × orientation × boundary constant × width × negation
fn gen_directed_cmps(rng: &mut Rng, out: &mut Out, stride: u64) {
    let mut idx = 0u64;
    for w in [8u64, 4, 2, 1] {
        for op in CMP_OPS {
            for const_left in [true, false] {
                for c in boundary_consts(w) {
                    for neg in [false, true] {
                        idx += 1;
                        if idx % stride != 0 {
                            continue;
                        }
                        let variant = idx % 3;
                        let prep = (idx / 3) % 2;
                        let (project, inits) = directed_cmp_project(rng, op, const_left, c, w, neg, variant, prep);
                        let seeds: Vec<u64> = inits.as_array().unwrap().iter().map(|_| rng.next() >> 12).collect();
                        out.count("gen:directed-comparison");
                        emit_pi(out, &project, &seeds, &inits);
                    }
                }
            }
        }
    }
}

// ------------------------------------------------------------------------------------------
// running the real analysis

fn eval_pi(project: &Project) -> Value {
    let p = std::panic::AssertUnwindSafe(project);
    let r = catch(move || {
        let graph = get_program_cfg(&p.program);
        let ar = AnalysisResults::new(&[], &graph, &p);
        let (fs, _logs) = ar.compute_function_signatures();
        let ar = ar.with_function_signatures(Some(&fs));
        let pi = ar.compute_pointer_inference(&json!({"allocation_symbols": []}), false);
        let regs: Vec<Variable> = p.register_set.iter().cloned().collect();
        let mut ids: Vec<Value> = Vec::new();
        let mut blocks = serde_json::Map::new();
        let g = pi.get_graph();
        for node in g.node_indices() {
            let (blk, which) = match g[node] {
                Node::BlkStart(blk, _) => (blk, "S"),
                Node::BlkEnd(blk, _) => (blk, "E"),
                _ => continue,
            };
            let v = match pi.get_node_value(node) {
                Some(NodeValue::Value(st)) => state_json(st, &regs, &mut ids),
                _ => Value::Null,
            };
            let e = blocks.entry(format!("{}", blk.tid)).or_insert_with(|| json!({"S": null, "E": null}));
            e[which] = v;
        }
        // the full states (registers incl. temporaries, all memory objects) for the post-fixpoint check of the model
        // transfer; identifiers numbered by their `Ord` position in the table of all identifiers that occur
        let vars = program_vars(&p);
        let mut idset: BTreeSet<AbstractIdentifier> = BTreeSet::new();
        let mut node_states: Vec<(String, &'static str, &PiState)> = Vec::new();
        for node in g.node_indices() {
            let (blk, which) = match g[node] {
                Node::BlkStart(blk, _) => (blk, "S"),
                Node::BlkEnd(blk, _) => (blk, "E"),
                _ => continue,
            };
            if let Some(NodeValue::Value(st)) = pi.get_node_value(node) {
                ids_of_state(st, &vars, &mut idset);
                node_states.push((format!("{}", blk.tid), which, st));
            }
        }
        let tab: Vec<AbstractIdentifier> = idset.into_iter().collect();
        let mut full_nodes = serde_json::Map::new();
        let (mut sid, mut gidx) = (-1i64, -1i64);
        for (tid_s, which, st) in &node_states {
            let e = full_nodes.entry(tid_s.clone()).or_insert_with(|| json!({"S": null, "E": null}));
            e[*which] = enc_state_tab(st, &vars, &tab);
            sid = tab.iter().position(|x| *x == st.stack_id).map(|x| x as i64).unwrap_or(-1);
            gidx = tab.iter().position(|x| *x == st.get_global_mem_id()).map(|x| x as i64).unwrap_or(-1);
        }
        let globals: Vec<u64> = fs
            .get(&Tid::new("f0"))
            .map(|s| {
                s.global_parameters
                    .keys()
                    .filter_map(|l| match l {
                        AbstractLocation::GlobalAddress { address, .. } | AbstractLocation::GlobalPointer(address, _) => Some(*address),
                        _ => None,
                    })
                    .collect::<BTreeSet<u64>>()
                    .into_iter()
                    .collect()
            })
            .unwrap_or_default();
        let full = json!({"nodes": full_nodes, "sid": sid, "gid": gidx, "globals": globals});
        let (logs, warnings) = &pi.collected_logs;
        let stab = !logs.iter().any(|l| l.text.contains("Fixpoint did not stabilize"));
        let nullw: BTreeSet<String> = warnings
            .iter()
            .filter(|w| w.name == "CWE476")
            .flat_map(|w| w.tids.iter().cloned())
            .collect();
        let sig: Vec<String> = fs
            .get(&Tid::new("f0"))
            .map(|s| s.parameters.keys().map(|l| format!("{}", l)).collect())
            .unwrap_or_default();
        json!({"blocks": blocks, "ids": ids, "stab": stab, "nullw": nullw, "sig": sig, "full": full})
    });
    match r {
        Ok(v) => v,
        Err(p) => Value::String(format!("panic:{}", p.replace(' ', "_"))),
    }
}

fn emit_pi(out: &mut Out, project: &Project, seeds: &[u64], inits: &Value) {
    let r = eval_pi(project);
    let pj = project_to_json(project);
    let mut nontrivial = false;
    if let Some(b) = r.get("blocks").and_then(|b| b.as_object()) {
        let n_states = b.values().filter(|v| !v["S"].is_null()).count();
        let n_nostate = b.values().filter(|v| v["S"].is_null()).count();
        let n_cut = b.values().filter(|v| !v["S"].is_null() && v["E"].is_null()).count();
        out.count_n("pi:blocks-with-state", n_states as u64);
        out.count_n("pi:blocks-unreachable", n_nostate as u64);
        out.count_n("pi:blocks-cut-by-certain-null", n_cut as u64);
        out.count_n("pi:null-warnings", r["nullw"].as_array().map(|a| a.len()).unwrap_or(0) as u64);
        if !r["stab"].as_bool().unwrap_or(true) {
            out.count("pi:not-stabilised");
        }
        // non-trivial: some register at some block start has a bounded (non-top) value
        nontrivial = b.values().any(|v| v["S"].as_object().map(|m| !m.is_empty()).unwrap_or(false));
    } else {
        out.count("pi:panic");
    }
    let line = json!({"q": "pi", "project": pj, "fn": "f0", "impl": r, "seeds": seeds, "inits": inits}).to_string();
    let key = pj.to_string();
    out.case(&line, if nontrivial { Some(&key) } else { None });
}

// ------------------------------------------------------------------------------------------
// direct test of `check_def_for_null_dereferences`

fn bvs64(v: i64) -> Bitvector {
    Bitvector::from_i64(v)
}

fn mk_interval(s: i64, e: i64, stride: u64) -> IntervalDomain {
    // built through serde so that exactly these bounds are used (the generator only emits well-formed ones)
    let ap = |v: i64| json!({"width": [64], "digits": [v as u64]});
    serde_json::from_value(json!({
        "interval": {"start": ap(s), "end": ap(e), "stride": stride},
        "widening_upper_bound": null, "widening_lower_bound": null, "widening_delay": 0
    }))
    .expect("interval")
}

fn eval_null(s: i64, e: i64, stride: u64, has_abs: bool, rel_off: Option<i64>, top: bool, store: bool) -> Value {
    let r = catch(move || {
        let sp = var("RSP", 8);
        let mut st = PiState::new(&sp, Tid::new("f0"), BTreeSet::new());
        let mut d: Data = match rel_off {
            Some(o) => DataDomain::from_target(st.stack_id.clone(), IntervalDomain::from(bvs64(o))),
            None => DataDomain::new_empty(ByteSize::new(8)),
        };
        if has_abs {
            d.set_absolute_value(Some(mk_interval(s, e, stride)));
        }
        if top {
            d.set_contains_top_flag();
        }
        st.set_register(&var("RAX", 8), d);
        let def = if store { d_store("d0", e_var("RAX", 8), e_const(0, 8)) } else { d_load("d0", var("RBX", 8), e_var("RAX", 8)) };
        let res = st.check_def_for_null_dereferences(&def);
        let mut ids = Vec::new();
        let after = data_json(&st.get_register(&var("RAX", 8)), &mut ids);
        let tag = match res {
            Ok(false) => "false",
            Ok(true) => "true",
            Err(_) => "err",
        };
        json!({"res": tag, "after": after, "after_top": st.get_register(&var("RAX", 8)).is_top()})
    });
    match r {
        Ok(v) => v,
        Err(p) => Value::String(format!("panic:{}", p.replace(' ', "_"))),
    }
}

fn emit_null(out: &mut Out, s: i64, e: i64, stride: u64, has_abs: bool, rel_off: Option<i64>, top: bool, store: bool) {
    let r = eval_null(s, e, stride, has_abs, rel_off, top, store);
    if let Some(t) = r.get("res").and_then(|t| t.as_str()) {
        out.count(&format!("null:{}", t));
    }
    let line = json!({"q": "null", "s": s, "e": e, "st": stride, "abs": has_abs, "rel": rel_off, "top": top, "store": store, "impl": r}).to_string();
    let key = format!("{}|{}|{}|{}|{:?}|{}|{}", s, e, stride, has_abs, rel_off, top, store);
    let nontrivial = r.get("res").and_then(|t| t.as_str()).map(|t| t != "false").unwrap_or(false);
    out.case(&line, if nontrivial { Some(&key) } else { None });
}

fn gen_null(rng: &mut Rng, out: &mut Out) {
    // bounds around the window (-1024, 1024), strides that do and do not hit the window edge
    let edge = |rng: &mut Rng| -> i64 {
        match rng.below(10) {
            0 => -1024,
            1 => -1023,
            2 => 1023,
            3 => 1024,
            4 => 0,
            5 => rng.range(-1100, 1100),
            6 => rng.range(-5000, 5000),
            7 => *rng.pick(&[i64::MIN, i64::MAX, i64::MIN + 1, i64::MAX - 1]),
            8 => rng.range(-1030, -1018),
            _ => rng.range(1018, 1030),
        }
    };
    let a = edge(rng);
    let b = edge(rng);
    let (s, e) = if a <= b { (a, b) } else { (b, a) };
    let stride: u64 = if s == e {
        0
    } else {
        let d = (e as i128 - s as i128) as u128;
        // a divisor of the length
        let cands: Vec<u64> = [1u64, 2, 3, 4, 5, 7, 8, 16, 64, 1024].iter().cloned().filter(|c| d % (*c as u128) == 0).collect();
        let c = *rng.pick(&cands);
        if rng.chance(1, 6) && d <= u64::MAX as u128 {
            d as u64
        } else {
            c
        }
    };
    let has_abs = rng.chance(9, 10);
    let rel = if rng.chance(1, 4) { Some(8 * rng.range(-4, 4)) } else { None };
    let top = rng.chance(1, 6);
    if !has_abs && rel.is_none() && !top {
        return;
    }
    emit_null(out, s, e, stride, has_abs, rel, top, rng.chance(1, 2));
}

// ------------------------------------------------------------------------------------------
// PI-lite correspondence streams: DataDomain arithmetic ("dd") and State::eval ("ev")

fn bv_signed(bits: u64, x: i128) -> Bitvector {
    Bitvector::from_i128(x).into_resize_signed(ByteSize::new(bits / 8))
}

/// a signed value of `bits` bits as JSON: a number up to 64 bits, a decimal string above
fn jv(bits: u64, x: i128) -> Value {
    if bits <= 64 {
        json!(x as i64)
    } else {
        json!(x.to_string())
    }
}

fn get_i128(v: &Value) -> i128 {
    match v {
        Value::String(s) => s.parse().unwrap(),
        _ => v.as_i64().unwrap() as i128,
    }
}

/// IntervalDomain through its serde derive (all fields are private)
fn enc_iv(i: &IntervalDomain) -> Value {
    let j = serde_json::to_value(i).unwrap();
    let start: Bitvector = serde_json::from_value(j["interval"]["start"].clone()).unwrap();
    let bits = u64::from(start.bytesize()) * 8;
    let bv = |v: &Value| -> Value {
        if v.is_null() {
            Value::Null
        } else {
            let b: Bitvector = serde_json::from_value(v.clone()).unwrap();
            jv(bits, b.try_to_i128().unwrap())
        }
    };
    json!({
        "w": bits,
        "s": bv(&j["interval"]["start"]),
        "e": bv(&j["interval"]["end"]),
        "st": j["interval"]["stride"],
        "lo": bv(&j["widening_lower_bound"]),
        "up": bv(&j["widening_upper_bound"]),
        "d": j["widening_delay"],
    })
}

fn dec_iv(v: &Value) -> IntervalDomain {
    let w = v["w"].as_u64().unwrap();
    let bv = |x: &Value| -> Value {
        if x.is_null() {
            Value::Null
        } else {
            serde_json::to_value(bv_signed(w, get_i128(x))).unwrap()
        }
    };
    serde_json::from_value(json!({
        "interval": {"start": bv(&v["s"]), "end": bv(&v["e"]), "stride": v["st"]},
        "widening_upper_bound": bv(&v["up"]),
        "widening_lower_bound": bv(&v["lo"]),
        "widening_delay": v["d"],
    }))
    .unwrap()
}

/// The identifiers used in generated `Data` values, in `Ord` order: the stack identifier and the
/// global memory identifier of function `f0` (as `State::new` builds them) and two parameter identifiers.
fn id_pool() -> Vec<AbstractIdentifier> {
    let f = Tid::new("f0");
    let mut v = vec![
        AbstractIdentifier::from_var(f.clone(), &var("RSP", 8)),
        AbstractIdentifier::new(f.clone(), AbstractLocation::GlobalAddress { address: 0, size: ByteSize::new(8) }),
        AbstractIdentifier::from_var(f.clone(), &var("RDI", 8)),
        AbstractIdentifier::from_var(f.clone(), &var("RSI", 8)),
    ];
    v.sort();
    v
}

fn global_id_index() -> usize {
    let g = AbstractIdentifier::new(Tid::new("f0"), AbstractLocation::GlobalAddress { address: 0, size: ByteSize::new(8) });
    id_pool().iter().position(|x| *x == g).unwrap()
}

fn enc_data(d: &Data) -> Value {
    let idv = id_pool();
    let rel: Vec<Value> = d
        .get_relative_values()
        .iter()
        .map(|(id, t)| json!([idv.iter().position(|x| x == id).map(|p| p as i64).unwrap_or(-1), enc_iv(t)]))
        .collect();
    json!({
        "size": u64::from(d.bytesize()),
        "rel": rel,
        "abs": d.get_absolute_value().map(enc_iv),
        "top": d.contains_top(),
    })
}

fn dec_data(v: &Value) -> Data {
    let idv = id_pool();
    let mut d: Data = DataDomain::new_empty(ByteSize::new(v["size"].as_u64().unwrap()));
    let rel: BTreeMap<AbstractIdentifier, IntervalDomain> =
        v["rel"].as_array().unwrap().iter().map(|e| (idv[e[0].as_u64().unwrap() as usize].clone(), dec_iv(&e[1]))).collect();
    d.set_relative_values(rel);
    if !v["abs"].is_null() {
        d.set_absolute_value(Some(dec_iv(&v["abs"])));
    }
    if v["top"].as_bool().unwrap() {
        d.set_contains_top_flag();
    }
    d
}

fn smin_b(bits: u64) -> i128 {
    -(1i128 << (bits - 1))
}
fn smax_b(bits: u64) -> i128 {
    (1i128 << (bits - 1)) - 1
}

/// a signed value of `bits` (<= 64) bits, biased towards the boundaries, the NULL window and small numbers
fn gen_sval(rng: &mut Rng, bits: u64) -> i128 {
    let (lo, hi) = (smin_b(bits), smax_b(bits));
    let v = match rng.below(10) {
        0 => lo,
        1 => hi,
        2 => lo + rng.below(6) as i128,
        3 => hi - rng.below(6) as i128,
        4 | 5 => rng.range(-20, 20) as i128,
        6 => 8 * rng.range(-16, 16) as i128,
        7 => rng.range(-1100, 1100) as i128,
        _ => {
            let x = rng.next() as i64;
            (if bits >= 64 { x } else { (x << (64 - bits)) >> (64 - bits) }) as i128
        }
    };
    v.clamp(lo, hi)
}

/// a well-formed IntervalDomain (stride divides the length, 0 iff singleton, hints in range)
fn gen_iv(rng: &mut Rng, bits: u64) -> Value {
    let (lo, hi) = (smin_b(bits), smax_b(bits));
    if rng.chance(1, 20) {
        return json!({"w": bits, "s": jv(bits, lo), "e": jv(bits, hi), "st": 1, "lo": null, "up": null, "d": 0});
    }
    let s = gen_sval(rng, bits);
    let st: u64 = match rng.below(10) {
        0 | 1 | 2 | 3 => 0,
        4 | 5 => 1,
        6 => 2,
        7 => 8,
        8 => 1 + rng.below(16),
        _ => 1 + rng.below(if bits == 8 { 100 } else { 100_000 }),
    };
    let room = (hi - s) as u128;
    let maxn = if st == 0 { 0 } else { room / st as u128 };
    let n: u128 = if maxn == 0 {
        0
    } else {
        let cap = maxn.min(if rng.chance(2, 3) { 5 } else { 300 }) as u64;
        rng.below(cap + 1) as u128
    };
    let (s, e, st) = if n == 0 || st == 0 { (s, s, 0) } else { (s, s + (st as u128 * n) as i128, st) };
    let hint = |rng: &mut Rng, base: i128, below: bool| -> Value {
        match rng.below(5) {
            0 | 1 | 2 => Value::Null,
            3 => jv(bits, gen_sval(rng, bits)),
            _ => {
                let d = 1 + rng.below(60) as i128;
                let x = if below { base - d } else { base + d };
                if x >= lo && x <= hi {
                    jv(bits, x)
                } else {
                    Value::Null
                }
            }
        }
    };
    let lo_h = hint(rng, s, true);
    let up_h = hint(rng, e, false);
    let d = match rng.below(5) {
        0 | 1 | 2 => 0,
        3 => rng.below(10),
        _ => u64::MAX - rng.below(3),
    };
    json!({"w": bits, "s": jv(bits, s), "e": jv(bits, e), "st": st, "lo": lo_h, "up": up_h, "d": d})
}

/// a `Data` value of the given byte size; the shapes `bin_op` distinguishes are all frequent
fn gen_data(rng: &mut Rng, size: u64) -> Value {
    let bits = 8 * size;
    let n_ids = id_pool().len() as u64;
    let one_rel = |rng: &mut Rng| json!([rng.below(n_ids), gen_iv(rng, bits)]);
    match rng.below(16) {
        0 => json!({"size": size, "rel": [], "abs": null, "top": true}),
        1 => json!({"size": size, "rel": [], "abs": null, "top": false}),
        2..=5 => json!({"size": size, "rel": [], "abs": gen_iv(rng, bits), "top": false}),
        6 => json!({"size": size, "rel": [], "abs": gen_iv(rng, bits), "top": true}),
        7..=10 => json!({"size": size, "rel": [one_rel(rng)], "abs": null, "top": false}),
        11 => json!({"size": size, "rel": [one_rel(rng)], "abs": null, "top": true}),
        12 => json!({"size": size, "rel": [one_rel(rng)], "abs": gen_iv(rng, bits), "top": rng.chance(1, 4)}),
        _ => {
            let mut rel = Vec::new();
            for i in 0..n_ids {
                if rng.chance(1, 2) {
                    rel.push(json!([i, gen_iv(rng, bits)]));
                }
            }
            let abs = if rng.chance(1, 2) { gen_iv(rng, bits) } else { Value::Null };
            json!({"size": size, "rel": rel, "abs": abs, "top": rng.chance(1, 4)})
        }
    }
}

fn op_from_name<T: serde::de::DeserializeOwned>(name: &str) -> T {
    serde_json::from_value(Value::String(name.to_string())).expect("operation name")
}

const BIN_SAME: [&str; 18] = [
    "IntAdd", "IntSub", "IntAnd", "IntOr", "IntXOr", "IntMult", "IntDiv", "IntRem", "IntSDiv", "IntSRem", "IntEqual",
    "IntNotEqual", "IntLess", "IntSLess", "IntLessEqual", "IntSLessEqual", "IntCarry", "IntSCarry",
];
const BIN_OTHER_SAME: [&str; 9] =
    ["IntSBorrow", "FloatEqual", "FloatNotEqual", "FloatLess", "FloatLessEqual", "FloatAdd", "FloatSub", "FloatMult", "FloatDiv"];
const BIN_BOOL: [&str; 3] = ["BoolAnd", "BoolOr", "BoolXOr"];
const BIN_SHIFT: [&str; 3] = ["IntLeft", "IntRight", "IntSRight"];
const UN_OPS: [&str; 10] =
    ["IntNegate", "Int2Comp", "BoolNegate", "FloatNegate", "FloatAbs", "FloatSqrt", "FloatCeil", "FloatFloor", "FloatRound", "FloatNaN"];

fn eval_dd(op: &Value, a: &Value, b: &Value) -> Value {
    let (op, a, b) = (op.clone(), a.clone(), b.clone());
    let r = catch(move || {
        let x = dec_data(&a);
        let res = match op["k"].as_str().unwrap() {
            "bin" => x.bin_op(op_from_name::<BinOpType>(op["op"].as_str().unwrap()), &dec_data(&b)),
            "un" => x.un_op(op_from_name::<UnOpType>(op["op"].as_str().unwrap())),
            "cast" => x.cast(op_from_name::<CastOpType>(op["op"].as_str().unwrap()), ByteSize::new(op["size"].as_u64().unwrap())),
            "sub" => x.subpiece(ByteSize::new(op["low"].as_u64().unwrap()), ByteSize::new(op["size"].as_u64().unwrap())),
            k => panic!("unknown op kind {}", k),
        };
        enc_data(&res)
    });
    match r {
        Ok(v) => v,
        Err(p) => Value::String(format!("panic:{}", p.replace(' ', "_"))),
    }
}

fn shape(d: &Value) -> &'static str {
    let nrel = d["rel"].as_array().map(|a| a.len()).unwrap_or(0);
    let abs = !d["abs"].is_null();
    let top = d["top"].as_bool().unwrap_or(false);
    match (nrel, abs, top) {
        (0, false, false) => "empty",
        (0, false, true) => "top",
        (0, true, false) => "abs",
        (0, true, true) => "abs+top",
        (1, false, false) => "ptr",
        (1, _, _) => "ptr+x",
        _ => "ptrs",
    }
}

fn emit_dd(out: &mut Out, op: &Value, a: &Value, b: &Value) {
    let r = eval_dd(op, a, b);
    let opname = op.get("op").and_then(|o| o.as_str()).unwrap_or("Subpiece").to_string();
    if r.is_string() {
        out.count("dd:panic");
    } else {
        out.count(&format!("dd:{}", op["k"].as_str().unwrap()));
        if op["k"] == "bin" && (opname == "IntAdd" || opname == "IntSub") {
            out.count(&format!("dd:{}:{}:{}", opname, shape(a), shape(b)));
        }
    }
    let line = json!({"q": "dd", "op": op, "a": a, "b": b, "impl": r}).to_string();
    let key = format!("{}|{}|{}", op, a, b);
    let nontrivial = shape(a) != "empty" && shape(a) != "top";
    out.case(&line, if nontrivial { Some(&key) } else { None });
}

fn gen_dd(rng: &mut Rng, out: &mut Out) {
    let size = *rng.pick(&[8u64, 8, 8, 8, 4, 2, 1]);
    match rng.below(20) {
        0..=12 => {
            // binary operation, half of them pointer arithmetic
            let (name, sa, sb): (&str, u64, u64) = match rng.below(20) {
                0..=5 => ("IntAdd", size, size),
                6..=10 => ("IntSub", size, size),
                11..=14 => (*rng.pick(&BIN_SAME), size, size),
                15 => (*rng.pick(&BIN_OTHER_SAME), size, size),
                16 => (*rng.pick(&BIN_BOOL), 1, 1),
                17 | 18 => (*rng.pick(&BIN_SHIFT), size, *rng.pick(&[1u64, 4, 8])),
                _ => ("Piece", size, *rng.pick(&[1u64, 2, 4, 8])),
            };
            let a = gen_data(rng, sa);
            let b = match rng.below(8) {
                0 => a.clone(),
                1 if shape(&a) == "ptr" => {
                    // a pointer to the same target with another offset
                    let id = a["rel"][0][0].clone();
                    json!({"size": sb, "rel": [[id, gen_iv(rng, 8 * sb)]], "abs": null, "top": false})
                }
                _ => gen_data(rng, sb),
            };
            emit_dd(out, &json!({"k": "bin", "op": name}), &a, &b);
        }
        13 | 14 => {
            let name = *rng.pick(&UN_OPS);
            let sa = if name == "BoolNegate" { 1 } else { size };
            let a = gen_data(rng, sa);
            emit_dd(out, &json!({"k": "un", "op": name}), &a, &Value::Null);
        }
        15 | 16 => {
            let name = *rng.pick(&["IntZExt", "IntZExt", "IntSExt", "IntSExt", "PopCount", "LzCount", "Int2Float", "Float2Float", "Trunc"]);
            let to = *rng.pick(&[1u64, 2, 4, 8, 16]);
            let from = if name == "IntZExt" || name == "IntSExt" { *rng.pick(&[1u64, 2, 4, 8]).min(&to) } else { size };
            let a = gen_data(rng, from);
            emit_dd(out, &json!({"k": "cast", "op": name, "size": to}), &a, &Value::Null);
        }
        _ => {
            let a = gen_data(rng, size);
            let (low, sz) = if rng.chance(1, 4) {
                (0, size)
            } else {
                let sz = 1 + rng.below(size);
                (rng.below(size - sz + 1), sz)
            };
            emit_dd(out, &json!({"k": "sub", "low": low, "size": sz}), &a, &Value::Null);
        }
    }
}

// registers of the "ev" stream: (name, size)
const EV_REGS8: [&str; 6] = ["RSP", "RDI", "RAX", "RBX", "RCX", "RDX"];
const EV_REGS4: [&str; 2] = ["E4A", "E4B"];
const EV_REGS2: [&str; 1] = ["H2A"];
const EV_REGS1: [&str; 3] = ["ZF", "CF", "B1A"];

fn ev_reg(rng: &mut Rng, size: u64) -> Expression {
    let name = match size {
        8 => *rng.pick(&EV_REGS8),
        4 => *rng.pick(&EV_REGS4),
        2 => *rng.pick(&EV_REGS2),
        _ => *rng.pick(&EV_REGS1),
    };
    e_var(name, size)
}

/// a well-sized expression of `size` bytes
fn gen_ev_expr(rng: &mut Rng, size: u64, depth: u32, globals: &[u64]) -> Expression {
    let leaf = |rng: &mut Rng| -> Expression {
        match rng.below(10) {
            0..=5 => ev_reg(rng, size),
            6 if size == 8 && !globals.is_empty() => e_const(*rng.pick(globals), 8),
            9 => e_unknown("unk", size),
            _ => {
                let bits = 8 * size;
                let v = gen_sval(rng, bits) as i64 as u64;
                e_const(if bits >= 64 { v } else { v & ((1u64 << bits) - 1) }, size)
            }
        }
    };
    if depth == 0 || rng.chance(1, 4) {
        return leaf(rng);
    }
    let other = |rng: &mut Rng| *rng.pick(&[1u64, 2, 4, 8]);
    if size == 1 && rng.chance(2, 3) {
        // boolean results
        return match rng.below(6) {
            0 | 1 | 2 => {
                let s = other(rng);
                let op = op_from_name::<BinOpType>(*rng.pick(&[
                    "IntEqual", "IntNotEqual", "IntLess", "IntSLess", "IntLessEqual", "IntSLessEqual", "IntCarry", "IntSCarry", "IntSBorrow",
                ]));
                e_bin(op, gen_ev_expr(rng, s, depth - 1, globals), gen_ev_expr(rng, s, depth - 1, globals))
            }
            3 => {
                let op = op_from_name::<BinOpType>(*rng.pick(&BIN_BOOL));
                e_bin(op, gen_ev_expr(rng, 1, depth - 1, globals), gen_ev_expr(rng, 1, depth - 1, globals))
            }
            4 => e_un(UnOpType::BoolNegate, gen_ev_expr(rng, 1, depth - 1, globals)),
            _ => {
                let s = other(rng);
                e_un(UnOpType::FloatNaN, gen_ev_expr(rng, s, depth - 1, globals))
            }
        };
    }
    match rng.below(24) {
        0..=5 => e_bin(BinOpType::IntAdd, gen_ev_expr(rng, size, depth - 1, globals), gen_ev_expr(rng, size, depth - 1, globals)),
        6..=10 => e_bin(BinOpType::IntSub, gen_ev_expr(rng, size, depth - 1, globals), gen_ev_expr(rng, size, depth - 1, globals)),
        11 | 12 => {
            let op = op_from_name::<BinOpType>(*rng.pick(&["IntAnd", "IntOr", "IntXOr", "IntMult", "IntDiv", "IntRem", "IntSDiv", "IntSRem", "FloatAdd"]));
            e_bin(op, gen_ev_expr(rng, size, depth - 1, globals), gen_ev_expr(rng, size, depth - 1, globals))
        }
        13 => {
            // x XOR x
            let x = gen_ev_expr(rng, size, depth - 1, globals);
            e_bin(BinOpType::IntXOr, x.clone(), x)
        }
        14 | 15 => {
            let op = op_from_name::<BinOpType>(*rng.pick(&BIN_SHIFT));
            let sa = other(rng);
            let amount = if rng.chance(3, 4) { e_const(rng.below(70), sa) } else { gen_ev_expr(rng, sa, depth - 1, globals) };
            e_bin(op, gen_ev_expr(rng, size, depth - 1, globals), amount)
        }
        16 | 17 => e_un(*rng.pick(&[UnOpType::Int2Comp, UnOpType::IntNegate, UnOpType::FloatAbs]), gen_ev_expr(rng, size, depth - 1, globals)),
        18 | 19 => {
            let from = *rng.pick(&[1u64, 2, 4, 8]);
            let from = from.min(size);
            let op = *rng.pick(&[CastOpType::IntZExt, CastOpType::IntSExt]);
            e_cast(op, size, gen_ev_expr(rng, from, depth - 1, globals))
        }
        20 => {
            let from = other(rng);
            e_cast(*rng.pick(&[CastOpType::PopCount, CastOpType::LzCount, CastOpType::Int2Float]), size, gen_ev_expr(rng, from, depth - 1, globals))
        }
        21 | 22 => {
            let from = *rng.pick(&[1u64, 2, 4, 8]);
            let from = from.max(size);
            let low = rng.below(from - size + 1);
            let low = if rng.chance(1, 2) { 0 } else { low };
            e_sub(low, size, gen_ev_expr(rng, from, depth - 1, globals))
        }
        _ => {
            if size >= 2 {
                let hi = size / 2;
                e_bin(BinOpType::Piece, gen_ev_expr(rng, hi, depth - 1, globals), gen_ev_expr(rng, size - hi, depth - 1, globals))
            } else {
                leaf(rng)
            }
        }
    }
}

fn eval_ev(regs: &Value, globals: &Value, expr: &Expression) -> Value {
    let (regs, globals, expr) = (regs.clone(), globals.clone(), expr.clone());
    let r = catch(move || {
        let gl: BTreeSet<u64> = globals.as_array().unwrap().iter().map(|g| g.as_u64().unwrap()).collect();
        let sp = var("RSP", 8);
        let mut st = PiState::new(&sp, Tid::new("f0"), gl);
        // `State::new` binds the stack register; the generated state decides about it
        st.set_register(&sp, Data::new_top(ByteSize::new(8)));
        for e in regs.as_array().unwrap() {
            let v = var(e[0].as_str().unwrap(), e[1].as_u64().unwrap());
            st.set_register(&v, dec_data(&e[2]));
        }
        assert_eq!(id_pool()[global_id_index()], st.get_global_mem_id());
        let value = st.eval(&expr);
        // the transfer function of `Def::Assign` on the register part: `TGT := expr`, then `RBX := TGT - RBX`-style
        // reads are covered by the evaluation above; here the binding of the target is observed
        let target = var("TGT", u64::from(expr.bytesize()));
        st.handle_register_assign(&target, &expr);
        json!({"value": enc_data(&value), "assigned": enc_data(&st.get_register(&target))})
    });
    match r {
        Ok(v) => v,
        Err(p) => Value::String(format!("panic:{}", p.replace(' ', "_"))),
    }
}

fn emit_ev(out: &mut Out, regs: &Value, globals: &Value, expr: &Expression, seed: u64) {
    let full = eval_ev(regs, globals, expr);
    let (r, assigned) = if full.is_string() { (full.clone(), Value::Null) } else { (full["value"].clone(), full["assigned"].clone()) };
    if r.is_string() {
        out.count("ev:panic");
    } else {
        out.count(&format!("ev:result-{}", shape(&r)));
    }
    let ej = serde_json::to_value(expr).unwrap();
    let line = json!({"q": "ev", "regs": regs, "globals": globals, "gid": global_id_index(), "expr": ej, "seed": seed, "impl": r, "assigned": assigned}).to_string();
    let key = format!("{}|{}|{}", regs, globals, ej);
    let nontrivial = !r.is_string() && shape(&r) != "top";
    out.case(&line, if nontrivial { Some(&key) } else { None });
}

fn gen_ev(rng: &mut Rng, out: &mut Out) {
    let globals: Vec<u64> = match rng.below(3) {
        0 => vec![],
        1 => vec![0x601000, 0x601008],
        _ => vec![0x601000, 8, (-8i64) as u64, 0x7fff_ffff_ffff_ffff],
    };
    let pool = id_pool();
    let sp_idx = pool.iter().position(|x| *x == AbstractIdentifier::from_var(Tid::new("f0"), &var("RSP", 8))).unwrap();
    let rdi_idx = pool.iter().position(|x| *x == AbstractIdentifier::from_var(Tid::new("f0"), &var("RDI", 8))).unwrap();
    let mut regs: Vec<Value> = Vec::new();
    // the usual entry bindings, each present most of the time
    if rng.chance(5, 6) {
        let off = 8 * rng.range(-12, 2);
        regs.push(json!(["RSP", 8, {"size": 8, "rel": [[sp_idx, {"w": 64, "s": off, "e": off, "st": 0, "lo": null, "up": null, "d": 0}]], "abs": null, "top": false}]));
    }
    if rng.chance(2, 3) {
        regs.push(json!(["RDI", 8, {"size": 8, "rel": [[rdi_idx, gen_iv(rng, 64)]], "abs": null, "top": false}]));
    }
    for (names, size) in [(&EV_REGS8[2..], 8u64), (&EV_REGS4[..], 4), (&EV_REGS2[..], 2), (&EV_REGS1[..], 1)] {
        for n in names {
            if rng.chance(2, 3) {
                let mut d = gen_data(rng, size);
                if shape(&d) == "empty" || shape(&d) == "top" {
                    d = json!({"size": size, "rel": [], "abs": gen_iv(rng, 8 * size), "top": false});
                }
                if size == 1 && rng.chance(2, 3) {
                    // flags: 0, 1 or {0,1}
                    let (s, e, st) = *rng.pick(&[(0, 0, 0), (1, 1, 0), (0, 1, 1)]);
                    d = json!({"size": 1, "rel": [], "abs": {"w": 8, "s": s, "e": e, "st": st, "lo": null, "up": null, "d": 0}, "top": false});
                }
                regs.push(json!([n, size, d]));
            }
        }
    }
    let size = *rng.pick(&[8u64, 8, 8, 4, 2, 1]);
    let depth = 1 + rng.below(3) as u32;
    let expr = gen_ev_expr(rng, size, depth, &globals);
    let seed = rng.next() >> 12;
    emit_ev(out, &Value::Array(regs), &json!(globals), &expr, seed);
}


// ------------------------------------------------------------------------------------------
// PI-lite streams 3 and 4: the real `Context::update_def` ("ms") and `Context::specialize_conditional` ("sc")

/// A real `PointerInference` of a one-block project (x86-64, empty runtime memory image). Only its `Context`
/// (the `forward_interprocedural_fixpoint::Context` implementation) is used. Leaked: lives for the whole run.
fn leak_pi() -> &'static PointerInference<'static> {
    let blocks = vec![blk("f0_b0", vec![], vec![j_return("f0_b0_j0", Expression::Var(tmp("$ret", 8)))])];
    let project: &'static Project = Box::leak(Box::new(project_x64(program(vec![sub("f0", "fn0", blocks, None)], cs_externs(), vec![tid("f0")]))));
    let graph = Box::leak(Box::new(get_program_cfg(&project.program)));
    let ar0 = Box::leak(Box::new(AnalysisResults::new(&[], graph, project)));
    let (fs, _logs) = ar0.compute_function_signatures();
    let fs = Box::leak(Box::new(fs));
    let ar = Box::leak(Box::new(AnalysisResults::new(&[], graph, project).with_function_signatures(Some(fs))));
    Box::leak(Box::new(ar.compute_pointer_inference(&json!({"allocation_symbols": []}), false)))
}

/// observed registers of the two streams: (names, size)
fn ms_pools() -> Vec<(&'static [&'static str], u64)> {
    vec![(&MS_REGS8[..], 8), (&EV_REGS4[..], 4), (&EV_REGS2[..], 2), (&EV_REGS1[..], 1)]
}
const MS_REGS8: [&str; 8] = ["RSP", "RBP", "RDI", "RAX", "RBX", "RCX", "RDX", "RSI"];

fn pool_index(id: &AbstractIdentifier) -> i64 {
    id_pool().iter().position(|x| x == id).map(|p| p as i64).unwrap_or(-1)
}

fn stack_id_index() -> usize {
    let sid = AbstractIdentifier::from_var(Tid::new("f0"), &var("RSP", 8));
    id_pool().iter().position(|x| *x == sid).unwrap()
}

/// `{"regs": …, "globals": …, "extra": [[id index, is_unique]…], "stack_unique": bool}` → state
fn build_state(init: &Value) -> PiState {
    let gl: BTreeSet<u64> = init["globals"].as_array().unwrap().iter().map(|g| g.as_u64().unwrap()).collect();
    let sp = var("RSP", 8);
    let mut st = PiState::new(&sp, Tid::new("f0"), gl);
    st.set_register(&sp, Data::new_top(ByteSize::new(8)));
    for e in init["regs"].as_array().unwrap() {
        let v = var(e[0].as_str().unwrap(), e[1].as_u64().unwrap());
        st.set_register(&v, dec_data(&e[2]));
    }
    let pool = id_pool();
    if let Some(extra) = init["extra"].as_array() {
        for e in extra {
            let id = pool[e[0].as_u64().unwrap() as usize].clone();
            st.memory.add_abstract_object(id.clone(), ByteSize::new(8), None);
            if !e[1].as_bool().unwrap() {
                st.memory.get_object_mut(&id).unwrap().mark_as_not_unique();
            }
        }
    }
    if init["stack_unique"].as_bool() == Some(false) {
        let sid = st.stack_id.clone();
        st.memory.get_object_mut(&sid).unwrap().mark_as_not_unique();
    }
    assert_eq!(pool[global_id_index()], st.get_global_mem_id());
    assert_eq!(pool[stack_id_index()], st.stack_id);
    st
}

fn enc_state(st: &PiState) -> Value {
    let mut regs = Vec::new();
    for (names, size) in ms_pools() {
        for n in names {
            let d = st.get_register(&var(n, size));
            if !d.is_top() {
                regs.push(json!([n, size, enc_data(&d)]));
            }
        }
    }
    let objs: Vec<Value> = st
        .memory
        .iter()
        .map(|(id, obj)| {
            let cells: Vec<Value> = obj.get_mem_region().iter().map(|(off, d)| json!([off, enc_data(d)])).collect();
            let targets: Vec<i64> = obj.get_referenced_ids_overapproximation().iter().map(pool_index).collect();
            json!([pool_index(id), obj.is_unique(), cells, targets])
        })
        .collect();
    json!({"regs": regs, "objs": objs})
}

fn eval_ms(pi: &'static PointerInference<'static>, init: &Value, defs: &[Term<Def>]) -> Value {
    let (init, defs) = (init.clone(), defs.to_vec());
    let r = catch(move || {
        let ctx = pi.get_context();
        let mut st = build_state(&init);
        let mut states = Vec::new();
        for d in defs.iter() {
            match ctx.update_def(&st, d) {
                Some(next) => {
                    states.push(enc_state(&next));
                    st = next;
                }
                None => {
                    states.push(Value::Null);
                    break;
                }
            }
        }
        Value::Array(states)
    });
    match r {
        Ok(v) => v,
        Err(p) => Value::String(format!("panic:{}", p.replace(' ', "_"))),
    }
}

fn def_kind(d: &Def) -> &'static str {
    match d {
        Def::Store { .. } => "store",
        Def::Load { .. } => "load",
        Def::Assign { .. } => "assign",
    }
}

fn emit_ms(out: &mut Out, pi: &'static PointerInference<'static>, init: &Value, defs: &[Term<Def>], seed: u64) {
    let r = eval_ms(pi, init, defs);
    if r.is_string() {
        out.count("ms:panic");
    } else {
        for d in defs {
            out.count(&format!("ms:{}", def_kind(&d.term)));
        }
        if r.as_array().map(|a| a.iter().any(|x| x.is_null())).unwrap_or(false) {
            out.count("ms:cut-by-certain-null");
        }
    }
    let dj: Vec<Value> = defs.iter().map(|d| serde_json::to_value(&d.term).unwrap()).collect();
    let line = json!({"q": "ms", "init": init, "defs": dj, "seed": seed, "sid": stack_id_index(), "gid": global_id_index(), "impl": r}).to_string();
    let key = format!("{}|{}", init, Value::Array(dj));
    // non-trivial: some object holds a cell at the end
    let nontrivial = r
        .as_array()
        .and_then(|a| a.iter().rev().find(|x| !x.is_null()))
        .map(|s| s["objs"].as_array().unwrap().iter().any(|o| !o[2].as_array().unwrap().is_empty()))
        .unwrap_or(false);
    out.case(&line, if nontrivial { Some(&key) } else { None });
}

fn ptr_data(id_idx: usize, off: i64) -> Value {
    json!({"size": 8, "rel": [[id_idx, {"w": 64, "s": off, "e": off, "st": 0, "lo": null, "up": null, "d": 0}]], "abs": null, "top": false})
}

fn abs_data(size: u64, s: i64, e: i64, st: u64) -> Value {
    json!({"size": size, "rel": [], "abs": {"w": 8 * size, "s": s, "e": e, "st": st, "lo": null, "up": null, "d": 0}, "top": false})
}

/// small value register contents: constants and short intervals (what stack slots usually hold)
fn gen_small_abs(rng: &mut Rng, size: u64) -> Value {
    let bits = 8 * size;
    if rng.chance(1, 4) {
        return json!({"size": size, "rel": [], "abs": gen_iv(rng, bits), "top": rng.chance(1, 8)});
    }
    let lo = smin_b(bits).max(-100) as i64;
    let hi = smax_b(bits).min(100) as i64;
    let s = rng.range(lo, hi);
    if rng.chance(1, 2) {
        abs_data(size, s, s, 0)
    } else {
        let st = *rng.pick(&[1u64, 1, 2, 4]);
        let n = rng.below(6) as i64;
        let e = s + (st as i64) * n;
        if n == 0 || e > hi {
            abs_data(size, s, s, 0)
        } else {
            abs_data(size, s, e, st)
        }
    }
}

/// directed sequences around one stack slot: write it exactly, then read / overwrite it through a pointer with
/// several targets (a missing object, an inexact offset, a second object) and read it back exactly
fn gen_ms_directed_case(rng: &mut Rng, out: &mut Out) -> (Value, Vec<Term<Def>>) {
    let sid = stack_id_index();
    let pool = id_pool();
    let rdi_idx = pool.iter().position(|x| *x == AbstractIdentifier::from_var(Tid::new("f0"), &var("RDI", 8))).unwrap();
    let rsi_idx = pool.iter().position(|x| *x == AbstractIdentifier::from_var(Tid::new("f0"), &var("RSI", 8))).unwrap();
    let sp_off = 8 * rng.range(-12, -2);
    let k = 8 * rng.range(0, 3);
    let size = *rng.pick(&[8u64, 8, 4, 1]);
    let iv = |s: i64, e: i64, st: u64| json!({"w": 64, "s": s, "e": e, "st": st, "lo": null, "up": null, "d": 0});
    let slot = sp_off + k;
    // the second pointer
    let mut rel: Vec<Value> = Vec::new();
    let mut top = false;
    let mut extra = Vec::new();
    match rng.below(6) {
        0 => {
            rel.push(json!([sid, iv(slot, slot, 0)]));
            rel.push(json!([rsi_idx, iv(0, 0, 0)])); // no object
        }
        1 => {
            rel.push(json!([sid, iv(slot, slot, 0)]));
            rel.push(json!([rdi_idx, iv(0, 8, 8)])); // object, inexact offset
            extra.push(json!([rdi_idx, true]));
        }
        2 => {
            rel.push(json!([sid, iv(slot, slot, 0)]));
            rel.push(json!([rdi_idx, iv(8, 8, 0)])); // object, exact offset
            extra.push(json!([rdi_idx, rng.chance(3, 4)]));
        }
        3 => rel.push(json!([sid, iv(slot - 8, slot + 8, *rng.pick(&[8u64, 4, 1]))])), // inexact stack offset
        4 => {
            rel.push(json!([sid, iv(slot, slot, 0)]));
            top = true;
        }
        _ => rel.push(json!([sid, iv(slot, slot, 0)])),
    }
    rel.sort_by_key(|r| r[0].as_u64().unwrap());
    let value_reg = match size {
        8 => "RAX",
        4 => "E4A",
        2 => "H2A",
        _ => "B1A",
    };
    let other_reg = match size {
        8 => "RDX",
        4 => "E4B",
        2 => "H2A",
        _ => "CF",
    };
    let regs = json!([
        ["RSP", 8, ptr_data(sid, sp_off)],
        ["RBX", 8, {"size": 8, "rel": rel, "abs": null, "top": top}],
        ["RDI", 8, ptr_data(rdi_idx, 8)],
        [value_reg, size, gen_small_abs(rng, size)],
        [other_reg, size, gen_small_abs(rng, size)],
    ]);
    let init = json!({"regs": regs, "globals": [], "extra": extra, "stack_unique": !rng.chance(1, 10)});
    let slot_addr = || e_bin(BinOpType::IntAdd, e_var("RSP", 8), e_const(k as u64, 8));
    let mut defs = vec![d_store("d0", slot_addr(), e_var(value_reg, size))];
    if rng.chance(1, 2) {
        defs.push(d_store("d1", e_bin(BinOpType::IntAdd, e_var("RDI", 8), e_const(0, 8)), e_var(other_reg, size)));
    }
    match rng.below(3) {
        0 => defs.push(d_load("d2", var(other_reg, size), e_var("RBX", 8))),
        1 => {
            defs.push(d_store("d2", e_var("RBX", 8), e_var(other_reg, size)));
            defs.push(d_load("d3", var(value_reg, size), slot_addr()));
        }
        _ => {
            defs.push(d_load("d2", var(other_reg, size), e_var("RBX", 8)));
            defs.push(d_store("d3", e_var("RBX", 8), e_var(value_reg, size)));
            defs.push(d_load("d4", var(value_reg, size), slot_addr()));
        }
    }
    out.count("gen:ms-directed");
    (init, defs)
}

fn gen_ms(rng: &mut Rng, out: &mut Out, pi: &'static PointerInference<'static>) {
    let (init, defs) = gen_ms_case(rng, out);
    let seed = rng.next() >> 12;
    emit_ms(out, pi, &init, &defs, seed);
}

fn gen_ms_case(rng: &mut Rng, out: &mut Out) -> (Value, Vec<Term<Def>>) {
    if rng.chance(1, 6) {
        return gen_ms_directed_case(rng, out);
    }
    let sid = stack_id_index();
    let pool = id_pool();
    let rdi_idx = pool.iter().position(|x| *x == AbstractIdentifier::from_var(Tid::new("f0"), &var("RDI", 8))).unwrap();
    let rsi_idx = pool.iter().position(|x| *x == AbstractIdentifier::from_var(Tid::new("f0"), &var("RSI", 8))).unwrap();
    let globals: Vec<u64> = if rng.chance(1, 4) { vec![0x601000, 0x601008] } else { vec![] };
    let mut regs: Vec<Value> = Vec::new();
    let sp_off = 8 * rng.range(-12, 2);
    regs.push(json!(["RSP", 8, ptr_data(sid, sp_off)]));
    let has_bp = rng.chance(1, 2);
    if has_bp {
        regs.push(json!(["RBP", 8, ptr_data(sid, sp_off + 8 * rng.range(0, 6))]));
    }
    let has_rdi = rng.chance(1, 2);
    if has_rdi {
        regs.push(json!(["RDI", 8, ptr_data(rdi_idx, 8 * rng.range(-2, 4))]));
    }
    // RBX: a stack pointer with an inexact offset, a pointer with two targets, or a value
    let rbx_kind = rng.below(8);
    match rbx_kind {
        0 | 1 => {
            let s = sp_off + 8 * rng.range(-3, 3);
            let n = 1 + rng.below(4) as i64;
            let st = *rng.pick(&[8u64, 8, 4, 1]);
            regs.push(json!(["RBX", 8, {"size": 8, "rel": [[sid, {"w": 64, "s": s, "e": s + n * st as i64, "st": st, "lo": null, "up": null, "d": 0}]], "abs": null, "top": false}]));
        }
        2 => {
            // two targets (merge-write) or a target plus absolute/top; the stack offset sometimes inexact
            let (s0, e0, st0) = if rng.chance(1, 3) { (sp_off - 8, sp_off + 8, 8u64) } else { (sp_off, sp_off, 0) };
            let mut rel = vec![json!([sid, {"w": 64, "s": s0, "e": e0, "st": st0, "lo": null, "up": null, "d": 0}])];
            let mut abs = Value::Null;
            let mut top = false;
            match rng.below(3) {
                0 => {
                    // the second target: RDI's identifier (which may have an object) or RSI's (which never has)
                    let other = if rng.chance(1, 2) { rdi_idx } else { rsi_idx };
                    let o = if rng.chance(1, 4) { 8 } else { 0 };
                    rel.push(json!([other, {"w": 64, "s": o, "e": o, "st": 0, "lo": null, "up": null, "d": 0}]))
                }
                1 => abs = json!({"w": 64, "s": 0x2000, "e": 0x2000, "st": 0, "lo": null, "up": null, "d": 0}),
                _ => top = true,
            }
            rel.sort_by_key(|r| r[0].as_u64().unwrap());
            regs.push(json!(["RBX", 8, {"size": 8, "rel": rel, "abs": abs, "top": top}]));
        }
        3 => regs.push(json!(["RBX", 8, {"size": 8, "rel": [[sid, gen_iv(rng, 64)]], "abs": null, "top": false}])),
        4 => regs.push(json!(["RBX", 8, gen_data(rng, 8)])),
        _ => regs.push(json!(["RBX", 8, gen_small_abs(rng, 8)])),
    }
    match rng.below(6) {
        0 if !globals.is_empty() => regs.push(json!(["RCX", 8, abs_data(8, globals[0] as i64, globals[0] as i64, 0)])),
        1 => regs.push(json!(["RCX", 8, abs_data(8, 0x3000, 0x3000, 0)])),
        2 => {}
        3 => regs.push(json!(["RCX", 8, gen_data(rng, 8)])),
        _ => regs.push(json!(["RCX", 8, gen_small_abs(rng, 8)])),
    }
    for n in ["RAX", "RDX"] {
        if rng.chance(4, 5) {
            regs.push(json!([n, 8, gen_small_abs(rng, 8)]));
        }
    }
    for (names, size) in [(&EV_REGS4[..], 4u64), (&EV_REGS2[..], 2), (&EV_REGS1[..], 1)] {
        for n in names {
            if rng.chance(3, 4) {
                regs.push(json!([n, size, gen_small_abs(rng, size)]));
            }
        }
    }
    let mut extra = Vec::new();
    if (has_rdi && rng.chance(1, 2)) || (!has_rdi && rbx_kind == 2 && rng.chance(1, 2)) {
        extra.push(json!([rdi_idx, rng.chance(3, 4)]));
    }
    let init = json!({"regs": regs, "globals": globals, "extra": extra, "stack_unique": !rng.chance(1, 12)});

    // a small set of offsets so that accesses of different widths overlap
    let offs: Vec<i64> = (0..3).map(|_| rng.range(-6, 3) * 4 + if rng.chance(1, 5) { rng.range(-3, 3) } else { 0 }).collect();
    let reg_of = |rng: &mut Rng, size: u64| -> &'static str {
        match size {
            8 => *rng.pick(&["RAX", "RDX", "RCX", "RSI"]),
            4 => *rng.pick(&EV_REGS4),
            2 => *rng.pick(&EV_REGS2),
            _ => *rng.pick(&EV_REGS1),
        }
    };
    let addr = |rng: &mut Rng| -> Expression {
        let k = *rng.pick(&offs);
        let plus = |base: &str, k: i64| {
            if k == 0 && rng_bit(k) {
                e_var(base, 8)
            } else if k < 0 {
                e_bin(BinOpType::IntSub, e_var(base, 8), e_const((-k) as u64, 8))
            } else {
                e_bin(BinOpType::IntAdd, e_var(base, 8), e_const(k as u64, 8))
            }
        };
        match rng.below(20) {
            0..=9 => plus("RSP", k),
            10..=12 => plus(if has_bp { "RBP" } else { "RSP" }, k - 8),
            13 | 14 => e_var("RBX", 8),
            15 => plus("RBX", k),
            16 => e_var("RCX", 8),
            17 => plus("RDI", k),
            18 => e_const(*rng.pick(&[0x601000u64, 0x3000, 8, 0]), 8),
            _ => e_bin(BinOpType::IntAdd, e_var("RSP", 8), e_var("RAX", 8)),
        }
    };
    let n_defs = 1 + rng.below(6);
    let mut defs = Vec::new();
    for i in 0..n_defs {
        let size = *rng.pick(&[8u64, 8, 8, 4, 4, 2, 1]);
        let t = format!("d{}", i);
        match rng.below(10) {
            0..=4 => {
                let value = match rng.below(8) {
                    0 => {
                        let bits = 8 * size;
                        let v = gen_sval(rng, bits) as i64 as u64;
                        e_const(if bits >= 64 { v } else { v & ((1u64 << bits) - 1) }, size)
                    }
                    1 if size == 8 => e_var("RSP", 8),
                    2 if size == 8 => e_bin(BinOpType::IntAdd, e_var("RSP", 8), e_const(16, 8)),
                    3 if size == 8 => e_var("RDI", 8),
                    4 if size < 8 => e_sub(0, size, e_var("RAX", 8)),
                    _ => e_var(reg_of(rng, size), size),
                };
                defs.push(d_store(&t, addr(rng), value));
            }
            5..=8 => defs.push(d_load(&t, var(reg_of(rng, size), size), addr(rng))),
            _ => {
                let e = match rng.below(3) {
                    0 => e_bin(BinOpType::IntAdd, e_var("RSP", 8), e_const((8 * rng.range(-3, 3)) as u64, 8)),
                    1 => e_bin(BinOpType::IntAdd, e_var("RAX", 8), e_const(rng.below(9), 8)),
                    _ => e_var("RDX", 8),
                };
                defs.push(d_assign(&t, var(*rng.pick(&["RAX", "RSI", "RBP", "RSP"]), 8), e));
            }
        }
    }
    (init, defs)
}

fn rng_bit(k: i64) -> bool {
    k == 0
}

fn eval_sc(pi: &'static PointerInference<'static>, init: &Value, cond: &Expression, is_true: bool) -> Value {
    let (init, cond) = (init.clone(), cond.clone());
    let r = catch(move || {
        let ctx = pi.get_context();
        let st = build_state(&init);
        let b = blk("f0_b0", vec![], vec![]);
        match ctx.specialize_conditional(&st, &cond, &b, is_true) {
            Some(next) => enc_state(&next),
            None => Value::Null,
        }
    });
    match r {
        Ok(v) => v,
        Err(p) => Value::String(format!("panic:{}", p.replace(' ', "_"))),
    }
}

fn emit_sc(out: &mut Out, pi: &'static PointerInference<'static>, init: &Value, cond: &Expression, is_true: bool, seed: u64, hints: &[Value]) {
    let r = eval_sc(pi, init, cond, is_true);
    if r.is_string() {
        out.count("sc:panic");
    } else if r.is_null() {
        out.count("sc:unsatisfiable");
    } else {
        out.count("sc:specialised");
    }
    let cj = serde_json::to_value(cond).unwrap();
    let line = json!({"q": "sc", "init": init, "cond": cj, "is_true": is_true, "seed": seed, "sid": stack_id_index(), "gid": global_id_index(), "hints": hints, "impl": r}).to_string();
    let key = format!("{}|{}|{}", init, cj, is_true);
    // non-trivial: the state changed (or became unsatisfiable)
    let before = catch({
        let init = init.clone();
        move || enc_state(&build_state(&init))
    })
    .unwrap_or(Value::Null);
    let nontrivial = !r.is_string() && r != before;
    out.case(&line, if nontrivial { Some(&key) } else { None });
}

const CMP6: [&str; 6] = ["IntEqual", "IntNotEqual", "IntLess", "IntLessEqual", "IntSLess", "IntSLessEqual"];

fn gen_sc(rng: &mut Rng, out: &mut Out, pi: &'static PointerInference<'static>) {
    let sid = stack_id_index();
    let pool = id_pool();
    let rdi_idx = pool.iter().position(|x| *x == AbstractIdentifier::from_var(Tid::new("f0"), &var("RDI", 8))).unwrap();
    let globals: Vec<u64> = match rng.below(4) {
        0 => vec![0x601000, 8],
        _ => vec![],
    };
    let mut regs: Vec<Value> = Vec::new();
    let sp_off = 8 * rng.range(-12, 2);
    if rng.chance(5, 6) {
        regs.push(json!(["RSP", 8, ptr_data(sid, sp_off)]));
    }
    if rng.chance(1, 2) {
        // a second stack pointer: pointer comparisons
        let d = if rng.chance(1, 2) { ptr_data(sid, sp_off + 8 * rng.range(-1, 1)) } else { json!({"size": 8, "rel": [[sid, gen_iv(rng, 64)]], "abs": null, "top": false}) };
        regs.push(json!(["RBP", 8, d]));
    }
    if rng.chance(1, 2) {
        regs.push(json!(["RDI", 8, json!({"size": 8, "rel": [[rdi_idx, gen_iv(rng, 64)]], "abs": null, "top": false})]));
    }
    let mut values: Vec<(String, u64, Value)> = Vec::new();
    for (names, size) in [(&MS_REGS8[3..], 8u64), (&EV_REGS4[..], 4), (&EV_REGS2[..], 2), (&EV_REGS1[..], 1)] {
        for n in names {
            if rng.chance(3, 4) {
                let mut d = match rng.below(8) {
                    0 => gen_data(rng, size),
                    1 | 2 => json!({"size": size, "rel": [], "abs": gen_iv(rng, 8 * size), "top": rng.chance(1, 6)}),
                    _ => gen_small_abs(rng, size),
                };
                if shape(&d) == "empty" || shape(&d) == "top" {
                    d = gen_small_abs(rng, size);
                }
                if size == 1 && rng.chance(2, 3) {
                    let (s, e, st) = *rng.pick(&[(0, 0, 0), (1, 1, 0), (0, 1, 1), (0, 1, 1)]);
                    d = abs_data(1, s, e, st);
                }
                values.push((n.to_string(), size, d.clone()));
                regs.push(json!([n, size, d]));
            }
        }
    }
    let stack_unique = !rng.chance(1, 10);

    // an operand of `size` bytes: a register, or a constant next to the bounds of the other operand
    let reg_operand = |rng: &mut Rng, size: u64| -> (Expression, Option<Value>) {
        let names: Vec<&(String, u64, Value)> = values.iter().filter(|v| v.1 == size).collect();
        if !names.is_empty() && rng.chance(5, 6) {
            let v = *rng.pick(&names);
            (e_var(&v.0, size), Some(v.2.clone()))
        } else {
            (ev_reg(rng, size), None)
        }
    };
    let const_near = |rng: &mut Rng, size: u64, other: &Option<Value>| -> Expression {
        let bits = 8 * size;
        let (lo, hi) = (smin_b(bits), smax_b(bits));
        let mut cands: Vec<i128> = vec![0, 1, -1, lo, hi, lo + 1, hi - 1];
        if let Some(d) = other {
            if !d["abs"].is_null() {
                let s = get_i128(&d["abs"]["s"]);
                let e = get_i128(&d["abs"]["e"]);
                let st = d["abs"]["st"].as_u64().unwrap_or(0) as i128;
                for c in [s, e, s - 1, e + 1, s + 1, e - 1, s + st, e - st, (s + e) / 2] {
                    if c >= lo && c <= hi {
                        cands.push(c);
                        cands.push(c);
                    }
                }
            }
        }
        let c = if rng.chance(1, 10) { gen_sval(rng, bits) } else { *rng.pick(&cands) };
        let v = c as i64 as u64;
        e_const(if bits >= 64 { v } else { v & ((1u64 << bits) - 1) }, size)
    };
    let cmp = |rng: &mut Rng| -> Expression {
        let size = *rng.pick(&[8u64, 8, 8, 4, 2, 1]);
        let op = op_from_name::<BinOpType>(*rng.pick(&CMP6));
        let (x, xd) = reg_operand(rng, size);
        match rng.below(10) {
            0..=3 => e_bin(op, x, const_near(rng, size, &xd)),
            4..=6 => e_bin(op, const_near(rng, size, &xd), x),
            7 => {
                let (y, _) = reg_operand(rng, size);
                e_bin(op, x, y)
            }
            8 if size == 8 => {
                // pointer comparisons
                let p = *rng.pick(&["RSP", "RBP", "RDI"]);
                let q = *rng.pick(&["RSP", "RBP", "RDI", "RAX"]);
                e_bin(op, e_var(p, 8), e_var(q, 8))
            }
            _ => e_bin(op, x.clone(), x),
        }
    };
    // `(x OP k) cmp c` / `(x OP y) cmp c`: bitwise, arithmetic and shift operators inside the comparison
    let nested = |rng: &mut Rng| -> Expression {
        let op = op_from_name::<BinOpType>(*rng.pick(&CMP6));
        let inner = *rng.pick(&NEST_OPS);
        let size = *rng.pick(&[8u64, 8, 4, 1]);
        let (x, xd) = reg_operand(rng, size);
        let x = if size < 8 && rng.chance(1, 3) { e_sub(0, size, e_var(*rng.pick(&["RAX", "RBX", "RCX", "RDX"]), 8)) } else { x };
        let (k, c) = *rng.pick(&nest_pairs(inner));
        let is_shift = matches!(inner, BinOpType::IntLeft | BinOpType::IntRight | BinOpType::IntSRight);
        let second = if rng.chance(1, 5) && !is_shift {
            reg_operand(rng, size).0
        } else if rng.chance(1, 8) {
            const_near(rng, size, &None)
        } else {
            e_const(k & mask_w(size), size)
        };
        let lhs = if rng.chance(1, 8) && !is_shift { e_bin(inner, second, x) } else { e_bin(inner, x, second) };
        let cst = if rng.chance(1, 6) { const_near(rng, size, &xd) } else { e_const(c & mask_w(size), size) };
        if rng.chance(1, 2) {
            e_bin(op, lhs, cst)
        } else {
            e_bin(op, cst, lhs)
        }
    };
    let cond = match rng.below(26) {
        20..=22 => {
            let e = nested(rng);
            if rng.chance(1, 4) {
                e_un(UnOpType::BoolNegate, e)
            } else {
                e
            }
        }
        23 => {
            // a bare 1-byte bitwise operation as condition
            let x = if rng.chance(1, 2) { e_sub(0, 1, e_var(*rng.pick(&["RAX", "RBX", "RCX", "RDX"]), 8)) } else { reg_operand(rng, 1).0 };
            let op = *rng.pick(&[BinOpType::IntAnd, BinOpType::IntAnd, BinOpType::IntOr, BinOpType::IntXOr]);
            let y = if rng.chance(1, 3) { reg_operand(rng, 1).0 } else { e_const(*rng.pick(&[1u64, 1, 0, 3, 0xff, 4]), 1) };
            let e = e_bin(op, x, y);
            if rng.chance(1, 3) {
                e_bin(BinOpType::IntAnd, e, e_const(1, 1))
            } else {
                e
            }
        }
        24 => {
            let op = *rng.pick(&[BinOpType::BoolAnd, BinOpType::BoolOr]);
            if rng.chance(1, 2) {
                e_bin(op, nested(rng), cmp(rng))
            } else {
                e_bin(op, nested(rng), nested(rng))
            }
        }
        25 => gen_ev_expr(rng, 1, 2, &globals),
        0..=9 => cmp(rng),
        10..=12 => e_un(UnOpType::BoolNegate, cmp(rng)),
        13 => e_un(UnOpType::BoolNegate, e_un(UnOpType::BoolNegate, cmp(rng))),
        14 | 15 => {
            let (f, _) = reg_operand(rng, 1);
            if rng.chance(1, 3) {
                e_un(UnOpType::BoolNegate, f)
            } else {
                f
            }
        }
        16 => {
            // comparisons of truncated / extended registers
            let size = *rng.pick(&[4u64, 2, 1]);
            let op = op_from_name::<BinOpType>(*rng.pick(&CMP6));
            let x = if rng.chance(1, 2) {
                e_sub(0, size, e_var(*rng.pick(&["RAX", "RBX", "RCX", "RDX"]), 8))
            } else {
                let (y, _) = reg_operand(rng, size);
                return_cast(rng, y, size)
            };
            let s2 = u64::from(x.bytesize());
            e_bin(op, x, const_near(rng, s2, &None))
        }
        17 => {
            let op = op_from_name::<BinOpType>(*rng.pick(&BIN_BOOL));
            e_bin(op, cmp(rng), cmp(rng))
        }
        18 => {
            // arithmetic inside the comparison
            let op = op_from_name::<BinOpType>(*rng.pick(&CMP6));
            let size = *rng.pick(&[8u64, 4]);
            let (x, xd) = reg_operand(rng, size);
            let k = const_near(rng, size, &None);
            let lhs = e_bin(*rng.pick(&[BinOpType::IntAdd, BinOpType::IntSub]), x, k);
            e_bin(op, lhs, const_near(rng, size, &xd))
        }
        _ => gen_ev_expr(rng, 1, 2, &globals),
    };
    // concrete register values around the solutions of nested comparisons (the driver uses those inside γ of
    // the register's value); half of the time the register's value is replaced by one that contains some of them
    let mut nest = Vec::new();
    collect_nested(rng, &cond, &mut nest);
    let mut hints: Vec<Value> = Vec::new();
    for (name, vs, low, w) in nest.iter().take(64) {
        let m = mask_w(*w);
        let upper = if vs == w || rng.chance(1, 2) { 0 } else { rng.next() & !m & mask_w(*vs) };
        hints.push(json!([name, vs, upper | (low & m)]));
    }
    if !nest.is_empty() && rng.chance(1, 2) {
        let (name, vs, _, w) = nest[0].clone();
        let lows: Vec<i64> = nest.iter().filter(|n| n.0 == name && n.2 < 0x10000).map(|n| n.2 as i64).collect();
        let d = match rng.below(4) {
            0 => None,
            1 => Some(abs_data(vs, 0, if vs == 1 { 0x7f } else { 0xfff }, 1)),
            2 if vs > 1 => Some(abs_data(vs, -0x100, 0x1ff, 1)),
            _ => {
                let lo = lows.iter().copied().min().unwrap_or(0);
                let hi = lows.iter().copied().max().unwrap_or(16);
                let cap = smax_b(8 * vs) as i64;
                Some(abs_data(vs, (lo - rng.below(3) as i64).min(cap), (hi + rng.below(3) as i64).min(cap), 1))
            }
        };
        let _ = w;
        regs.retain(|r| r[0] != Value::String(name.clone()));
        if let Some(d) = d {
            regs.push(json!([name, vs, d]));
        }
    }
    let init = json!({"regs": regs, "globals": globals, "extra": [], "stack_unique": stack_unique});
    let seed = rng.next() >> 12;
    emit_sc(out, pi, &init, &cond, rng.chance(1, 2), seed, &hints);
}

/// the directed always-run set of the "sc" stream: `(x OP k) cmp c` for every nested operator × (k, c) pair ×
/// comparison × orientation × truth value of the branch, `x` a register whose value is unknown, a wide interval or
/// a short interval around the solutions; every case carries the solutions of `(x OP k) == c` and their neighbours
/// as proposed concrete values. Thinned by `stride`.
fn gen_sc_directed(rng: &mut Rng, out: &mut Out, pi: &'static PointerInference<'static>, stride: u64) {
    let sid = stack_id_index();
    let mut idx = 0u64;
    for inner in NEST_OPS {
        for (k, c) in nest_pairs(inner) {
            for cmp in CMP_OPS {
                for variant in 0..4u64 {
                    idx += 1;
                    if idx % stride != 0 {
                        continue;
                    }
                    let (const_left, is_true) = (variant & 1 == 1, variant & 2 == 2);
                    let w = *rng.pick(&[8u64, 8, 4, 1]);
                    let m = mask_w(w);
                    let (name, x) = match w {
                        8 => ("RAX", e_var("RAX", 8)),
                        4 => ("E4A", e_var("E4A", 4)),
                        _ => ("B1A", e_var("B1A", 1)),
                    };
                    let lhs = e_bin(inner, x, e_const(k & m, w));
                    let mut cond = if const_left { e_bin(cmp, e_const(c & m, w), lhs) } else { e_bin(cmp, lhs, e_const(c & m, w)) };
                    if idx % 7 == 0 {
                        cond = e_un(UnOpType::BoolNegate, cond);
                    }
                    if idx % 31 == 0 && w == 1 {
                        // the bare 1-byte operation
                        cond = e_bin(inner, e_var("B1A", 1), e_const(k & m, 1));
                    }
                    let cands = nest_candidates(rng, inner, k & m, c & m, w);
                    let hints: Vec<Value> = cands.iter().map(|v| json!([name, w, v])).collect();
                    let mut regs = vec![json!(["RSP", 8, ptr_data(sid, -16)])];
                    let small: Vec<i64> = cands.iter().filter(|v| **v < 0x80).map(|v| *v as i64).collect();
                    match rng.below(3) {
                        0 => {}
                        1 => regs.push(json!([name, w, abs_data(w, 0, if w == 1 { 0x7f } else { 0xfff }, 1)])),
                        _ => {
                            let lo = small.iter().copied().min().unwrap_or(0);
                            let hi = small.iter().copied().max().unwrap_or(16);
                            regs.push(json!([name, w, abs_data(w, (lo - 1).max(if w == 1 { -128 } else { -4096 }), (hi + 1).min(0x7f), 1)]));
                        }
                    }
                    let init = json!({"regs": regs, "globals": [], "extra": [], "stack_unique": true});
                    out.count("gen:sc-directed-nested");
                    emit_sc(out, pi, &init, &cond, is_true, rng.next() >> 12, &hints);
                }
            }
        }
    }
}

fn return_cast(rng: &mut Rng, y: Expression, size: u64) -> Expression {
    let to = *rng.pick(&[8u64, 4]);
    if to > size {
        e_cast(*rng.pick(&[CastOpType::IntZExt, CastOpType::IntSExt]), to, y)
    } else {
        y
    }
}


// ------------------------------------------------------------------------------------------
// PI-lite streams 5 and 6: the real `State::merge` ("mg") and `Context::update_call_stub` ("cs")

fn arg_reg(name: &str) -> Arg {
    Arg::Register { expr: e_var(name, 8), data_type: None }
}

/// the extern symbols of the harness project: none is `sscanf`, an allocation symbol or a stubbed library function
fn cs_externs() -> Vec<ExternSymbol> {
    vec![
        extern_symbol("x_none", "xfn_none", vec![], vec![], false),
        extern_symbol("x_rdi", "xfn_rdi", vec![arg_reg("RDI")], vec![arg_reg("RAX")], false),
        extern_symbol("x_two", "xfn_two", vec![arg_reg("RSI"), arg_reg("RDX")], vec![arg_reg("RAX")], false),
        extern_symbol(
            "x_sub",
            "xfn_sub",
            vec![Arg::Register { expr: e_bin(BinOpType::IntAdd, e_var("RDI", 8), e_const(8, 8)), data_type: None }],
            vec![],
            false,
        ),
        extern_symbol(
            "x_stack",
            "xfn_stack",
            vec![
                arg_reg("RDI"),
                Arg::Stack { address: e_bin(BinOpType::IntAdd, e_var("RSP", 8), e_const(8, 8)), size: ByteSize::new(8), data_type: None },
            ],
            vec![arg_reg("RAX")],
            false,
        ),
    ]
}

/// the state after pushing `defs` through the real `update_def` (stops where `update_def` returns `None`)
fn run_defs(pi: &'static PointerInference<'static>, init: &Value, defs: &[Term<Def>]) -> PiState {
    let ctx = pi.get_context();
    let mut st = build_state(init);
    for d in defs {
        match ctx.update_def(&st, d) {
            Some(next) => st = next,
            None => break,
        }
    }
    st
}

fn defs_json(defs: &[Term<Def>]) -> Value {
    Value::Array(defs.iter().map(|d| serde_json::to_value(&d.term).unwrap()).collect())
}

fn defs_from_json(v: &Value) -> Vec<Term<Def>> {
    v.as_array()
        .unwrap()
        .iter()
        .enumerate()
        .map(|(i, d)| Term { tid: tid(&format!("d{}", i)), term: serde_json::from_value(d.clone()).expect("def") })
        .collect()
}

fn eval_mg(pi: &'static PointerInference<'static>, ia: &Value, da: &[Term<Def>], ib: &Value, db: &[Term<Def>]) -> Value {
    let (ia, ib, da, db) = (ia.clone(), ib.clone(), da.to_vec(), db.to_vec());
    let r = catch(move || {
        let a = run_defs(pi, &ia, &da);
        let b = run_defs(pi, &ib, &db);
        let ab = a.merge(&b);
        let ba = b.merge(&a);
        json!({"a": enc_state(&a), "b": enc_state(&b), "ab": enc_state(&ab), "ba": enc_state(&ba)})
    });
    match r {
        Ok(v) => v,
        Err(p) => Value::String(format!("panic:{}", p.replace(' ', "_"))),
    }
}

fn emit_mg(out: &mut Out, pi: &'static PointerInference<'static>, ia: &Value, da: &[Term<Def>], ib: &Value, db: &[Term<Def>], seed: u64) {
    let r = eval_mg(pi, ia, da, ib, db);
    let mut nontrivial = false;
    if r.is_string() {
        out.count("mg:panic");
    } else {
        out.count("mg:merged");
        let cells = |s: &Value| -> usize { s["objs"].as_array().unwrap().iter().map(|o| o[2].as_array().unwrap().len()).sum() };
        let (ca, cb, cab) = (cells(&r["a"]), cells(&r["b"]), cells(&r["ab"]));
        if ca > 0 && cb > 0 {
            out.count("mg:both-sides-have-cells");
        }
        if cab > 0 {
            out.count("mg:merged-has-cells");
            nontrivial = true;
        }
        if r["a"]["objs"].as_array().unwrap().len() != r["b"]["objs"].as_array().unwrap().len() {
            out.count("mg:object-on-one-side-only");
        }
    }
    let line = json!({"q": "mg", "ia": ia, "da": defs_json(da), "ib": ib, "db": defs_json(db), "seed": seed,
        "sid": stack_id_index(), "gid": global_id_index(), "impl": r})
    .to_string();
    let key = format!("{}|{}|{}|{}", ia, defs_json(da), ib, defs_json(db));
    out.case(&line, if nontrivial { Some(&key) } else { None });
}

fn gen_mg(rng: &mut Rng, out: &mut Out, pi: &'static PointerInference<'static>) {
    let (ia, da) = gen_ms_case(rng, out);
    let (ib0, db) = gen_ms_case(rng, out);
    // mostly the same start state and two different paths (a join after a branch); sometimes different start states
    // (other register values, other objects) with the same stack identifier
    let ib = if rng.chance(2, 3) { ia.clone() } else { ib0 };
    // make the two paths share slots: prepend a common prefix to both sometimes
    let (da, db) = if rng.chance(1, 3) && !da.is_empty() {
        let k = 1 + rng.below(da.len() as u64) as usize;
        let mut db2 = da[..k].to_vec();
        db2.extend(db.iter().cloned());
        (da, db2)
    } else {
        (da, db)
    };
    let seed = rng.next() >> 12;
    emit_mg(out, pi, &ia, &da, &ib, &db, seed);
}

fn eval_cs(pi: &'static PointerInference<'static>, init: &Value, defs: &[Term<Def>], ext: &str) -> Value {
    let (init, defs, ext) = (init.clone(), defs.to_vec(), ext.to_string());
    let r = catch(move || {
        let ctx = pi.get_context();
        let st = run_defs(pi, &init, &defs);
        let call = j_call("f0_call", &ext, Some("f0_ret"));
        let after = match ctx.update_call_stub(&st, &call) {
            Some(next) => enc_state(&next),
            None => Value::Null,
        };
        json!({"before": enc_state(&st), "after": after})
    });
    match r {
        Ok(v) => v,
        Err(p) => Value::String(format!("panic:{}", p.replace(' ', "_"))),
    }
}

fn emit_cs(out: &mut Out, pi: &'static PointerInference<'static>, init: &Value, defs: &[Term<Def>], ext: &str, seed: u64) {
    let r = eval_cs(pi, init, defs, ext);
    let mut nontrivial = false;
    if r.is_string() {
        out.count("cs:panic");
    } else {
        out.count(&format!("cs:{}", ext));
        let cells = |s: &Value| -> usize { s["objs"].as_array().map(|a| a.iter().map(|o| o[2].as_array().unwrap().len()).sum()).unwrap_or(0) };
        if cells(&r["before"]) > 0 {
            nontrivial = true;
            if cells(&r["after"]) < cells(&r["before"]) {
                out.count("cs:cells-cleared");
            } else {
                out.count("cs:cells-kept");
            }
        }
    }
    let sym = cs_externs().into_iter().find(|e| e.tid == tid(ext)).expect("extern symbol");
    let line = json!({"q": "cs", "init": init, "defs": defs_json(defs), "ext": ext, "symbol": serde_json::to_value(&sym).unwrap(),
        "cconv": serde_json::to_value(&cconv_x64()).unwrap(), "sp": ["RSP", 8], "seed": seed,
        "sid": stack_id_index(), "gid": global_id_index(), "impl": r})
    .to_string();
    let key = format!("{}|{}|{}", init, defs_json(defs), ext);
    out.case(&line, if nontrivial { Some(&key) } else { None });
}

fn gen_cs(rng: &mut Rng, out: &mut Out, pi: &'static PointerInference<'static>) {
    let (init, mut defs) = gen_ms_case(rng, out);
    // parameter registers that point into the stack frame / hold a pointer loaded from it
    for (i, reg) in ["RDI", "RSI", "RDX"].iter().enumerate() {
        match rng.below(6) {
            0 | 1 => defs.push(d_assign(&format!("p{}", i), var(reg, 8), e_bin(BinOpType::IntAdd, e_var("RSP", 8), e_const((8 * rng.range(0, 4)) as u64, 8)))),
            2 => defs.push(d_load(&format!("p{}", i), var(reg, 8), e_bin(BinOpType::IntAdd, e_var("RSP", 8), e_const((8 * rng.range(0, 3)) as u64, 8)))),
            3 => defs.push(d_assign(&format!("p{}", i), var(reg, 8), e_var("RBX", 8))),
            _ => {}
        }
    }
    let ext = *rng.pick(&["x_none", "x_none", "x_rdi", "x_two", "x_sub", "x_stack"]);
    let seed = rng.next() >> 12;
    emit_cs(out, pi, &init, &defs, ext, seed);
}

fn main() {
    quiet_panics();
    let args = Args::parse();
    let mut out = Out::new(
        &args,
        "generated single-function programs (2-7 blocks, loops and branches, register arithmetic, comparisons and flags, \
         comparisons against boundary constants of 1/2/4/8-byte operands on either side incl. a directed set of 768 programs \
         [operator x side x boundary constant x width x negation], initial states biased around the compared constants, \
         stack loads/stores at constant offsets incl. narrow accesses and frame pointer) analysed by the real function-signature \
         + pointer-inference fixpoint; per program several concrete runs in the Lean reference interpreter; plus direct calls of \
         State::check_def_for_null_dereferences; plus direct calls of DataDomain<IntervalDomain>::bin_op/un_op/cast/subpiece on \
         generated values (all shapes: empty, top, absolute, one/many pointers, mixtures; sizes 1-8 bytes) and of State::eval on \
         generated register states and well-sized expressions; plus sequences of 1-6 generated Defs (stack stores/loads of 1/2/4/8 bytes \
         at overlapping offsets through exact, inexact and multi-target pointers, parameter/global/constant addresses; directed \
         write-read-overwrite sequences around one slot) through the real Context::update_def on constructed states, and the real \
         Context::specialize_conditional on constructed register states for generated conditions (six comparison operators x \
         register/constant on either side with constants at and next to the bounds of the register's value, negations, flags, and \
         conditions outside the proved fragment) for both truth values; the real State::merge in both orders on pairs of states produced by \
         such Def sequences (two paths from one start state, shared prefixes, different start states / objects) and the real \
         Context::update_call_stub for five extern symbols after such sequences (parameter registers pointing into the frame); non-trivial = some register has a bounded value at some block \
         start / the NULL check fired / the first operand is neither empty nor top / the evaluation result is not top / some memory object holds a cell at the end / the specialisation changed the state / the merged state holds a cell / the state before the call holds a cell; distinct \
         by program / by input",
    );
    let pi = leak_pi();
    if let Some(lines) = args.replay_lines() {
        for line in lines {
            let v: Value = serde_json::from_str(&line).expect("replay line");
            if v["q"] == "mg" {
                emit_mg(&mut out, pi, &v["ia"], &defs_from_json(&v["da"]), &v["ib"], &defs_from_json(&v["db"]), v["seed"].as_u64().unwrap_or(1));
            } else if v["q"] == "cs" {
                emit_cs(&mut out, pi, &v["init"], &defs_from_json(&v["defs"]), v["ext"].as_str().unwrap(), v["seed"].as_u64().unwrap_or(1));
            } else if v["q"] == "ms" {
                let defs: Vec<Term<Def>> = v["defs"]
                    .as_array()
                    .unwrap()
                    .iter()
                    .enumerate()
                    .map(|(i, d)| Term { tid: tid(&format!("d{}", i)), term: serde_json::from_value(d.clone()).expect("def") })
                    .collect();
                emit_ms(&mut out, pi, &v["init"], &defs, v["seed"].as_u64().unwrap_or(1));
            } else if v["q"] == "sc" {
                let cond: Expression = serde_json::from_value(v["cond"].clone()).expect("condition");
                emit_sc(&mut out, pi, &v["init"], &cond, v["is_true"].as_bool().unwrap(), v["seed"].as_u64().unwrap_or(1), v["hints"].as_array().map(|a| a.as_slice()).unwrap_or(&[]));
            } else if v["q"] == "dd" {
                emit_dd(&mut out, &v["op"], &v["a"], &v["b"]);
            } else if v["q"] == "ev" {
                let expr: Expression = serde_json::from_value(v["expr"].clone()).expect("expression");
                emit_ev(&mut out, &v["regs"], &v["globals"], &expr, v["seed"].as_u64().unwrap_or(1));
            } else if v["q"] == "null" {
                emit_null(
                    &mut out,
                    v["s"].as_i64().unwrap(),
                    v["e"].as_i64().unwrap(),
                    v["st"].as_u64().unwrap(),
                    v["abs"].as_bool().unwrap(),
                    v["rel"].as_i64(),
                    v["top"].as_bool().unwrap(),
                    v["store"].as_bool().unwrap(),
                );
            } else {
                let project = project_from_json(&v["project"]);
                let seeds: Vec<u64> = v["seeds"].as_array().map(|a| a.iter().filter_map(|x| x.as_u64()).collect()).unwrap_or_default();
                emit_pi(&mut out, &project, &seeds, &v["inits"]);
            }
        }
        out.finish();
        return;
    }
    let mut rng = Rng::new(args.seed);
    let n = args.num("programs", 800, 24000);
    let n_seeds = args.num("runs", 6, 10);
    for _ in 0..n {
        let project = gen_project(&mut rng, &mut out);
        let seeds: Vec<u64> = (0..n_seeds).map(|_| rng.next() >> 12).collect();
        let inits = inits_around_comparisons(&mut rng, &project, seeds.len());
        emit_pi(&mut out, &project, &seeds, &inits);
    }
    // directed comparison programs: always the same set, in every tier
    let stride = args.num("cmpstride", 1, 1);
    gen_directed_cmps(&mut rng, &mut out, stride);
    let nstride = args.num("neststride", 2, 1);
    gen_directed_nested(&mut rng, &mut out, nstride);
    let n_null = args.num("nullchecks", 600, 20000);
    for _ in 0..n_null {
        gen_null(&mut rng, &mut out);
    }
    let n_dd = args.num("dataops", 6000, 200000);
    for _ in 0..n_dd {
        gen_dd(&mut rng, &mut out);
    }
    let n_ev = args.num("evals", 2500, 80000);
    for _ in 0..n_ev {
        gen_ev(&mut rng, &mut out);
    }
    let n_ms = args.num("memseqs", 2500, 80000);
    for _ in 0..n_ms {
        gen_ms(&mut rng, &mut out, pi);
    }
    let sc_stride = args.num("scstride", 1, 1);
    gen_sc_directed(&mut rng, &mut out, pi, sc_stride);
    let n_sc = args.num("conds", 4000, 120000);
    for _ in 0..n_sc {
        gen_sc(&mut rng, &mut out, pi);
    }
    let n_mg = args.num("merges", 2000, 30000);
    for _ in 0..n_mg {
        gen_mg(&mut rng, &mut out, pi);
    }
    let n_cs = args.num("calls", 1500, 20000);
    for _ in 0..n_cs {
        gen_cs(&mut rng, &mut out, pi);
    }
    out.finish();
}
