//! C15 harness: drives the real CWE476 (NULL dereference) check on generated programs.
//!
//! Per case: a generated x86-64 style project (1-3 functions; extern "allocation" calls from the
//! CWE476 symbol list of /repo/src/config.json, register copies/arithmetic, loads/stores, conditional
//! jumps on flags computed from tainted and untainted registers, loops, extern/internal/indirect calls,
//! returns), optionally normalised with the real `Project::normalize*` passes. The real pipeline is
//! run in-process: `get_program_cfg` -> function signatures -> pointer inference -> `CWE476` module.
//!
//! The case line contains the project that was analysed (canonical JSON), the control flow graph the
//! real code built (nodes, typed edges, out-edge order of `graph.edges(n)`, and the node priority
//! order `kosaraju_scc` that `Computation::new` uses), the configured symbol list and the
//! implementation's warnings `[source address, source tid, sink tid]` (after the check's own dedup).
//!
//! Fragment (premise of the property, "the value flows only through registers"): the value stored by
//! every generated `Store` is built from constants and the registers R9/R10/R11/R15 only, which are
//! never assigned from other registers and are no return registers, so taint can never enter memory.
use cwe_checker_lib::analysis::graph::{self, Edge, Graph, Node};
use cwe_checker_lib::intermediate_representation::*;
use cwe_checker_lib::pipeline::AnalysisResults;
use petgraph::visit::EdgeRef;
use verif_harness::ir::*;
use verif_harness::*;

const TAINTABLE: [&str; 10] = ["RAX", "RBX", "RCX", "RDX", "RSI", "RDI", "R8", "R12", "R13", "R14"];
const CLEAN: [&str; 4] = ["R9", "R10", "R11", "R15"];

fn fastcall() -> CallingConvention {
    CallingConvention {
        name: "__fastcall".to_string(),
        integer_parameter_register: ["RCX", "RDX", "R8", "R9"].iter().map(|r| var(r, 8)).collect(),
        float_parameter_register: vec![Expression::Var(var("XMM0", 16)), e_sub(0, 8, Expression::Var(var("XMM1", 16)))],
        integer_return_register: vec![var("RAX", 8), var("RDX", 8)],
        float_return_register: Vec::new(),
        callee_saved_register: ["RBX", "RBP", "RDI", "RSI", "R12", "R13", "R14", "R15"].iter().map(|r| var(r, 8)).collect(),
    }
}

fn reg_arg(e: Expression) -> Arg {
    Arg::Register { expr: e, data_type: None }
}

/// the extern symbols a generated program may import: (name, parameters, return values, cconv, no_return)
fn symbol_table() -> Vec<ExternSymbol> {
    let r = |n: &str| reg_arg(e_var(n, 8));
    let mut v = Vec::new();
    let mut add = |name: &str, params: Vec<Arg>, rets: Vec<Arg>, cc: Option<&str>, noret: bool| {
        let mut s = extern_symbol(&format!("sym_{}", name), name, params, rets, noret);
        s.calling_convention = cc.map(|c| c.to_string());
        v.push(s);
    };
    // sources (in the CWE476 list of config.json)
    add("malloc", vec![r("RDI")], vec![r("RAX")], Some("__stdcall"), false);
    add("calloc", vec![r("RDI"), r("RSI")], vec![r("RAX")], Some("__stdcall"), false);
    add("realloc", vec![r("RDI"), r("RSI")], vec![r("RAX")], None, false);
    add("getenv", vec![r("RCX")], vec![r("RAX")], Some("__fastcall"), false);
    add("fopen", vec![r("RDI"), r("RSI")], vec![r("RAX")], Some("__stdcall"), false);
    // a source with two return registers, the second one wrapped in an expression
    add("strtok", vec![r("RDI"), r("RSI")], vec![r("RAX"), reg_arg(e_cast(CastOpType::IntZExt, 16, e_var("RDX", 8)))], Some("__stdcall"), false);
    add("tmpfile", vec![], vec![r("RAX")], Some("__stdcall"), false);
    // non-sources
    add("free", vec![r("RDI")], vec![], Some("__stdcall"), false);
    add("memcpy", vec![r("RDI"), r("RSI"), r("RDX")], vec![r("RAX")], Some("__stdcall"), false);
    add("puts", vec![r("RDI")], vec![r("RAX")], None, false);
    add("rand", vec![], vec![r("RAX")], Some("__stdcall"), false);
    add("exit", vec![r("RDI")], vec![], Some("__stdcall"), true);
    // parameter given by an expression over part of a register
    add("putw32", vec![reg_arg(e_sub(0, 4, e_var("RSI", 8)))], vec![r("RAX")], Some("__stdcall"), false);
    // second parameter only (catches "first parameter only" mutations), fastcall clobber set
    add("fcsecond", vec![r("RCX"), r("RDX")], vec![r("RAX")], Some("__fastcall"), false);
    // stack parameter + register parameter
    add(
        "stkfun",
        vec![
            Arg::Stack { address: e_bin(BinOpType::IntAdd, e_var("RSP", 8), e_const(8, 8)), size: ByteSize::new(8), data_type: None },
            r("RDX"),
        ],
        vec![r("RAX")],
        Some("__stdcall"),
        false,
    );
    v
}

const SOURCES: [&str; 7] = ["malloc", "calloc", "realloc", "getenv", "fopen", "strtok", "tmpfile"];

struct G<'a> {
    rng: &'a mut Rng,
    next_addr: u64,
    dup_addr: Option<String>,
    /// the registers most instructions of this program work on (RAX and two others)
    hot: Vec<&'static str>,
}

impl<'a> G<'a> {
    fn addr(&mut self) -> String {
        self.next_addr += 1 + self.rng.below(4);
        format!("{:08x}", self.next_addr)
    }
    fn treg(&mut self) -> &'static str {
        if self.rng.chance(3, 4) {
            self.hot[self.rng.below(self.hot.len() as u64) as usize]
        } else {
            TAINTABLE[self.rng.below(TAINTABLE.len() as u64) as usize]
        }
    }
    /// destination of an assignment/load: rarely the register that holds the value first
    fn dreg(&mut self) -> &'static str {
        if self.rng.chance(3, 5) {
            let r = self.hot[self.rng.below(self.hot.len() as u64) as usize];
            if r == "RAX" && self.rng.chance(3, 4) { self.hot[1] } else { r }
        } else {
            TAINTABLE[self.rng.below(TAINTABLE.len() as u64) as usize]
        }
    }
    fn creg(&mut self) -> &'static str {
        CLEAN[self.rng.below(CLEAN.len() as u64) as usize]
    }
    /// 8-byte value over taintable registers
    fn val8(&mut self, depth: u32) -> Expression {
        match self.rng.below(if depth == 0 { 12 } else { 8 }) {
            0 | 1 | 2 => e_var(self.treg(), 8),
            3 => e_bin(BinOpType::IntAdd, e_var(self.treg(), 8), e_const(self.rng.below(64), 8)),
            4 => e_const(self.rng.below(3), 8),
            5 => Expression::Var(tmp("$U1", 8)),
            6 => e_var(self.creg(), 8),
            7 => e_unknown("unk", 8),
            8 => {
                let op = *self.rng.pick(&[BinOpType::IntAdd, BinOpType::IntSub, BinOpType::IntXOr, BinOpType::IntAnd, BinOpType::IntMult]);
                let (l, r) = (self.val8(depth + 1), self.val8(depth + 1));
                e_bin(op, l, r)
            }
            9 => e_cast(CastOpType::IntZExt, 8, e_sub(0, 4, e_var(self.treg(), 8))),
            10 => e_un(UnOpType::IntNegate, e_var(self.treg(), 8)),
            _ => e_bin(BinOpType::Piece, e_sub(4, 4, e_var(self.treg(), 8)), e_sub(0, 4, e_var(self.treg(), 8))),
        }
    }
    /// 8-byte value that can never be tainted
    fn clean8(&mut self) -> Expression {
        match self.rng.below(4) {
            0 => e_const(self.rng.below(100), 8),
            1 => e_var(self.creg(), 8),
            2 => e_bin(BinOpType::IntAdd, e_var(self.creg(), 8), e_const(self.rng.below(16), 8)),
            _ => e_unknown("u", 8),
        }
    }
    /// 1-byte condition / flag value
    fn cond1(&mut self) -> Expression {
        match self.rng.below(10) {
            0 | 1 | 2 => e_var("ZF", 1),
            3 => e_var("CF", 1),
            4 | 9 => e_bin(BinOpType::IntEqual, e_var(self.treg(), 8), e_const(0, 8)),
            5 => e_un(UnOpType::BoolNegate, e_var("ZF", 1)),
            6 => e_bin(BinOpType::BoolAnd, e_var("ZF", 1), e_var("CF", 1)),
            7 => e_bin(BinOpType::IntNotEqual, e_var(self.creg(), 8), e_const(0, 8)),
            _ => Expression::Var(tmp("$U2", 1)),
        }
    }
    fn flag_value(&mut self) -> Expression {
        match self.rng.below(6) {
            0 | 1 | 2 => e_bin(BinOpType::IntEqual, e_var(self.treg(), 8), e_const(0, 8)),
            3 => e_bin(BinOpType::IntLess, e_var(self.treg(), 8), e_var(self.treg(), 8)),
            4 => e_const(self.rng.below(2), 1),
            _ => e_bin(BinOpType::IntNotEqual, e_var(self.creg(), 8), e_const(7, 8)),
        }
    }
    fn address(&mut self) -> Expression {
        match self.rng.below(6) {
            0 | 1 => e_var(self.treg(), 8),
            2 => e_bin(BinOpType::IntAdd, e_var(self.treg(), 8), e_const(8 * self.rng.below(4), 8)),
            3 => e_bin(BinOpType::IntAdd, e_var("RSP", 8), e_const(8 * self.rng.below(6), 8)),
            4 => e_var(self.creg(), 8),
            _ => e_bin(BinOpType::IntAdd, e_var(self.treg(), 8), e_var(self.creg(), 8)),
        }
    }
    fn def(&mut self, addr: &str, k: usize) -> Term<Def> {
        let t = tid_at(&format!("instr_{}_{}", addr, k), addr);
        let term = match self.rng.below(20) {
            0..=5 => Def::Assign { var: var(self.dreg(), 8), value: self.val8(0) },
            6..=9 => Def::Assign { var: var(if self.rng.chance(4, 5) { "ZF" } else { "CF" }, 1), value: self.flag_value() },
            10 => Def::Assign { var: tmp("$U1", 8), value: self.val8(0) },
            11 => Def::Assign { var: tmp("$U2", 1), value: self.flag_value() },
            12 => Def::Assign { var: var(self.creg(), 8), value: self.clean8() },
            13 | 14 => Def::Load { var: var(self.dreg(), 8), address: self.address() },
            15 => Def::Load { var: var(self.creg(), 8), address: e_bin(BinOpType::IntAdd, e_var("RSP", 8), e_const(8, 8)) },
            16 | 17 | 18 => Def::Store { address: self.address(), value: self.clean8() },
            _ => Def::Assign { var: var("RSP", 8), value: e_bin(BinOpType::IntSub, e_var("RSP", 8), e_const(16, 8)) },
        };
        Term { tid: t, term }
    }
}

struct SubPlan {
    id: String,
    nblocks: usize,
    cconv: Option<&'static str>,
}

fn blk_id(sub: &str, i: usize) -> String {
    format!("blk_{}_{}", sub, i)
}

fn gen_project(rng: &mut Rng, max_blocks: u64) -> Project {
    let mut hot = vec!["RAX"];
    let mut others = vec!["RBX", "RDI", "R12", "RCX", "RSI", "RDX"];
    rng.shuffle(&mut others);
    if rng.chance(1, 2) {
        // a callee-saved register as the second hot register: taint survives calls
        let cs = if rng.chance(1, 2) { "RBX" } else { "R12" };
        others.retain(|r| *r != cs);
        others.insert(0, cs);
    }
    hot.push(others[0]);
    hot.push(others[1]);
    let mut g = G { rng, next_addr: 0x1000, dup_addr: None, hot };
    let table = symbol_table();
    // imported symbols: malloc always, the others with probability 1/2
    let mut externs: Vec<ExternSymbol> = Vec::new();
    for s in table.iter() {
        if s.name == "malloc" || g.rng.chance(1, 2) {
            externs.push(s.clone());
        }
    }
    let nsubs = match g.rng.below(10) {
        0..=3 => 1,
        4..=7 => 2,
        _ => 3,
    };
    let plans: Vec<SubPlan> = (0..nsubs)
        .map(|k| SubPlan {
            id: format!("f{}", k),
            nblocks: (if k == 0 { 2 + g.rng.below(max_blocks - 1) } else { 1 + g.rng.below((max_blocks / 2).max(2)) }) as usize,
            cconv: *g.rng.pick(&[None, None, Some("__stdcall"), Some("__fastcall"), Some("__nosuchcc")]),
        })
        .collect();
    let mut subs = Vec::new();
    // style 1 ("idiomatic"): the block after a source call often copies and/or tests the value and
    // branches on the test; fewer clobbering calls. style 0: uniform random.
    let style = if g.rng.chance(2, 3) { 1 } else { 0 };
    let weights: [u64; 9] = if style == 1 { [20, 36, 13, 11, 3, 12, 2, 1, 2] } else { [22, 28, 23, 8, 4, 10, 2, 1, 2] };
    let reps: [u64; 9] = [0, 22, 50, 73, 81, 85, 95, 97, 98];
    for (k, plan) in plans.iter().enumerate() {
        let nb = plan.nblocks;
        let mut blocks = Vec::new();
        let mut post_source: std::collections::HashSet<usize> = std::collections::HashSet::new();
        for i in 0..nb {
            let baddr = g.addr();
            let ndefs = g.rng.below(4) as usize;
            let mut defs = Vec::new();
            let mut tested = false;
            if style == 1 && post_source.contains(&i) {
                let other = g.hot[1];
                if g.rng.chance(2, 5) {
                    let a = g.addr();
                    defs.push(Term { tid: tid_at(&format!("instr_{}_c", a), &a), term: Def::Assign { var: var(other, 8), value: e_var("RAX", 8) } });
                }
                if g.rng.chance(3, 5) {
                    let a = g.addr();
                    let r = if g.rng.chance(2, 3) { "RAX" } else { other };
                    defs.push(Term {
                        tid: tid_at(&format!("instr_{}_t", a), &a),
                        term: Def::Assign { var: var("ZF", 1), value: e_bin(BinOpType::IntEqual, e_var(r, 8), e_const(0, 8)) },
                    });
                    tested = true;
                }
            }
            for d in 0..ndefs {
                let a = g.addr();
                defs.push(g.def(&a, d));
            }
            let jaddr = {
                // sometimes two calls share one address (dedup of warnings is by source address)
                if let (Some(a), true) = (g.dup_addr.clone(), g.rng.chance(1, 6)) {
                    a
                } else {
                    g.addr()
                }
            };
            let jt = |n: usize| tid_at(&format!("instr_{}_{}_{}_j{}", jaddr, plan.id, i, n), &jaddr);
            let target = |g: &mut G| -> Tid {
                let j = if g.rng.chance(3, 5) && i + 1 < nb { i + 1 } else { g.rng.below(nb as u64) as usize };
                tid(&blk_id(&plan.id, j))
            };
            let forced_source = i == 0 && nb > 1 && (k == 0 || g.rng.chance(1, 3));
            let last = i + 1 == nb;
            let choice = if forced_source {
                55
            } else if tested && g.rng.chance(3, 5) {
                22
            } else if last && g.rng.chance(2, 3) {
                90
            } else {
                let mut r = g.rng.below(100);
                let mut c = 98;
                for (w, rep) in weights.iter().zip(reps.iter()) {
                    if r < *w {
                        c = *rep;
                        break;
                    }
                    r -= *w;
                }
                c
            };
            let jmps: Vec<Term<Jmp>> = match choice {
                0..=21 => vec![Term { tid: jt(0), term: Jmp::Branch(target(&mut g)) }],
                22..=49 => {
                    let c = if tested && g.rng.chance(3, 4) { e_var("ZF", 1) } else { g.cond1() };
                    vec![
                        Term { tid: jt(0), term: Jmp::CBranch { target: target(&mut g), condition: c } },
                        Term { tid: jt(1), term: Jmp::Branch(target(&mut g)) },
                    ]
                }
                50..=72 => {
                    let want_source = forced_source || g.rng.chance(3, 5);
                    let cands: Vec<&ExternSymbol> =
                        externs.iter().filter(|s| SOURCES.contains(&s.name.as_str()) == want_source).collect();
                    let sym = if cands.is_empty() { &externs[0] } else { *g.rng.pick(&cands) };
                    if want_source {
                        g.dup_addr = Some(jaddr.clone());
                    }
                    let ret = if g.rng.chance(19, 20) { Some(target(&mut g)) } else { None };
                    if want_source {
                        if let Some(r) = &ret {
                            let rid = format!("{}", r);
                            if let Some(j) = (0..nb).find(|j| blk_id(&plan.id, *j) == rid) {
                                if j > i {
                                    post_source.insert(j);
                                }
                            }
                        }
                    }
                    vec![Term { tid: jt(0), term: Jmp::Call { target: sym.tid.clone(), return_: ret } }]
                }
                73..=80 => {
                    let callee = &plans[g.rng.below(plans.len() as u64) as usize];
                    let ret = if g.rng.chance(9, 10) { Some(target(&mut g)) } else { None };
                    vec![Term { tid: jt(0), term: Jmp::Call { target: tid(&callee.id), return_: ret } }]
                }
                81..=84 => {
                    let t = e_var(g.treg(), 8);
                    vec![Term { tid: jt(0), term: Jmp::CallInd { target: t, return_: Some(target(&mut g)) } }]
                }
                85..=94 => vec![Term { tid: jt(0), term: Jmp::Return(e_var("R11", 8)) }],
                95 | 96 => vec![],
                97 => vec![Term { tid: jt(0), term: Jmp::CallOther { description: "syscall".into(), return_: Some(target(&mut g)) } }],
                _ => vec![Term { tid: jt(0), term: Jmp::BranchInd(e_var(g.treg(), 8)) }],
            };
            let mut b = Term { tid: tid_at(&blk_id(&plan.id, i), &baddr), term: Blk { defs, jmps, indirect_jmp_targets: Vec::new() } };
            if choice >= 98 {
                b.term.indirect_jmp_targets = vec![target(&mut g), target(&mut g)];
            }
            blocks.push(b);
        }
        let a = g.addr();
        subs.push(Term {
            tid: tid_at(&plan.id, &a),
            term: Sub { name: plan.id.clone(), blocks, calling_convention: plan.cconv.map(|c| c.to_string()) },
        });
    }
    // block tids carry an address in the term but jump targets were made with address UNKNOWN: fix up
    let mut addr_of = std::collections::HashMap::new();
    for s in subs.iter() {
        addr_of.insert(format!("{}", s.tid), s.tid.clone());
        for b in s.term.blocks.iter() {
            addr_of.insert(format!("{}", b.tid), b.tid.clone());
        }
    }
    let fix = |t: &mut Tid| {
        if let Some(full) = addr_of.get(&format!("{}", t)) {
            *t = full.clone();
        }
    };
    for s in subs.iter_mut() {
        for b in s.term.blocks.iter_mut() {
            for t in b.term.indirect_jmp_targets.iter_mut() {
                fix(t);
            }
            for j in b.term.jmps.iter_mut() {
                match &mut j.term {
                    Jmp::Branch(t) | Jmp::CBranch { target: t, .. } => fix(t),
                    Jmp::Call { target, return_ } => {
                        fix(target);
                        if let Some(r) = return_ {
                            fix(r)
                        }
                    }
                    Jmp::CallInd { return_, .. } | Jmp::CallOther { return_, .. } => {
                        if let Some(r) = return_ {
                            fix(r)
                        }
                    }
                    _ => {}
                }
            }
        }
    }
    let entry = vec![subs[0].tid.clone()];
    let mut project = project_x64(program(subs, externs, entry));
    project.calling_conventions.insert("__fastcall".to_string(), fastcall());
    project.register_set.insert(var("XMM0", 16));
    project.register_set.insert(var("XMM1", 16));
    project
}


/// hand-written programs (corpus seeds); `--craft 1` writes them as cases
fn crafted() -> Vec<Project> {
    let ext = symbol_table();
    let malloc = ext.iter().find(|s| s.name == "malloc").unwrap().clone();
    let free = ext.iter().find(|s| s.name == "free").unwrap().clone();
    let zf_of = |t: &str, r: &str| d_assign(t, var("ZF", 1), e_bin(BinOpType::IntEqual, e_var(r, 8), e_const(0, 8)));
    let mk = |blocks: Vec<Term<Blk>>| {
        let f0 = sub("f0", "f0", blocks, None);
        let mut p = project_x64(program(vec![f0], vec![malloc.clone(), free.clone()], vec![tid("f0")]));
        p.calling_conventions.insert("__fastcall".to_string(), fastcall());
        p
    };
    let mut v = Vec::new();
    // 0: the value is checked on one path only, the paths join BEFORE the check:
    //    b1 -(CF)-> b2: RBX := RAX; RAX := 0      b1 -> b3: nothing
    //    b4: ZF := RBX == 0; if ZF goto b5 else b6;   b5: load through RAX
    // the path b1,b3,b4,b5 carries {RAX}, never passes a jump depending on the value and dereferences RAX.
    v.push(mk(vec![
        blk("b0", vec![], vec![Term { tid: tid_at("call_malloc", "00001000"), term: Jmp::Call { target: malloc.tid.clone(), return_: Some(tid("b1")) } }]),
        blk("b1", vec![], vec![j_cbranch("j1a", "b2", e_var("CF", 1)), j_branch("j1b", "b3")]),
        blk("b2", vec![d_assign("d2a", var("RBX", 8), e_var("RAX", 8)), d_assign("d2b", var("RAX", 8), e_const(0, 8))], vec![j_branch("j2", "b4")]),
        blk("b3", vec![], vec![j_branch("j3", "b4")]),
        blk("b4", vec![zf_of("d4", "RBX")], vec![j_cbranch("j4a", "b5", e_var("ZF", 1)), j_branch("j4b", "b6")]),
        blk("b5", vec![d_load("d5", var("RCX", 8), e_var("RAX", 8))], vec![j_return("j5", e_var("R11", 8))]),
        blk("b6", vec![], vec![j_return("j6", e_var("R11", 8))]),
    ]));
    // 1: plain unchecked dereference; 2: checked dereference
    v.push(mk(vec![
        blk("b0", vec![], vec![Term { tid: tid_at("call_malloc", "00001000"), term: Jmp::Call { target: malloc.tid.clone(), return_: Some(tid("b1")) } }]),
        blk("b1", vec![d_store("d1", e_var("RAX", 8), e_const(1, 8))], vec![j_return("j1", e_var("R11", 8))]),
    ]));
    v.push(mk(vec![
        blk("b0", vec![], vec![Term { tid: tid_at("call_malloc", "00001000"), term: Jmp::Call { target: malloc.tid.clone(), return_: Some(tid("b1")) } }]),
        blk("b1", vec![zf_of("d1", "RAX")], vec![j_cbranch("j1a", "b2", e_var("ZF", 1)), j_branch("j1b", "b3")]),
        blk("b2", vec![], vec![j_return("j2", e_var("R11", 8))]),
        blk("b3", vec![d_store("d3", e_var("RAX", 8), e_const(1, 8))], vec![j_return("j3", e_var("R11", 8))]),
    ]));
    v
}

fn tid_json(t: &Tid) -> Value {
    serde_json::to_value(t).unwrap()
}

fn graph_json(graph: &Graph) -> Value {
    let nodes: Vec<Value> = graph
        .node_indices()
        .map(|n| match graph[n] {
            Node::BlkStart(b, s) => json!({"k": "BS", "b": tid_json(&b.tid), "s": tid_json(&s.tid)}),
            Node::BlkEnd(b, s) => json!({"k": "BE", "b": tid_json(&b.tid), "s": tid_json(&s.tid)}),
            Node::CallSource { source: (b, s), target: (tb, ts) } => {
                json!({"k": "CS", "b": tid_json(&b.tid), "s": tid_json(&s.tid), "tb": tid_json(&tb.tid), "ts": tid_json(&ts.tid)})
            }
            Node::CallReturn { call: (b, s), return_: (rb, rs) } => {
                json!({"k": "CR", "b": tid_json(&b.tid), "s": tid_json(&s.tid), "tb": tid_json(&rb.tid), "ts": tid_json(&rs.tid)})
            }
        })
        .collect();
    let edges: Vec<Value> = graph
        .edge_references()
        .map(|e| {
            let (k, j, u): (&str, Option<&Tid>, Option<&Tid>) = match e.weight() {
                Edge::Block => ("Block", None, None),
                Edge::Jump(j, u) => ("Jump", Some(&j.tid), u.map(|t| &t.tid)),
                Edge::Call(j) => ("Call", Some(&j.tid), None),
                Edge::ExternCallStub(j) => ("ExternCallStub", Some(&j.tid), None),
                Edge::CrCallStub => ("CrCallStub", None, None),
                Edge::CrReturnStub => ("CrReturnStub", None, None),
                Edge::CallCombine(j) => ("CallCombine", Some(&j.tid), None),
                Edge::ReturnCombine(j) => ("ReturnCombine", Some(&j.tid), None),
            };
            json!({"s": e.source().index(), "d": e.target().index(), "k": k,
                   "j": j.map(tid_json).unwrap_or(Value::Null), "u": u.map(tid_json).unwrap_or(Value::Null)})
        })
        .collect();
    // the order in which `update_node` walks the out-edges
    let out: Vec<Value> = graph.node_indices().map(|n| json!(graph.edges(n).map(|e| e.id().index()).collect::<Vec<_>>())).collect();
    // `Computation::new`: priority_sorted_nodes = kosaraju_scc(graph) flattened; highest index first
    let prio: Vec<usize> = petgraph::algo::kosaraju_scc(graph).into_iter().flatten().map(|n| n.index()).collect();
    json!({"nodes": nodes, "edges": edges, "out": out, "prio": prio})
}

struct Cfg {
    memory: Value,
    cwe476: Value,
}

/// run the real pipeline and the real CWE476 module; canonical result
fn run_impl(project: &Project, cfg: &Cfg) -> (Value, Value) {
    let graph = graph::get_program_cfg(&project.program);
    let gj = graph_json(&graph);
    let p = std::panic::AssertUnwindSafe(project);
    let g = std::panic::AssertUnwindSafe(&graph);
    let c = std::panic::AssertUnwindSafe(cfg);
    // stage 1: the analyses the check builds on (not the code under test); stage 2: the CWE476 module
    let r = catch(move || {
        let ar = AnalysisResults::new(&[], &g, &p);
        let prereq = std::panic::catch_unwind(std::panic::AssertUnwindSafe(|| {
            let (fs, _logs) = ar.compute_function_signatures();
            fs
        }));
        let fs = match prereq {
            Ok(fs) => fs,
            Err(_) => return json!("prereq-panic:function_signatures"),
        };
        let ar = ar.with_function_signatures(Some(&fs));
        let pi = match std::panic::catch_unwind(std::panic::AssertUnwindSafe(|| ar.compute_pointer_inference(&c.memory, false))) {
            Ok(pi) => pi,
            Err(_) => return json!("prereq-panic:pointer_inference"),
        };
        let ar = ar.with_pointer_inference(Some(&pi));
        let (_logs, warnings) = (cwe_checker_lib::checkers::cwe_476::CWE_MODULE.run)(&ar, &c.cwe476);
        let ws: Vec<Value> = warnings
            .iter()
            .map(|w| json!([w.addresses.get(0), w.tids.get(0), w.tids.get(1), w.symbols.get(0)]))
            .collect();
        Value::Array(ws)
    });
    let imp = match r {
        Ok(v) => v,
        Err(p) => json!(format!("panic:{}", p.replace(' ', "_"))),
    };
    (gj, imp)
}

fn emit(out: &mut Out, project: &Project, cfg: &Cfg, norm: &str) {
    let (gj, imp) = run_impl(project, cfg);
    let pj = project_to_json(project);
    let nsrc = gj["edges"]
        .as_array()
        .unwrap()
        .iter()
        .filter(|e| e["k"] == "ExternCallStub")
        .count();
    let nwarn = imp.as_array().map(|a| a.len()).unwrap_or(0);
    out.count(&format!("norm:{}", norm));
    out.count(&format!("warnings:{}", nwarn.min(3)));
    if let Some(t) = imp.as_str() {
        out.count(if t.starts_with("prereq") { "prereq-panic" } else { "panic" });
    }
    out.count_n("graph_nodes", gj["nodes"].as_array().unwrap().len() as u64);
    let syms = cfg.cwe476["symbols"].clone();
    let line = json!({"proj": pj, "graph": gj, "syms": syms, "norm": norm, "impl": imp}).to_string();
    let key = pj.to_string();
    out.case(&line, if nsrc > 0 { Some(&key) } else { None });
}

fn main() {
    if std::env::var("C15_LOUD").is_err() {
        quiet_panics();
    }
    let args = Args::parse();
    let repo = std::env::var("VERIF_REPO").unwrap_or_else(|_| "/repo".to_string());
    let config: Value =
        serde_json::from_str(&std::fs::read_to_string(format!("{}/src/config.json", repo)).expect("config.json")).expect("config json");
    let cfg = Cfg { memory: config["Memory"].clone(), cwe476: config["CWE476"].clone() };
    let mut out = Out::new(
        &args,
        "generated projects of 1-3 functions with extern allocation calls (CWE476 symbol list of config.json), register \
         copies/arithmetic, loads/stores (stored values never tainted: the register-only fragment), flag computations and \
         conditional jumps on tainted/untainted values, loops, extern/internal/indirect calls, returns; raw, \
         normalize_basic and fully normalized; the real cfg, function signatures, pointer inference and CWE476 module \
         are run; non-trivial = the cfg contains at least one extern call stub edge; distinct by analysed project",
    );
    if let Some(lines) = args.replay_lines() {
        for line in lines {
            let v: Value = serde_json::from_str(&line).expect("replay line");
            let project = project_from_json(&v["proj"]);
            let mut c = Cfg { memory: cfg.memory.clone(), cwe476: cfg.cwe476.clone() };
            if v["syms"].is_array() {
                c.cwe476["symbols"] = v["syms"].clone();
            }
            emit(&mut out, &project, &c, "replay");
        }
        out.finish();
        return;
    }
    if args.extra.contains_key("craft") {
        for p in crafted() {
            emit(&mut out, &p, &cfg, "none");
        }
        out.finish();
        return;
    }
    let mut rng = Rng::new(args.seed);
    let n = args.num("programs", 1500, 25000);
    let max_blocks = args.num("maxblocks", 6, 8);
    for _ in 0..n {
        let mut project = gen_project(&mut rng, max_blocks);
        let norm = match rng.below(10) {
            0..=3 => "none",
            4 | 5 => {
                let _ = project.normalize_basic();
                "basic"
            }
            _ => {
                let _ = project.normalize();
                "full"
            }
        };
        emit(&mut out, &project, &cfg, norm);
    }
    out.finish();
}
