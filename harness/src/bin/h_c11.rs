//! C11 harness: drives the real lifting of P-Code to the IR
//! (`pcode::Project::normalize` + `into_ir_project`, called through
//! `utils::ghidra::parse_pcode_project_to_ir_project` exactly like the pipeline does)
//! on generated P-Code projects in the JSON shape the Ghidra plugin emits.
//!
//! One case per line: `{"pcode": <pcode::Project as serde JSON, nulls dropped>, "seeds": [..],
//! "kind": "...", "impl": <canonical JSON of the lifted IR program> | "panic:<msg>"}`.
use cwe_checker_lib::pcode;
use cwe_checker_lib::utils::ghidra::parse_pcode_project_to_ir_project;
use verif_harness::ir::program_to_json;
use verif_harness::*;

#[derive(Clone, Debug)]
struct Reg {
    name: String,
    base: String,
    lsb: u64,
    size: u64,
}

struct Table {
    regs: Vec<Reg>,
    sp: String,
    ptr: u64,
    arch: &'static str,
}

fn reg(name: &str, base: &str, lsb: u64, size: u64) -> Reg {
    Reg { name: name.into(), base: base.into(), lsb, size }
}

/// x86-64 style: RAX/EAX/AX/AL/AH, vector register with quarter/half views (lsb != 0, middle and top)
fn table_x64() -> Table {
    let mut regs = Vec::new();
    for (r, e, x, l, h) in [("RAX", "EAX", "AX", "AL", "AH"), ("RBX", "EBX", "BX", "BL", "BH"), ("RCX", "ECX", "CX", "CL", "CH")] {
        regs.push(reg(r, r, 0, 8));
        regs.push(reg(e, r, 0, 4));
        regs.push(reg(x, r, 0, 2));
        regs.push(reg(l, r, 0, 1));
        regs.push(reg(h, r, 1, 1));
    }
    for (r, e) in [("RDI", "EDI"), ("RSP", "ESP")] {
        regs.push(reg(r, r, 0, 8));
        regs.push(reg(e, r, 0, 4));
    }
    regs.push(reg("YMM0", "YMM0", 0, 32));
    regs.push(reg("XMM0", "YMM0", 0, 16));
    regs.push(reg("YMM0_H", "YMM0", 16, 16));
    regs.push(reg("XMM0_Qa", "YMM0", 0, 8));
    regs.push(reg("XMM0_Qb", "YMM0", 8, 8));
    regs.push(reg("XMM0_Dd", "YMM0", 12, 4));
    for f in ["ZF", "CF", "SF"] {
        regs.push(reg(f, f, 0, 1));
    }
    Table { regs, sp: "RSP".into(), ptr: 8, arch: "x86_64" }
}

/// x86-32 style, 4-byte pointers
fn table_x86() -> Table {
    let mut regs = Vec::new();
    for (e, x, l, h) in [("EAX", "AX", "AL", "AH"), ("EBX", "BX", "BL", "BH"), ("EDX", "DX", "DL", "DH")] {
        regs.push(reg(e, e, 0, 4));
        regs.push(reg(x, e, 0, 2));
        regs.push(reg(l, e, 0, 1));
        regs.push(reg(h, e, 1, 1));
    }
    regs.push(reg("ESP", "ESP", 0, 4));
    regs.push(reg("SP", "ESP", 0, 2));
    regs.push(reg("ST0", "ST0", 0, 10));
    for f in ["ZF", "CF"] {
        regs.push(reg(f, f, 0, 1));
    }
    Table { regs, sp: "ESP".into(), ptr: 4, arch: "x86_32" }
}

/// RISC style: 8-byte registers WITHOUT 4-byte sub-registers (a 4-byte access is named after the full
/// register: "same-name smaller register"), byte views, a 16-byte vector register with halves
fn table_risc() -> Table {
    let mut regs = Vec::new();
    for r in ["r0", "r1", "r2", "sp"] {
        regs.push(reg(r, r, 0, 8));
    }
    regs.push(reg("r0b", "r0", 0, 1));
    regs.push(reg("r0h", "r0", 1, 1));
    regs.push(reg("r1_hi", "r1", 4, 4));
    regs.push(reg("r1_w1", "r1", 2, 2));
    regs.push(reg("q0", "q0", 0, 16));
    regs.push(reg("d0", "q0", 0, 8));
    regs.push(reg("d1", "q0", 8, 8));
    regs.push(reg("s1", "q0", 4, 4));
    regs.push(reg("tmpCY", "tmpCY", 0, 1));
    regs.push(reg("NG", "NG", 0, 1));
    Table { regs, sp: "sp".into(), ptr: 8, arch: "AARCH64" }
}

/// random table: base registers of 2..16 bytes with random aligned sub-registers
fn table_random(rng: &mut Rng) -> Table {
    let ptr = if rng.chance(1, 3) { 4 } else { 8 };
    let mut regs = Vec::new();
    regs.push(reg("SPR", "SPR", 0, ptr));
    if rng.chance(1, 2) {
        regs.push(reg("SPR_lo", "SPR", 0, ptr / 2));
    }
    let nbase = 2 + rng.below(3);
    for b in 0..nbase {
        let bsize = *rng.pick(&[2u64, 4, 8, 8, 8, 16]);
        let bname = format!("B{}", b);
        regs.push(reg(&bname, &bname, 0, bsize));
        let mut cands = Vec::new();
        for size in [1u64, 2, 4, 8] {
            if size >= bsize {
                continue;
            }
            let mut lsb = 0;
            while lsb + size <= bsize {
                cands.push((lsb, size));
                lsb += size;
            }
        }
        rng.shuffle(&mut cands);
        let k = rng.below(6) as usize;
        for (lsb, size) in cands.into_iter().take(k) {
            regs.push(reg(&format!("B{}_{}_{}", b, lsb, size), &bname, lsb, size));
        }
    }
    for f in ["FZ", "FC"] {
        regs.push(reg(f, f, 0, 1));
    }
    if rng.chance(1, 3) {
        rng.shuffle(&mut regs);
    }
    Table { regs, sp: "SPR".into(), ptr, arch: "x86_64" }
}

fn hex_of(val: u64, digits: usize) -> String {
    format!("{:0width$x}", val, width = digits)
}

struct Gen<'a> {
    rng: &'a mut Rng,
    t: &'a Table,
}

fn v_reg(name: &str, size: u64) -> Value {
    json!({"name": name, "size": size, "is_virtual": false})
}
fn v_tmp(name: &str, size: u64) -> Value {
    json!({"name": name, "size": size, "is_virtual": true})
}
fn v_const(hex: &str, size: u64) -> Value {
    json!({"value": hex, "size": size, "is_virtual": false})
}
fn v_ram(hex: &str, size: u64) -> Value {
    json!({"address": hex, "size": size, "is_virtual": false})
}

impl<'a> Gen<'a> {
    /// a register varnode of exactly `size` bytes (None if the table has no register that large)
    fn reg_var(&mut self, size: u64) -> Option<Value> {
        let exact: Vec<&Reg> = self.t.regs.iter().filter(|r| r.size == size).collect();
        let larger: Vec<&Reg> = self.t.regs.iter().filter(|r| r.size > size).collect();
        if !exact.is_empty() && (larger.is_empty() || !self.rng.chance(1, 6)) {
            let r = exact[self.rng.below(exact.len() as u64) as usize];
            Some(v_reg(&r.name, size))
        } else if !larger.is_empty() {
            // varnode smaller than the register it is named after ("same-name smaller register")
            let r = larger[self.rng.below(larger.len() as u64) as usize];
            Some(v_reg(&r.name, size))
        } else {
            None
        }
    }
    fn tmp_var(&mut self, size: u64) -> Value {
        let k = self.rng.below(4);
        v_tmp(&format!("$U{:x}{:02x}0", 0x3a + k, size), size)
    }
    fn const_var(&mut self, size: u64) -> Value {
        let bits = (8 * size).min(64) as u32;
        let val = self.rng.biased(bits);
        let digits = match self.rng.below(5) {
            0 => 1,
            1 => 8,
            2 => 16,
            3 => (2 * size) as usize,
            _ => 2 * size.min(8) as usize + 2,
        };
        let mut s = hex_of(val, digits);
        if size > 8 {
            // constants wider than 8 bytes: Ghidra prints at most 16 hex digits, the lifting has to
            // ZERO-extend the short string (also when bit 63 is set); sometimes a long string
            s = match self.rng.below(6) {
                0 => "ffffffffffffffff".to_string(),
                1 => "8000000000000000".to_string(),
                2 => hex_of(self.rng.next() | (1u64 << 63), 16),
                3 => hex_of(self.rng.next() | (1u64 << 63), 1),
                4 => format!("{}{}", hex_of(self.rng.next(), 16), hex_of(self.rng.next(), 16)),
                _ => s,
            };
        }
        if self.rng.chance(1, 12) {
            s = s.to_uppercase();
        }
        v_const(&s, size)
    }
    fn ram_addr(&mut self) -> String {
        let a = match self.rng.below(4) {
            0 => 0x1000 + self.rng.below(4) * 8,
            1 => 0x0040_4000 + self.rng.below(64),
            2 => self.rng.next(),
            _ => 0x10 * self.rng.below(6),
        };
        let a = if self.t.ptr == 4 && !self.rng.chance(1, 8) { a & 0xffff_ffff } else { a };
        hex_of(a, if self.rng.chance(1, 2) { 8 } else { 16 })
    }
    fn ram_var(&mut self, size: u64) -> Value {
        let a = self.ram_addr();
        v_ram(&a, size)
    }
    /// an input varnode of `size` bytes
    fn input(&mut self, size: u64) -> Value {
        match self.rng.below(20) {
            0..=10 => self.reg_var(size).unwrap_or_else(|| self.tmp_var(size)),
            11..=14 => self.tmp_var(size),
            15..=17 => self.const_var(size),
            _ => self.ram_var(size),
        }
    }
    /// an output varnode of `size` bytes
    fn output(&mut self, size: u64, allow_ram: bool) -> Value {
        match self.rng.below(20) {
            0..=12 => self.reg_var(size).unwrap_or_else(|| self.tmp_var(size)),
            13..=17 => self.tmp_var(size),
            _ => {
                if allow_ram {
                    self.ram_var(size)
                } else {
                    self.tmp_var(size)
                }
            }
        }
    }
    fn pointer(&mut self) -> Value {
        let p = self.t.ptr;
        match self.rng.below(12) {
            0..=6 => self.reg_var(p).unwrap_or_else(|| self.tmp_var(p)),
            7..=8 => self.tmp_var(p),
            9 => self.const_var(p),
            _ => self.ram_var(p),
        }
    }
    fn size(&mut self) -> u64 {
        *self.rng.pick(&[1u64, 1, 2, 2, 4, 4, 4, 8, 8, 8, 16])
    }
    fn space_id(&mut self) -> Value {
        if self.rng.chance(1, 5) {
            Value::Null
        } else {
            v_const("000001b1", 4)
        }
    }

    fn def(&mut self, mnemonic: &str, out: Value, i0: Value, i1: Value, i2: Value) -> Value {
        json!({"lhs": out, "rhs": {"mnemonic": mnemonic, "input0": i0, "input1": i1, "input2": i2}})
    }

    /// one random instruction with operand sizes consistent with the operation
    fn random_def(&mut self) -> Value {
        const SAME: [&str; 10] = [
            "INT_ADD", "INT_SUB", "INT_XOR", "INT_AND", "INT_OR", "INT_MULT", "INT_DIV", "INT_REM", "INT_SDIV", "INT_SREM",
        ];
        const CMP: [&str; 9] = [
            "INT_EQUAL", "INT_NOTEQUAL", "INT_LESS", "INT_SLESS", "INT_LESSEQUAL", "INT_SLESSEQUAL", "INT_CARRY",
            "INT_SCARRY", "INT_SBORROW",
        ];
        const SHIFT: [&str; 3] = ["INT_LEFT", "INT_RIGHT", "INT_SRIGHT"];
        const BOOL: [&str; 3] = ["BOOL_XOR", "BOOL_AND", "BOOL_OR"];
        const UN: [&str; 2] = ["INT_NEGATE", "INT_2COMP"];
        const FBIN: [&str; 4] = ["FLOAT_ADD", "FLOAT_SUB", "FLOAT_MULT", "FLOAT_DIV"];
        const FCMP: [&str; 4] = ["FLOAT_EQUAL", "FLOAT_NOTEQUAL", "FLOAT_LESS", "FLOAT_LESSEQUAL"];
        const FUN: [&str; 6] = ["FLOAT_NEG", "FLOAT_ABS", "FLOAT_SQRT", "FLOAT_CEIL", "FLOAT_FLOOR", "FLOAT_ROUND"];
        let s = self.size();
        if self.rng.chance(1, 25) {
            // wide (10/16/32 byte) operations with a constant operand
            let w = *self.rng.pick(&[10u64, 16, 16, 32]);
            let c = self.const_var(w);
            return match self.rng.below(3) {
                0 => {
                    let o = self.output(w, true);
                    self.def("COPY", o, c, Value::Null, Value::Null)
                }
                1 => {
                    let m = *self.rng.pick(&["INT_AND", "INT_OR", "INT_XOR", "INT_ADD"]);
                    let (o, a) = (self.output(w, true), self.input(w));
                    if self.rng.chance(1, 2) {
                        self.def(m, o, a, c, Value::Null)
                    } else {
                        self.def(m, o, c, a, Value::Null)
                    }
                }
                _ => {
                    let m = *self.rng.pick(&["INT_EQUAL", "INT_LESS", "INT_SLESS"]);
                    let (o, a) = (self.output(1, true), self.input(w));
                    self.def(m, o, a, c, Value::Null)
                }
            };
        }
        match self.rng.below(100) {
            0..=11 => {
                let (o, i) = (self.output(s, true), self.input(s));
                self.def("COPY", o, i, Value::Null, Value::Null)
            }
            12..=31 => {
                let m = *self.rng.pick(&SAME);
                let (o, a, b) = (self.output(s, true), self.input(s), self.input(s));
                self.def(m, o, a, b, Value::Null)
            }
            32..=41 => {
                let m = *self.rng.pick(&CMP);
                let (o, a, b) = (self.output(1, true), self.input(s), self.input(s));
                self.def(m, o, a, b, Value::Null)
            }
            42..=48 => {
                let m = *self.rng.pick(&SHIFT);
                let amount_size = if self.rng.chance(1, 2) { s } else { *self.rng.pick(&[1u64, 4, 8]) };
                let (o, a) = (self.output(s, true), self.input(s));
                let b = if self.rng.chance(1, 2) {
                    let big = if self.rng.chance(1, 3) { 8 * s } else { 0 };
                    v_const(&hex_of(self.rng.below(8 * s.min(8) + 2) + big, 2), amount_size)
                } else {
                    self.input(amount_size)
                };
                self.def(m, o, a, b, Value::Null)
            }
            49..=52 => {
                let m = *self.rng.pick(&BOOL);
                let (o, a, b) = (self.output(1, true), self.input(1), self.input(1));
                self.def(m, o, a, b, Value::Null)
            }
            53..=57 => {
                let m = *self.rng.pick(&UN);
                let (o, a) = (self.output(s, true), self.input(s));
                self.def(m, o, a, Value::Null, Value::Null)
            }
            58 => {
                let (o, a) = (self.output(1, true), self.input(1));
                self.def("BOOL_NEGATE", o, a, Value::Null, Value::Null)
            }
            59..=66 => {
                // extension: input strictly smaller than output
                let m = if self.rng.chance(1, 2) { "INT_ZEXT" } else { "INT_SEXT" };
                let o = *self.rng.pick(&[2u64, 4, 4, 8, 8, 16]);
                let smaller: Vec<u64> = [1u64, 2, 4, 8].iter().cloned().filter(|x| *x < o).collect();
                let i = *self.rng.pick(&smaller);
                let (ov, iv) = (self.output(o, true), self.input(i));
                self.def(m, ov, iv, Value::Null, Value::Null)
            }
            67..=68 => {
                let m = if self.rng.chance(1, 2) { "POPCOUNT" } else { "LZCOUNT" };
                let o = *self.rng.pick(&[1u64, 4, 8]);
                let (ov, iv) = (self.output(o, true), self.input(s));
                self.def(m, ov, iv, Value::Null, Value::Null)
            }
            69..=73 => {
                let (a, b) = *self.rng.pick(&[(1u64, 1u64), (2, 2), (4, 4), (1, 3), (2, 6), (4, 12), (8, 8), (6, 2)]);
                let (o, x, y) = (self.output(a + b, true), self.input(a), self.input(b));
                self.def("PIECE", o, x, y, Value::Null)
            }
            74..=80 => {
                let a = *self.rng.pick(&[2u64, 4, 8, 8, 16]);
                let o = *self.rng.pick(&[1u64, 2, 4, 8].iter().cloned().filter(|x| *x < a).collect::<Vec<_>>());
                let low = self.rng.below(a - o + 1);
                let (ov, iv) = (self.output(o, true), self.input(a));
                let digits = *self.rng.pick(&[1usize, 8, 16]);
                let c = v_const(&hex_of(low, digits), *self.rng.pick(&[4u64, 4, 8, 1]));
                self.def("SUBPIECE", ov, iv, c, Value::Null)
            }
            81..=88 => {
                let (o, sp, p) = (self.output(s, false), self.space_id(), self.pointer());
                self.def("LOAD", o, sp, p, Value::Null)
            }
            89..=94 => {
                let (sp, p, v) = (self.space_id(), self.pointer(), self.input(s));
                self.def("STORE", Value::Null, sp, p, v)
            }
            95 => {
                let m = *self.rng.pick(&FBIN);
                let s = *self.rng.pick(&[4u64, 8]);
                let (o, a, b) = (self.output(s, true), self.input(s), self.input(s));
                self.def(m, o, a, b, Value::Null)
            }
            96 => {
                let m = *self.rng.pick(&FCMP);
                let s = *self.rng.pick(&[4u64, 8]);
                let (o, a, b) = (self.output(1, true), self.input(s), self.input(s));
                self.def(m, o, a, b, Value::Null)
            }
            97 => {
                let m = *self.rng.pick(&FUN);
                let s = *self.rng.pick(&[4u64, 8]);
                let (o, a) = (self.output(s, true), self.input(s));
                // the plugin also sends the aliases CEIL / FLOOR / ROUND
                let m = match (m, self.rng.chance(1, 2)) {
                    ("FLOAT_CEIL", true) => "CEIL",
                    ("FLOAT_FLOOR", true) => "FLOOR",
                    ("FLOAT_ROUND", true) => "ROUND",
                    (m, _) => m,
                };
                self.def(m, o, a, Value::Null, Value::Null)
            }
            98 => {
                let s = *self.rng.pick(&[4u64, 8]);
                let (o, a) = (self.output(1, true), self.input(s));
                self.def("FLOAT_NAN", o, a, Value::Null, Value::Null)
            }
            _ => {
                let m = *self.rng.pick(&["INT2FLOAT", "FLOAT2FLOAT", "TRUNC"]);
                let (o, i) = (*self.rng.pick(&[4u64, 8]), *self.rng.pick(&[4u64, 8, 10]));
                let (ov, iv) = (self.output(o, true), self.input(i));
                self.def(m, ov, iv, Value::Null, Value::Null)
            }
        }
    }

    /// "write a sub-register, then cast it into a register" idioms (1 or 2 instructions)
    fn idiom(&mut self) -> Vec<Value> {
        let subs: Vec<Reg> = self.t.regs.iter().filter(|r| r.name != r.base).cloned().collect();
        if subs.is_empty() {
            return vec![self.random_def()];
        }
        let sub = subs[self.rng.below(subs.len() as u64) as usize].clone();
        let base = self.t.regs.iter().find(|r| r.name == sub.base).unwrap().clone();
        // sometimes a varnode smaller than the named sub-register
        let sub_size = if sub.size > 1 && self.rng.chance(1, 8) { sub.size / 2 } else { sub.size };
        let sub_var = v_reg(&sub.name, sub_size);
        // first instruction: assignment or load into the sub-register
        let first = match self.rng.below(6) {
            0 | 1 => {
                let (sp, p) = (self.space_id(), self.pointer());
                self.def("LOAD", sub_var.clone(), sp, p, Value::Null)
            }
            2 => {
                let i = self.input(sub_size);
                self.def("COPY", sub_var.clone(), i, Value::Null, Value::Null)
            }
            3 => {
                // reads the register it overwrites
                let b = self.input(sub_size);
                self.def("INT_ADD", sub_var.clone(), sub_var.clone(), b, Value::Null)
            }
            _ => {
                let m = *self.rng.pick(&["INT_ADD", "INT_XOR", "INT_SUB", "INT_AND"]);
                let (a, b) = (self.input(sub_size), self.input(sub_size));
                self.def(m, sub_var.clone(), a, b, Value::Null)
            }
        };
        // second instruction: the cast
        let cast = *self.rng.pick(&["INT_ZEXT", "INT_ZEXT", "INT_ZEXT", "INT_ZEXT", "INT_ZEXT", "INT_SEXT", "INT_SEXT", "POPCOUNT", "LZCOUNT"]);
        let (target, target_size) = match self.rng.below(12) {
            // the base register, full size: the fused idiom
            0..=5 => (base.name.clone(), base.size),
            // the base register's name with a smaller size ("same-name smaller register")
            6 | 7 => (base.name.clone(), if base.size / 2 > sub_size { base.size / 2 } else { base.size }),
            // another sub-register of the same base
            8 => {
                let others: Vec<&Reg> =
                    self.t.regs.iter().filter(|r| r.base == sub.base && r.name != r.base && r.size > sub_size).collect();
                if others.is_empty() {
                    (base.name.clone(), base.size)
                } else {
                    let o = others[self.rng.below(others.len() as u64) as usize];
                    (o.name.clone(), o.size)
                }
            }
            // a different base register
            9 | 10 => {
                let others: Vec<&Reg> =
                    self.t.regs.iter().filter(|r| r.base == r.name && r.name != sub.base && r.size > sub_size).collect();
                if others.is_empty() {
                    (base.name.clone(), base.size)
                } else {
                    let o = others[self.rng.below(others.len() as u64) as usize];
                    (o.name.clone(), o.size)
                }
            }
            // a temporary
            _ => ("$Ucafe0".to_string(), base.size),
        };
        if target_size <= sub_size && (cast == "INT_ZEXT" || cast == "INT_SEXT") {
            return vec![first];
        }
        let out = if target.starts_with('$') { v_tmp(&target, target_size) } else { v_reg(&target, target_size) };
        // the cast usually reads the register just written; sometimes a different one
        let src = if self.rng.chance(1, 8) {
            self.reg_var(sub_size).unwrap_or(sub_var.clone())
        } else {
            sub_var.clone()
        };
        let second = self.def(cast, out, src, Value::Null, Value::Null);
        if self.rng.chance(1, 10) {
            // something in between: no fusion possible
            let mid = self.random_def();
            vec![first, mid, second]
        } else {
            vec![first, second]
        }
    }

    fn blk_tid(&self, addr: u64, suffix: Option<u64>) -> Value {
        let a = hex_of(addr, 8);
        match suffix {
            Some(k) => json!({"id": format!("blk_{}_{}", a, k), "address": a}),
            None => json!({"id": format!("blk_{}", a), "address": a}),
        }
    }

    fn indirect_target(&mut self, allow_ram: bool) -> Value {
        let p = self.t.ptr;
        match self.rng.below(12) {
            0..=5 => self.reg_var(p).unwrap_or_else(|| self.tmp_var(p)),
            6 => self.reg_var(p / 2).unwrap_or_else(|| self.tmp_var(p)),
            7 | 8 => self.tmp_var(p),
            9 => self.const_var(p),
            _ => {
                if allow_ram {
                    self.ram_var(p)
                } else {
                    self.tmp_var(p)
                }
            }
        }
    }

    fn jmps(&mut self, addr: u64, first_index: u64, targets: &[u64]) -> Vec<Value> {
        let a = hex_of(addr, 8);
        let jtid = |k: u64| json!({"id": format!("instr_{}_{}", a, k), "address": a});
        let t = *self.rng.pick(targets);
        let t2 = *self.rng.pick(targets);
        let direct = |x: u64| json!({"Direct": {"id": format!("blk_{}", hex_of(x, 8)), "address": hex_of(x, 8)}});
        let sub_label = |x: u64| json!({"Direct": {"id": format!("sub_{}", hex_of(x, 8)), "address": hex_of(x, 8)}});
        let jmp = |mn: &str, goto: Value, call: Value, cond: Value, hints: Value| {
            json!({"mnemonic": mn, "goto": goto, "call": call, "condition": cond, "target_hints": hints})
        };
        let ret = if self.rng.chance(1, 5) { Value::Null } else { direct(t2) };
        let k = first_index;
        match self.rng.below(16) {
            0 => vec![],
            1..=3 => vec![json!({"tid": jtid(k), "term": jmp("BRANCH", direct(t), Value::Null, Value::Null, Value::Null)})],
            4..=7 => {
                let c = match self.rng.below(6) {
                    0..=3 => self.reg_var(1).unwrap_or_else(|| self.tmp_var(1)),
                    4 => self.tmp_var(1),
                    _ => self.const_var(1),
                };
                vec![
                    json!({"tid": jtid(k), "term": jmp("CBRANCH", direct(t), Value::Null, c, Value::Null)}),
                    json!({"tid": jtid(k + 1), "term": jmp("BRANCH", direct(t2), Value::Null, Value::Null, Value::Null)}),
                ]
            }
            8 | 9 => {
                let tv = self.indirect_target(true);
                let hints = match self.rng.below(3) {
                    0 => Value::Null,
                    1 => json!([]),
                    _ => json!([hex_of(t, 8), hex_of(t2, 8)]),
                };
                vec![json!({"tid": jtid(k), "term": jmp("BRANCHIND", json!({"Indirect": tv}), Value::Null, Value::Null, hints)})]
            }
            10 | 11 => {
                let call = json!({"target": sub_label(0x2000 + self.rng.below(3) * 0x10), "return": ret, "call_string": Value::Null});
                vec![json!({"tid": jtid(k), "term": jmp("CALL", Value::Null, call, Value::Null, Value::Null)})]
            }
            12 | 13 => {
                let tv = self.indirect_target(true);
                let call = json!({"target": {"Indirect": tv}, "return": ret, "call_string": Value::Null});
                vec![json!({"tid": jtid(k), "term": jmp("CALLIND", Value::Null, call, Value::Null, Value::Null)})]
            }
            14 => {
                let desc = *self.rng.pick(&["unimplemented", "cpuid", "swi"]);
                let call = json!({"target": Value::Null, "return": ret, "call_string": desc});
                vec![json!({"tid": jtid(k), "term": jmp("CALLOTHER", Value::Null, call, Value::Null, Value::Null)})]
            }
            _ => {
                let tv = self.indirect_target(false);
                vec![json!({"tid": jtid(k), "term": jmp("RETURN", json!({"Indirect": tv}), Value::Null, Value::Null, Value::Null)})]
            }
        }
    }

    fn block(&mut self, addr: u64, suffix: Option<u64>, targets: &[u64], max_defs: u64) -> Value {
        let mut defs: Vec<Value> = Vec::new();
        let n = 1 + self.rng.below(max_defs);
        while (defs.len() as u64) < n {
            if self.rng.chance(1, 4) {
                defs.extend(self.idiom());
            } else {
                defs.push(self.random_def());
            }
        }
        let a = hex_of(addr, 8);
        let terms: Vec<Value> = defs
            .into_iter()
            .enumerate()
            .map(|(i, d)| json!({"tid": {"id": format!("instr_{}_{}", a, i), "address": a}, "term": d}))
            .collect();
        let k = terms.len() as u64;
        let jmps = self.jmps(addr, k, targets);
        json!({"tid": self.blk_tid(addr, suffix), "term": {"defs": terms, "jmps": jmps}})
    }
}

/// instructions the extractor cannot emit / tables that are inconsistent: only model = implementation
/// (usually a panic) is compared on these
fn malform(rng: &mut Rng, project: &mut Value) -> &'static str {
    let subs = project["program"]["term"]["subs"].as_array_mut().unwrap();
    let blk = &mut subs[0]["term"]["blocks"][0]["term"];
    let kind = rng.below(8);
    let ndefs = blk["defs"].as_array().unwrap().len();
    let di = rng.below(ndefs as u64) as usize;
    match kind {
        0 => {
            blk["defs"][di]["term"]["lhs"] = Value::Null;
            "no-lhs"
        }
        1 => {
            blk["defs"][di]["term"]["rhs"]["input0"] = Value::Null;
            "no-input0"
        }
        2 => {
            blk["defs"][di]["term"]["rhs"]["input0"] = json!({"size": 4, "is_virtual": false});
            "empty-varnode"
        }
        3 => {
            blk["defs"][di]["term"]["rhs"]["mnemonic"] = json!("SUBPIECE");
            blk["defs"][di]["term"]["rhs"]["input1"] = v_reg("ZZ", 4);
            "subpiece-nonconst"
        }
        4 => {
            blk["defs"][di]["term"] = json!({"lhs": v_ram("1000", 4), "rhs": {"mnemonic": "LOAD", "input0": null, "input1": v_tmp("$Uptr", 8), "input2": null}});
            "load-to-ram"
        }
        5 => {
            // base register missing from the table
            let regs = project["register_properties"].as_array_mut().unwrap();
            let idx = regs.iter().position(|r| r["register"] == r["base_register"] && r["size"].as_u64().unwrap() > 1);
            if let Some(i) = idx {
                let name = regs[i]["register"].clone();
                if name != project["stack_pointer_register"]["name"] {
                    project["register_properties"].as_array_mut().unwrap().remove(i);
                }
            }
            "base-missing"
        }
        6 => {
            blk["jmps"] = json!([{"tid": {"id": "instr_j", "address": "00001000"}, "term": {"mnemonic": "RETURN",
                "goto": {"Indirect": v_ram("2000", 8)}, "call": null, "condition": null, "target_hints": null}}]);
            "return-ram"
        }
        _ => {
            blk["jmps"] = json!([{"tid": {"id": "instr_j", "address": "00001000"}, "term": {"mnemonic": "BRANCH",
                "goto": {"Indirect": v_tmp("$Ux", 8)}, "call": null, "condition": null, "target_hints": null}}]);
            "branch-indirect-label"
        }
    }
}

/// (public: `h_c12.rs` includes this file as a module for its P-Code stream)
pub fn gen_project(rng: &mut Rng, max_defs: u64) -> (Value, String) {
    let table = match rng.below(10) {
        0..=3 => table_x64(),
        4 | 5 => table_x86(),
        6 | 7 => table_risc(),
        _ => table_random(rng),
    };
    let nsubs = if rng.chance(1, 8) { 2 } else { 1 };
    let mut subs = Vec::new();
    let mut kind = String::from("valid");
    for si in 0..nsubs {
        let sub_addr = 0x1000 + 0x100 * (nsubs - 1 - si); // key order differs from the vector order
        let nblk = 1 + rng.below(3);
        let addrs: Vec<u64> = (0..nblk).map(|i| sub_addr + 0x10 * i).collect();
        let mut g = Gen { rng, t: &table };
        let mut blocks: Vec<Value> = Vec::new();
        for (i, a) in addrs.iter().enumerate() {
            let suffix = if i > 0 && g.rng.chance(1, 6) { Some(2 + g.rng.below(5)) } else { None };
            blocks.push(g.block(*a, suffix, &addrs, max_defs));
        }
        // the entry block is usually first; sometimes elsewhere (swapped to the front by the lifting),
        // rarely missing (all blocks are dropped)
        match g.rng.below(30) {
            0..=3 if nblk > 1 => {
                let j = 1 + g.rng.below(nblk - 1) as usize;
                blocks.swap(0, j);
                kind = "valid-entry-not-first".into();
            }
            4 => {
                let a = hex_of(sub_addr, 8);
                for b in blocks.iter_mut() {
                    if b["tid"]["address"] == json!(a) {
                        b["tid"]["address"] = json!(hex_of(sub_addr + 4, 8));
                    }
                }
                kind = "valid-no-entry-block".into();
            }
            _ => {}
        }
        let a = hex_of(sub_addr, 8);
        subs.push(json!({"tid": {"id": format!("sub_{}", a), "address": a},
            "term": {"name": format!("f{}", si), "blocks": blocks,
                     "calling_convention": if rng.chance(1, 2) { json!("__stdcall") } else { Value::Null }}}));
    }
    let regs: Vec<Value> = table
        .regs
        .iter()
        .map(|r| json!({"register": r.name, "base_register": r.base, "lsb": r.lsb, "size": r.size}))
        .collect();
    let entry: Vec<Value> =
        if rng.chance(1, 2) { vec![json!({"id": "sub_00001000", "address": "00001000"})] } else { vec![] };
    let mut project = json!({
        "program": {"tid": {"id": "prog_00001000", "address": "00001000"},
                    "term": {"subs": subs, "extern_symbols": [], "entry_points": entry, "image_base": "1000"}},
        "cpu_architecture": table.arch,
        "stack_pointer_register": {"name": table.sp, "size": table.ptr, "is_virtual": false},
        "register_properties": regs,
        "register_calling_convention": [],
        "datatype_properties": {"char_size": 1, "double_size": 8, "float_size": 4, "integer_size": 4,
            "long_double_size": 8, "long_long_size": 8, "long_size": table.ptr, "pointer_size": table.ptr, "short_size": 2}
    });
    if rng.chance(1, 30) {
        kind = format!("malformed-{}", malform(rng, &mut project));
    }
    (project, kind)
}

pub fn strip_nulls(v: &mut Value) {
    match v {
        Value::Object(m) => {
            let keys: Vec<String> = m.iter().filter(|(_, x)| x.is_null()).map(|(k, _)| k.clone()).collect();
            for k in keys {
                m.remove(&k);
            }
            for (_, x) in m.iter_mut() {
                strip_nulls(x);
            }
        }
        Value::Array(a) => {
            for x in a.iter_mut() {
                strip_nulls(x);
            }
        }
        _ => {}
    }
}

/// run the real lifting; canonical JSON of the lifted program or "panic:…" / "error:…"
fn lift(pcode_json: &Value) -> Value {
    let project: pcode::Project = match serde_json::from_value(pcode_json.clone()) {
        Ok(p) => p,
        Err(e) => return json!(format!("parse-error:{}", e)),
    };
    let r = catch(move || parse_pcode_project_to_ir_project(project, &[], &None));
    match r {
        Ok(Ok((ir, _logs))) => program_to_json(&ir.program.term),
        Ok(Err(e)) => json!(format!("error:{}", e)),
        Err(p) => {
            let first = p.lines().next().unwrap_or("").to_string();
            json!(format!("panic:{}", first.chars().take(80).collect::<String>()))
        }
    }
}

fn emit(out: &mut Out, mut pcode_json: Value, seeds: Vec<u64>, kind: &str) {
    strip_nulls(&mut pcode_json);
    let r = lift(&pcode_json);
    let panicked = r.is_string();
    out.count(&format!("kind:{}", kind.split('-').next().unwrap()));
    if kind.starts_with("malformed") || kind.starts_with("valid-") {
        out.count(&format!("kind:{}", kind));
    }
    out.count(if panicked { "impl:panic" } else { "impl:lifted" });
    // statistics over the input
    let mut nblocks = 0u64;
    for s in pcode_json["program"]["term"]["subs"].as_array().unwrap() {
        for b in s["term"]["blocks"].as_array().unwrap() {
            nblocks += 1;
            for d in b["term"]["defs"].as_array().unwrap() {
                out.count(&format!("op:{}", d["term"]["rhs"]["mnemonic"].as_str().unwrap_or("?")));
                for k in ["input0", "input1", "input2"] {
                    if d["term"]["rhs"][k].get("address").is_some() {
                        out.count("ram-input");
                    }
                    if let Some(v) = d["term"]["rhs"][k].get("value").and_then(|x| x.as_str()) {
                        let sz = d["term"]["rhs"][k]["size"].as_u64().unwrap_or(0);
                        if sz > 8 && v.len() <= 16 && u64::from_str_radix(v, 16).map(|x| x >> 63 == 1).unwrap_or(false) {
                            out.count("wide-const-short-string-bit63");
                        }
                    }
                }
                if d["term"]["lhs"].get("address").is_some() {
                    out.count("ram-output");
                }
            }
            for j in b["term"]["jmps"].as_array().unwrap() {
                out.count(&format!("jmp:{}", j["term"]["mnemonic"].as_str().unwrap_or("?")));
            }
        }
    }
    out.count_n("blocks", nblocks);
    if !panicked {
        let s = r.to_string();
        out.count_n("lifted:loaded_value", s.matches("loaded_value").count() as u64 / 2);
        out.count_n("lifted:piece", s.matches("\"Piece\"").count() as u64);
        out.count_n("lifted:subpiece", s.matches("\"Subpiece\"").count() as u64);
    }
    let key = pcode_json.to_string();
    let line = json!({"pcode": pcode_json, "seeds": seeds, "kind": kind, "impl": r}).to_string();
    out.case(&line, if panicked { None } else { Some(&key) });
}

fn main() {
    quiet_panics();
    let args = Args::parse();
    let mut out = Out::new(
        &args,
        "random P-Code projects (1-2 functions, 1-3 blocks, 1-7+ instructions per block; every mnemonic with operand \
         sizes consistent with the operation; operands: registers incl. nested sub-registers with lsb != 0 and \
         varnodes smaller than the register they are named after, temporaries, constants, RAM varnodes; \
         sub-register-write + cast idioms; all jump kinds; 4 register-table styles) lifted by the real \
         normalize + into_ir_project; non-trivial = lifted without panic; distinct by the P-Code project",
    );
    if let Some(lines) = args.replay_lines() {
        for line in lines {
            let v: Value = serde_json::from_str(&line).expect("replay line");
            let seeds: Vec<u64> = v["seeds"].as_array().map(|a| a.iter().filter_map(|x| x.as_u64()).collect()).unwrap_or_default();
            let kind = v["kind"].as_str().unwrap_or("valid").to_string();
            emit(&mut out, v["pcode"].clone(), seeds, &kind);
        }
        out.finish();
        return;
    }
    let mut rng = Rng::new(args.seed);
    let projects = args.num("projects", 2600, 60000);
    let nseeds = args.num("states", 3, 6);
    let max_defs = args.num("maxdefs", 6, 7);
    for _ in 0..projects {
        let (p, kind) = gen_project(&mut rng, max_defs);
        let seeds: Vec<u64> = (0..nseeds).map(|_| rng.next() >> 12).collect();
        emit(&mut out, p, seeds, &kind);
    }
    out.finish();
}
