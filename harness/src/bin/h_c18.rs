//! C18 harness: drives the REAL modules `cwe_560::CWE_MODULE.run` and `cwe_467::CWE_MODULE.run` on
//! generated projects whose blocks end in calls to `umask` / the configured CWE467 symbols and compute
//! the call parameters through chains of constant assignments, register copies, integer arithmetic,
//! stores to and loads from the stack frame (via RSP and aliases of it), sometimes from unknown inputs.
//!
//! Decisions (documented for props/C18.json):
//! * both checkers ignore every analysis result: they build `State::new(stack_register, block.tid, {})`
//!   themselves. The modules are therefore run with `AnalysisResults::new(&[], &cfg, &project)`; in every
//!   8th case the real function-signature and pointer-inference analyses are computed and attached
//!   first (as the CLI does) — the output must be (and is compared as) the same.
//! * projects are `verif_harness::ir::project_x64` (little endian, empty memory image, RSP 8 bytes); one
//!   third of the cases is analysed after the real `normalize_basic` (the minimum `get_program_cfg` needs),
//!   two thirds after the real `normalize()` as the CLI does. The case line contains the project AS ANALYSED.
//! * the CWE467 symbol list is the one of `$VERIF_REPO/src/config.json`, in every 5th case a random
//!   sub-list plus a made-up name.
//!
//! Discipline of the generator (keeps the lumped interval model of Model.lean exact, see its header):
//! registers that may hold stack pointers (RSP, aliases, loaded values) are combined only with immediate
//! constants; `Subpiece` with a non-zero low byte is applied to constants only.
use cwe_checker_lib::analysis::graph::get_program_cfg;
use cwe_checker_lib::intermediate_representation::*;
use cwe_checker_lib::pipeline::AnalysisResults;
use verif_harness::ir::*;
use verif_harness::*;

// ---------------------------------------------------------------------------------------------
// running the real code

struct Cfg {
    memory: Value,
    symbols: Vec<String>,
}

fn run_impl(project: &Project, symbols: &[String], memory: &Value, with_pi: bool) -> Value {
    let p = std::panic::AssertUnwindSafe(project);
    let syms = symbols.to_vec();
    let mem = memory.clone();
    let r = catch(move || {
        let graph = get_program_cfg(&p.program);
        let ar = AnalysisResults::new(&[], &graph, &p);
        let p467 = json!({ "symbols": syms });
        let run = |ar: &AnalysisResults| {
            let (logs560, w560) = (cwe_checker_lib::checkers::cwe_560::CWE_MODULE.run)(ar, &Value::Null);
            let (_logs467, w467) = (cwe_checker_lib::checkers::cwe_467::CWE_MODULE.run)(ar, &p467);
            let mut c560: Vec<String> = Vec::new();
            // interleave in call-site order is not observable: warnings first, then logs would lose the
            // order; the model emits them in call-site order, so sort both by position in the program
            for w in w560.iter() {
                let arg = w.other.get(0).and_then(|o| o.get(1)).cloned().unwrap_or_default();
                c560.push(format!("W|{}|{}|{}|{}", w.tids.get(0).cloned().unwrap_or_default(), w.addresses.get(0).cloned().unwrap_or_default(), w.description, arg));
            }
            for l in logs560.iter() {
                let ok = l.text.starts_with("Could not determine umask argument");
                c560.push(format!("{}|{}", if ok { "L" } else { "L?" }, l.location.as_ref().map(|t| format!("{}", t)).unwrap_or_default()));
            }
            let c467: Vec<String> = w467
                .iter()
                .map(|w| format!("W|{}|{}|{}|", w.tids.get(0).cloned().unwrap_or_default(), w.addresses.get(0).cloned().unwrap_or_default(), w.description))
                .collect();
            json!({"c560": c560, "c467": c467})
        };
        if with_pi {
            let (fs, _logs) = ar.compute_function_signatures();
            let ar = ar.with_function_signatures(Some(&fs));
            let pi = ar.compute_pointer_inference(&mem, false);
            let ar = ar.with_pointer_inference(Some(&pi));
            run(&ar)
        } else {
            run(&ar)
        }
    });
    match r {
        Ok(v) => v,
        Err(p) => json!(format!("panic:{}", p.replace(' ', "_"))),
    }
}

/// order the CWE560 lines by call site (the model emits one line per call site in program order;
/// the real module returns warnings and log messages in two separate lists)
fn order_560(project: &Project, imp: &mut Value) {
    if let Some(lines) = imp.get("c560").and_then(|l| l.as_array()).cloned() {
        let mut order: Vec<String> = Vec::new();
        for sub in project.program.term.subs.values() {
            for blk in sub.term.blocks.iter() {
                for jmp in blk.term.jmps.iter() {
                    order.push(format!("{}", jmp.tid));
                }
            }
        }
        let pos = |l: &Value| {
            let s = l.as_str().unwrap_or("");
            let t = s.split('|').nth(1).unwrap_or("");
            order.iter().position(|o| o == t).unwrap_or(usize::MAX)
        };
        let mut ls = lines;
        ls.sort_by_key(|l| pos(l));
        imp["c560"] = Value::Array(ls);
    }
}

fn emit(out: &mut Out, project: &Project, cfg: &Cfg, symbols: &[String], seed: u64, norm: &str, with_pi: bool) {
    let mut imp = run_impl(project, symbols, &cfg.memory, with_pi);
    order_560(project, &mut imp);
    let pj = project_to_json(project);
    out.count(&format!("norm:{}", norm));
    out.count(if with_pi { "analysis_results:with_fn_sigs_and_pointer_inference" } else { "analysis_results:project_only" });
    let mut nontrivial = false;
    if imp.is_string() {
        out.count("impl:panic");
    } else {
        let c560 = imp["c560"].as_array().unwrap();
        let c467 = imp["c467"].as_array().unwrap();
        let w = c560.iter().filter(|l| l.as_str().unwrap().starts_with("W|")).count();
        let l = c560.len() - w;
        out.count_n("c560:warnings", w as u64);
        out.count_n("c560:undetermined", l as u64);
        out.count_n("c467:warnings", c467.len() as u64);
        nontrivial = w + c467.len() > 0;
    }
    let line = json!({"proj": pj, "syms": symbols, "seed": seed, "norm": norm, "pi": with_pi, "impl": imp}).to_string();
    let key = pj.to_string();
    out.case(&line, if nontrivial { Some(&key) } else { None });
}

// ---------------------------------------------------------------------------------------------
// generator

const REGS8: [&str; 10] = ["RAX", "RBX", "RCX", "RDX", "RSI", "RDI", "RBP", "R8", "R9", "R10"];
const PARAM_REGS: [&str; 6] = ["RDI", "RSI", "RDX", "RCX", "R8", "R9"];

#[derive(Clone, Copy, PartialEq, Debug)]
enum Kind {
    /// known constant (value, bytes) as far as the generator can tell
    Const(u64, u64),
    /// plain value: never a stack pointer (unknown input, result of arithmetic on plain values)
    Plain,
    /// may be a stack pointer (RSP, aliases, loaded values): combined with immediates only
    Ptr,
}

struct Gen<'a> {
    rng: &'a mut Rng,
    kinds: std::collections::BTreeMap<String, Kind>,
    defs: Vec<Term<Def>>,
    n: u64,
    blk: String,
    /// a register holding `current RSP + d`
    alias: Option<(String, i64)>,
}

fn mask(size: u64) -> u64 {
    if size >= 8 {
        u64::MAX
    } else {
        (1u64 << (8 * size)) - 1
    }
}

const UMASK_VALUES: [u64; 22] = [
    0o177, 0o200, 0o777, 0o776, 0o1000, 0o22, 0o27, 0o77, 0, 1, 0o176, 0o666, 0o644, 0o7777, 0o201, 0o1777, 0x1ff, 0x80, 0x7f, 0xffff_ffff,
    0x8000_0000, 0o600,
];
const SIZE_VALUES: [u64; 16] = [8, 4, 7, 9, 16, 0, 1, 2, 32, 64, 0x100, 0x1000, 12, 24, 0xffff_ffff, 0x8000_0008];

impl<'a> Gen<'a> {
    fn tid(&mut self, what: &str) -> String {
        self.n += 1;
        format!("{}_{}{}", self.blk, what, self.n)
    }
    fn kind(&self, r: &str) -> Kind {
        *self.kinds.get(r).unwrap_or(&Kind::Plain)
    }
    fn assign(&mut self, v: Variable, e: Expression, k: Kind) {
        let t = self.tid("d");
        self.kinds.insert(v.name.clone(), k);
        self.defs.push(d_assign(&t, v, e));
    }
    fn plain_regs(&self) -> Vec<&'static str> {
        REGS8.iter().cloned().filter(|r| self.kind(r) != Kind::Ptr).collect()
    }
    fn ptr_regs(&self) -> Vec<&'static str> {
        let mut v: Vec<&'static str> = REGS8.iter().cloned().filter(|r| self.kind(r) == Kind::Ptr).collect();
        v.push("RSP");
        v
    }
    fn scratch(&mut self, avoid: &[&str]) -> &'static str {
        for _ in 0..20 {
            let r = *self.rng.pick(&REGS8);
            if !avoid.contains(&r) && !self.alias.as_ref().map(|a| a.0 == r).unwrap_or(false) {
                return r;
            }
        }
        "R9"
    }
    /// an immediate of `size` bytes
    fn imm(&mut self, size: u64) -> u64 {
        let v = match self.rng.below(8) {
            0 => *self.rng.pick(&UMASK_VALUES),
            1 => *self.rng.pick(&SIZE_VALUES),
            2 => self.rng.below(16),
            3 => self.rng.biased(8 * size as u32),
            4 => 1u64 << self.rng.below(8 * size),
            _ => self.rng.below(0x400),
        };
        v & mask(size)
    }

    // -- goal directed: make `reg` (8 bytes) hold `target` as a `size`-byte value (zero extended)
    fn into_reg(&mut self, reg: &'static str, target: u64, size: u64) {
        let t = target & mask(size);
        let wrap = |e: Expression| if size == 8 { e } else { e_cast(CastOpType::IntZExt, 8, e) };
        let strategy = self.rng.below(20);
        match strategy {
            0..=3 => {
                // direct
                self.assign(var(reg, 8), wrap(e_const(t, size)), Kind::Const(t, 8));
            }
            4..=8 => {
                // two operands, second an immediate, through a scratch register of the right size
                let (op, a, b) = self.split(t, size);
                if size == 8 {
                    let x = self.scratch(&[reg, "RSP"]);
                    self.assign(var(x, 8), e_const(a, 8), Kind::Const(a, 8));
                    self.maybe_noise(&[reg, x]);
                    let e = if self.rng.chance(1, 6) { e_bin(op, e_const(a, 8), e_const(b, self.amount_size(op, 8))) } else { e_bin(op, e_var(x, 8), e_const(b, self.amount_size(op, 8))) };
                    self.assign(var(reg, 8), e, Kind::Plain);
                } else {
                    let t1 = tmp("$T1", 4);
                    let t2 = tmp("$T2", 4);
                    self.assign(t1.clone(), e_const(a, 4), Kind::Const(a, 4));
                    let asz = self.amount_size(op, 4);
                    self.assign(t2.clone(), e_bin(op, Expression::Var(t1), e_const(b, asz)), Kind::Plain);
                    self.assign(var(reg, 8), e_cast(CastOpType::IntZExt, 8, Expression::Var(t2)), Kind::Plain);
                }
            }
            9..=10 => {
                // nested constant expression
                let (op, a, b) = self.split(t, size);
                let (op2, a1, a2) = self.split(a, size);
                let s1 = self.amount_size(op2, size);
                let s2 = self.amount_size(op, size);
                let e = e_bin(op, e_bin(op2, e_const(a1, size), e_const(a2, s1)), e_const(b, s2));
                self.assign(var(reg, 8), wrap(e), Kind::Plain);
            }
            11..=15 => {
                // through the stack frame
                self.via_stack(reg, t, size);
            }
            16 => {
                // xor-zero idiom, then or / add
                self.assign(var(reg, 8), e_bin(BinOpType::IntXOr, e_var(reg, 8), e_var(reg, 8)), Kind::Const(0, 8));
                let op = if self.rng.chance(1, 2) { BinOpType::IntOr } else { BinOpType::IntAdd };
                self.assign(var(reg, 8), e_bin(op, e_var(reg, 8), e_const(t, 8)), Kind::Plain);
            }
            17 => {
                // copy chain
                let x = self.scratch(&[reg, "RSP"]);
                let y = self.scratch(&[reg, x, "RSP"]);
                self.assign(var(x, 8), wrap(e_const(t, size)), Kind::Const(t, 8));
                self.assign(var(y, 8), e_var(x, 8), Kind::Const(t, 8));
                self.maybe_noise(&[reg, y]);
                self.assign(var(reg, 8), e_var(y, 8), Kind::Const(t, 8));
            }
            18 => {
                // unary operations / extensions
                match self.rng.below(3) {
                    0 => self.assign(var(reg, 8), wrap(e_un(UnOpType::Int2Comp, e_const(t.wrapping_neg() & mask(size), size))), Kind::Plain),
                    1 => self.assign(var(reg, 8), wrap(e_un(UnOpType::IntNegate, e_const(!t & mask(size), size))), Kind::Plain),
                    _ => {
                        // low subpiece of a wider constant with garbage above
                        let hi = self.rng.next() << 32;
                        if size == 4 {
                            self.assign(var(reg, 8), e_cast(CastOpType::IntZExt, 8, e_sub(0, 4, e_const(hi | t, 8))), Kind::Plain)
                        } else {
                            self.assign(var(reg, 8), e_cast(CastOpType::IntSExt, 8, e_const(t & 0x7fff_ffff, 4)), Kind::Plain)
                        }
                    }
                }
            }
            _ => {
                // contaminated by an unknown input
                let x = self.scratch(&[reg, "RSP"]);
                match self.rng.below(4) {
                    0 if self.kind(x) != Kind::Ptr => {
                        let k = self.kind(x);
                        let e = e_bin(BinOpType::IntAdd, e_var(x, 8), e_const(t, 8));
                        self.assign(var(reg, 8), e, if let Kind::Const(..) = k { Kind::Plain } else { Kind::Plain });
                    }
                    1 => self.assign(var(reg, 8), e_unknown("input", 8), Kind::Plain),
                    2 => {
                        // multiplication of an unknown with zero, shifted out unknown: still "unknown" inputs
                        let u = e_unknown("in", 8);
                        let e = if self.rng.chance(1, 2) { e_bin(BinOpType::IntMult, u, e_const(0, 8)) } else { e_bin(BinOpType::IntAnd, u, e_const(t, 8)) };
                        self.assign(var(reg, 8), e, Kind::Plain);
                    }
                    _ => {
                        // load from a slot that was never written
                        let off = 0x100 + 8 * self.rng.below(8) as i64;
                        let t0 = self.tid("d");
                        self.kinds.insert(reg.to_string(), Kind::Ptr);
                        self.defs.push(d_load(&t0, var(reg, 8), e_bin(BinOpType::IntAdd, e_var("RSP", 8), e_const(off as u64, 8))));
                    }
                }
            }
        }
    }

    fn amount_size(&mut self, op: BinOpType, size: u64) -> u64 {
        match op {
            BinOpType::IntLeft | BinOpType::IntRight | BinOpType::IntSRight => *self.rng.pick(&[size, size, 1, 8, 4]),
            _ => size,
        }
    }

    /// (op, a, b) with `a op b = t` on `size` bytes (wrapping), sometimes with a signed overflow
    fn split(&mut self, t: u64, size: u64) -> (BinOpType, u64, u64) {
        let m = mask(size);
        let min = 1u64 << (8 * size - 1);
        match self.rng.below(14) {
            0 | 1 => {
                let b = self.rng.below(0x300) & m;
                (BinOpType::IntAdd, t.wrapping_sub(b) & m, b)
            }
            2 => {
                // both operands negative: wraps to t with a signed overflow
                let x = self.rng.below(0x100);
                let a = (min + x) & m;
                (BinOpType::IntAdd, a, t.wrapping_sub(a) & m)
            }
            3 => {
                let b = self.rng.below(0x300) & m;
                (BinOpType::IntSub, t.wrapping_add(b) & m, b)
            }
            4 => {
                // a - b with a ≥ 0 > b and overflow
                let b = (min + self.rng.below(0x100)) & m;
                (BinOpType::IntSub, t.wrapping_add(b) & m, b)
            }
            5 => {
                let b = self.rng.next() & m & 0xffff;
                (BinOpType::IntXOr, t ^ b, b)
            }
            6 => {
                let b = self.rng.next() & t;
                let a = (t & !b) | (self.rng.next() & t);
                (BinOpType::IntOr, a, b)
            }
            7 => {
                let e1 = self.rng.next() & m & !t;
                let e2 = self.rng.next() & m & !t & !e1;
                (BinOpType::IntAnd, t | e1, t | e2)
            }
            8 => {
                let tz = if t == 0 { 0 } else { t.trailing_zeros() as u64 };
                let s = if tz == 0 { 0 } else { self.rng.below(tz + 1) };
                // sometimes garbage in the bits that are shifted out
                let hi = if self.rng.chance(1, 3) && s > 0 { (self.rng.next() << (8 * size - s)) & m } else { 0 };
                (BinOpType::IntLeft, (t >> s) | hi, s)
            }
            9 => {
                let lz = if t == 0 { 8 * size } else { (t & m).leading_zeros() as u64 - (64 - 8 * size) };
                let s = if lz == 0 { 0 } else { self.rng.below(lz.min(20) + 1) };
                let lo = if s > 0 { self.rng.next() & ((1u64 << s) - 1) } else { 0 };
                (BinOpType::IntRight, ((t << s) | lo) & m, s)
            }
            10 => {
                let lz = if t == 0 { 8 * size } else { (t & m).leading_zeros() as u64 - (64 - 8 * size) };
                let s = if lz <= 1 { 0 } else { self.rng.below((lz - 1).min(20) + 1) };
                (BinOpType::IntSRight, (t << s) & m, s)
            }
            11 => {
                // multiplication: exact factor if there is one, else by one
                for f in [3u64, 2, 5, 7, 8, 16] {
                    if t != 0 && t % f == 0 {
                        return (BinOpType::IntMult, t / f, f);
                    }
                }
                (BinOpType::IntMult, t, 1)
            }
            12 => {
                // multiplication that wraps: a * b ≡ t (b odd, a = t * b^-1)
                let b = (self.rng.next() | 1) & m;
                let mut inv: u64 = 1;
                for _ in 0..6 {
                    inv = inv.wrapping_mul(2u64.wrapping_sub(b.wrapping_mul(inv)));
                }
                (BinOpType::IntMult, t.wrapping_mul(inv) & m, b)
            }
            _ => {
                // shift amount beyond the width
                if t == 0 {
                    (BinOpType::IntLeft, self.rng.next() & m, 8 * size + self.rng.below(3))
                } else {
                    (BinOpType::IntAdd, t, 0)
                }
            }
        }
    }

    /// a stack address expression `base + off` and the offset relative to the current RSP
    fn stack_addr(&mut self, off_from_rsp: i64) -> Expression {
        let base = if self.alias.is_some() && self.rng.chance(1, 2) { self.alias.clone().unwrap() } else { ("RSP".to_string(), 0i64) };
        let rel = off_from_rsp - base.1;
        if rel == 0 && self.rng.chance(1, 2) {
            e_var(&base.0, 8)
        } else if rel < 0 && self.rng.chance(1, 2) {
            e_bin(BinOpType::IntSub, e_var(&base.0, 8), e_const((-rel) as u64, 8))
        } else {
            e_bin(BinOpType::IntAdd, e_var(&base.0, 8), e_const(rel as u64, 8))
        }
    }

    fn via_stack(&mut self, reg: &'static str, t: u64, size: u64) {
        let off = -8 * (1 + self.rng.below(12) as i64) + if size == 4 && self.rng.chance(1, 2) { 4 } else { 0 };
        // value to store: immediate, or a register computed before
        let addr = self.stack_addr(off);
        let tstore = self.tid("d");
        if self.rng.chance(1, 2) {
            self.defs.push(d_store(&tstore, addr, e_const(t, size)));
        } else {
            let x = self.scratch(&[reg, "RSP", "RBP"]);
            if self.alias.as_ref().map(|a| a.0 == x).unwrap_or(false) {
                self.defs.push(d_store(&tstore, addr, e_const(t, size)));
            } else {
                self.assign(var(x, 8), e_const(t, 8), Kind::Const(t, 8));
                let v = if size == 8 { e_var(x, 8) } else { e_sub(0, 4, e_var(x, 8)) };
                self.defs.push(d_store(&tstore, addr, v));
            }
        }
        // interference
        match self.rng.below(12) {
            0 => {
                // overlapping store kills the cell
                let o2 = off + *self.rng.pick(&[-4i64, 4, -2, 1, -7, 7]);
                let a2 = self.stack_addr(o2);
                let t2 = self.tid("d");
                let s2 = *self.rng.pick(&[4u64, 8, 1, 2]);
                self.defs.push(d_store(&t2, a2, e_const(0o777, s2)));
            }
            1 => {
                // adjacent stores do not
                let a2 = self.stack_addr(off + size as i64);
                let t2 = self.tid("d");
                self.defs.push(d_store(&t2, a2, e_const(0o777, 4)));
                let a3 = self.stack_addr(off - 8);
                let t3 = self.tid("d");
                self.defs.push(d_store(&t3, a3, e_const(8, 8)));
            }
            2 => {
                // store through an unknown pointer
                let x = self.scratch(&[reg, "RSP"]);
                if self.kind(x) != Kind::Ptr {
                    let t2 = self.tid("d");
                    self.defs.push(d_store(&t2, e_var(x, 8), e_const(7, 8)));
                }
            }
            3 => {
                // overwritten with the same size: last write wins
                let a2 = self.stack_addr(off);
                let t2 = self.tid("d");
                let nv = self.imm(size);
                self.defs.push(d_store(&t2, a2, e_const(nv, size)));
            }
            4 => {
                // push of an unknown register below
                let a2 = self.stack_addr(off - 16);
                let t2 = self.tid("d");
                let x = self.scratch(&["RSP"]);
                self.defs.push(d_store(&t2, a2, e_var(x, 8)));
            }
            _ => self.maybe_noise(&[reg]),
        }
        // load back (sometimes with the wrong size or offset)
        let (lo, ls) = match self.rng.below(14) {
            0 => (off, if size == 8 { 4 } else { 8 }),
            1 => (off + 4, size),
            _ => (off, size),
        };
        let addr2 = self.stack_addr(lo);
        let tl = self.tid("d");
        if ls == 8 {
            self.kinds.insert(reg.to_string(), Kind::Ptr);
            self.defs.push(d_load(&tl, var(reg, 8), addr2));
        } else {
            let t1 = tmp("$T3", 4);
            self.defs.push(d_load(&tl, t1.clone(), addr2));
            let ext = if self.rng.chance(1, 5) { CastOpType::IntSExt } else { CastOpType::IntZExt };
            self.assign(var(reg, 8), e_cast(ext, 8, Expression::Var(t1)), Kind::Plain);
        }
        if self.rng.chance(1, 5) {
            // arithmetic on the loaded value with an immediate
            let b = self.rng.below(3);
            let op = *self.rng.pick(&[BinOpType::IntAdd, BinOpType::IntSub, BinOpType::IntOr]);
            let k = self.kind(reg);
            self.assign(var(reg, 8), e_bin(op, e_var(reg, 8), e_const(b, 8)), k);
        }
    }

    fn maybe_noise(&mut self, avoid: &[&str]) {
        if !self.rng.chance(1, 3) {
            return;
        }
        let x = self.scratch(avoid);
        if x == "RSP" || avoid.contains(&x) || self.alias.as_ref().map(|a| a.0 == x).unwrap_or(false) {
            return;
        }
        match self.rng.below(5) {
            0 => self.assign(var(x, 8), e_unknown("noise", 8), Kind::Plain),
            1 => {
                let v = self.imm(8);
                self.assign(var(x, 8), e_const(v, 8), Kind::Const(v, 8))
            }
            2 => {
                // arithmetic between plain registers
                let ps: Vec<&'static str> = self.plain_regs().into_iter().filter(|r| !self.alias.as_ref().map(|a| a.0 == *r).unwrap_or(false)).collect();
                if ps.len() >= 2 && self.kind(x) != Kind::Ptr {
                    let a = *self.rng.pick(&ps);
                    let b = *self.rng.pick(&ps);
                    let op = *self.rng.pick(&[
                        BinOpType::IntAdd,
                        BinOpType::IntSub,
                        BinOpType::IntXOr,
                        BinOpType::IntAnd,
                        BinOpType::IntOr,
                        BinOpType::IntMult,
                        BinOpType::IntLeft,
                        BinOpType::IntRight,
                    ]);
                    self.assign(var(x, 8), e_bin(op, e_var(a, 8), e_var(b, 8)), Kind::Plain);
                }
            }
            3 => {
                let o = -8 * (13 + self.rng.below(6) as i64);
                let a = self.stack_addr(o);
                let t = self.tid("d");
                let v = self.imm(8);
                self.defs.push(d_store(&t, a, e_const(v, 8)));
            }
            _ => {
                if self.kind(x) != Kind::Ptr {
                    let e = e_cast(CastOpType::IntZExt, 8, e_sub(0, 4, e_var(x, 8)));
                    self.assign(var(x, 8), e, Kind::Plain);
                }
            }
        }
    }
}

struct SymSpec {
    name: &'static str,
    /// parameter sizes
    params: &'static [u64],
}

const SYMS: [SymSpec; 9] = [
    SymSpec { name: "umask", params: &[4] },
    SymSpec { name: "malloc", params: &[8] },
    SymSpec { name: "memcpy", params: &[8, 8, 8] },
    SymSpec { name: "strncmp", params: &[8, 8, 8] },
    SymSpec { name: "strncpy", params: &[8, 8, 8] },
    SymSpec { name: "memcmp", params: &[8, 8, 4] },
    SymSpec { name: "alloca", params: &[4] },
    SymSpec { name: "puts", params: &[8] },
    SymSpec { name: "my_alloc", params: &[8, 4] },
];

struct ExtDesc {
    sym: ExternSymbol,
    /// for every parameter: Some(register) or None = stack parameter at (RSP + offset), and the size
    params: Vec<(Option<&'static str>, i64, u64)>,
}

fn gen_externs(rng: &mut Rng) -> Vec<ExtDesc> {
    let mut out = Vec::new();
    for (i, s) in SYMS.iter().enumerate() {
        if s.name != "umask" && rng.chance(1, 3) {
            continue;
        }
        let mut params = Vec::new();
        let mut descs = Vec::new();
        let mut psizes: Vec<u64> = s.params.to_vec();
        if s.name == "umask" {
            match rng.below(10) {
                0 => psizes = vec![8],
                1 => psizes = vec![4, 8], // not a unique parameter: CWE560 cannot evaluate it
                _ => {}
            }
        }
        let stack_style = rng.chance(1, 5);
        for (k, sz) in psizes.iter().enumerate() {
            if stack_style {
                let off = 8 * k as i64 + if rng.chance(1, 2) { 8 } else { 0 };
                let addr = if off == 0 { e_var("RSP", 8) } else { e_bin(BinOpType::IntAdd, e_var("RSP", 8), e_const(off as u64, 8)) };
                params.push(Arg::Stack { address: addr, size: ByteSize::new(*sz), data_type: None });
                descs.push((None, off, *sz));
            } else {
                let r = PARAM_REGS[k];
                let e = if *sz == 8 { e_var(r, 8) } else { e_sub(0, *sz, e_var(r, 8)) };
                params.push(Arg::Register { expr: e, data_type: None });
                descs.push((Some(r), 0, *sz));
            }
        }
        let sym = extern_symbol(&format!("ext_{}_{}", i, s.name), s.name, params, vec![Arg::Register { expr: e_var("RAX", 8), data_type: None }], false);
        out.push(ExtDesc { sym, params: descs });
    }
    out
}

fn gen_project(rng: &mut Rng) -> Project {
    let externs = gen_externs(rng);
    let nsubs = 1 + rng.below(3);
    let mut subs = Vec::new();
    let mut addr = 0x1000u64;
    for si in 0..nsubs {
        let nblocks = 1 + rng.below(4);
        let mut blocks = Vec::new();
        for bi in 0..nblocks {
            let bid = format!("s{}b{}", si, bi);
            let next = format!("s{}b{}", si, bi + 1);
            let mut g = Gen { rng: &mut *rng, kinds: Default::default(), defs: Vec::new(), n: 0, blk: bid.clone(), alias: None };
            g.kinds.insert("RSP".into(), Kind::Ptr);
            // prologue variants
            match g.rng.below(6) {
                0 => {
                    // push rbp; mov rbp, rsp; sub rsp, N
                    let t0 = g.tid("d");
                    g.defs.push(d_assign(&t0, var("RSP", 8), e_bin(BinOpType::IntSub, e_var("RSP", 8), e_const(8, 8))));
                    let t1 = g.tid("d");
                    g.defs.push(d_store(&t1, e_var("RSP", 8), e_var("RBP", 8)));
                    g.assign(var("RBP", 8), e_var("RSP", 8), Kind::Ptr);
                    let n = 0x10 * (1 + g.rng.below(8));
                    let t2 = g.tid("d");
                    g.defs.push(d_assign(&t2, var("RSP", 8), e_bin(BinOpType::IntSub, e_var("RSP", 8), e_const(n, 8))));
                    g.alias = Some(("RBP".to_string(), n as i64));
                }
                1 => {
                    let n = 0x10 * (1 + g.rng.below(8));
                    let t2 = g.tid("d");
                    let e = if g.rng.chance(1, 2) {
                        e_bin(BinOpType::IntAdd, e_var("RSP", 8), e_const((n as i64).wrapping_neg() as u64, 8))
                    } else {
                        e_bin(BinOpType::IntSub, e_var("RSP", 8), e_const(n, 8))
                    };
                    g.defs.push(d_assign(&t2, var("RSP", 8), e));
                }
                2 => {
                    // lea rbx, [rsp+0x40]
                    let r = *g.rng.pick(&["RBX", "R10", "RBP"]);
                    let n = 8 * g.rng.below(16) as i64;
                    g.assign(var(r, 8), e_bin(BinOpType::IntAdd, e_var("RSP", 8), e_const(n as u64, 8)), Kind::Ptr);
                    g.alias = Some((r.to_string(), n));
                }
                _ => {}
            }
            // the call at the end of the block
            let call: Option<&ExtDesc> = if g.rng.chance(5, 6) && !externs.is_empty() {
                if g.rng.chance(2, 5) {
                    externs.iter().find(|e| e.sym.name == "umask")
                } else {
                    Some(&externs[g.rng.below(externs.len() as u64) as usize])
                }
            } else {
                None
            };
            let avoid_all: Vec<&'static str> = PARAM_REGS.to_vec();
            g.maybe_noise(&avoid_all);
            if let Some(ext) = call {
                let values: &[u64] = if ext.sym.name == "umask" { &UMASK_VALUES } else { &SIZE_VALUES };
                for (k, (preg, off, sz)) in ext.params.iter().enumerate() {
                    if g.rng.chance(1, 10) {
                        continue; // parameter not set in this block
                    }
                    let mut target = if g.rng.chance(5, 6) { *g.rng.pick(values) } else { g.imm(*sz) };
                    if ext.sym.name != "umask" && k + 1 < ext.params.len() && g.rng.chance(2, 3) {
                        // the non-size parameters of memcpy & co. are usually pointers
                        target = 0x60_1000 + 8 * g.rng.below(32);
                    }
                    if *sz == 8 && g.rng.chance(1, 12) {
                        target |= g.rng.next() << 32;
                    }
                    match preg {
                        Some(r) => {
                            let alias_reg = g.alias.as_ref().map(|a| a.0 == *r).unwrap_or(false);
                            if alias_reg {
                                g.alias = None;
                            }
                            let vs = if *sz == 4 || g.rng.chance(1, 3) { 4 } else { 8 };
                            g.into_reg(r, target, vs);
                        }
                        None => {
                            // stack parameter: compute into a scratch register, store at RSP+off
                            let x = g.scratch(&["RSP", "RBP", "RBX", "R10"]);
                            let addr_e = if *off == 0 { e_var("RSP", 8) } else { e_bin(BinOpType::IntAdd, e_var("RSP", 8), e_const(*off as u64, 8)) };
                            if g.rng.chance(1, 3) {
                                let t0 = g.tid("d");
                                g.defs.push(d_store(&t0, addr_e, e_const(target & mask(*sz), *sz)));
                            } else {
                                let vs = if *sz == 4 { 4 } else { *g.rng.pick(&[4u64, 8]) };
                                g.into_reg(x, target, vs);
                                let v = if *sz == 8 { e_var(x, 8) } else { e_sub(0, *sz, e_var(x, 8)) };
                                let t0 = g.tid("d");
                                // sometimes the wrong size is stored
                                let v = if g.rng.chance(1, 15) { e_var(x, 8) } else { v };
                                g.defs.push(d_store(&t0, addr_e, v));
                            }
                        }
                    }
                    let avoid: Vec<&'static str> = if g.rng.chance(1, 8) { vec![] } else { avoid_all.clone() };
                    g.maybe_noise(&avoid);
                }
                if g.rng.chance(1, 25) {
                    // clobber a parameter register at the very end
                    let r = *g.rng.pick(&PARAM_REGS[..2]);
                    g.assign(var(r, 8), e_unknown("late", 8), Kind::Plain);
                }
            }
            let mut jmps = Vec::new();
            let last = bi + 1 == nblocks;
            let jt = format!("{}_j", bid);
            match call {
                Some(ext) => {
                    if g.rng.chance(1, 10) && !last {
                        let c = Term { tid: tid_at(&format!("{}_c", bid), &format!("{:x}", addr + 0x20)), term: Jmp::CBranch { target: tid(&next), condition: e_var("ZF", 1) } };
                        jmps.push(c);
                    }
                    let ret = if last { None } else { Some(tid(&next)) };
                    jmps.push(Term { tid: tid_at(&jt, &format!("{:x}", addr + 0x24)), term: Jmp::Call { target: ext.sym.tid.clone(), return_: ret } });
                }
                None => {
                    if last {
                        jmps.push(Term { tid: tid_at(&jt, &format!("{:x}", addr + 0x24)), term: Jmp::Return(e_var("RAX", 8)) });
                    } else {
                        jmps.push(Term { tid: tid_at(&jt, &format!("{:x}", addr + 0x24)), term: Jmp::Branch(tid(&next)) });
                    }
                }
            }
            let defs = std::mem::take(&mut g.defs);
            blocks.push(Term { tid: tid_at(&bid, &format!("{:x}", addr)), term: Blk { defs, jmps, indirect_jmp_targets: Vec::new() } });
            addr += 0x40;
        }
        // a function whose last block ends in a call without return site gets a return block
        subs.push(Term {
            tid: tid_at(&format!("sub{}", si), &format!("{:x}", addr)),
            term: Sub { name: format!("func{}", si), blocks, calling_convention: Some("__stdcall".to_string()) },
        });
        addr += 0x100;
    }
    let entry = vec![subs[0].tid.clone()];
    let prog = program(subs, externs.into_iter().map(|e| e.sym).collect(), entry);
    project_x64(prog)
}

/// hand-written projects: the decision boundaries, stack parameters, read-after-write through an alias,
/// killed cells, an unknown input, and the (fixed) signed-overflow finding
fn crafted() -> Vec<(String, Project)> {
    let reg4 = |r: &str| Arg::Register { expr: e_sub(0, 4, e_var(r, 8)), data_type: None };
    let reg8 = |r: &str| Arg::Register { expr: e_var(r, 8), data_type: None };
    let stk = |off: u64, size: u64| Arg::Stack {
        address: e_bin(BinOpType::IntAdd, e_var("RSP", 8), e_const(off, 8)),
        size: ByteSize::new(size),
        data_type: None,
    };
    let ret = || vec![Arg::Register { expr: e_var("RAX", 8), data_type: None }];
    let mk = |name: &str, externs: Vec<ExternSymbol>, blocks: Vec<(Vec<Term<Def>>, &str)>| {
        let n = blocks.len();
        let mut bs = Vec::new();
        for (i, (defs, callee)) in blocks.into_iter().enumerate() {
            let bid = format!("b{}", i);
            let target = externs.iter().find(|e| e.name == callee).unwrap().tid.clone();
            let ret = if i + 1 < n { Some(tid(&format!("b{}", i + 1))) } else { None };
            let j = Term { tid: tid_at(&format!("b{}_call", i), &format!("{:x}", 0x1000 + 0x40 * i + 0x20)), term: Jmp::Call { target, return_: ret } };
            bs.push(Term { tid: tid_at(&bid, &format!("{:x}", 0x1000 + 0x40 * i)), term: Blk { defs, jmps: vec![j], indirect_jmp_targets: Vec::new() } });
        }
        let s = Term { tid: tid_at("sub0", "1000"), term: Sub { name: "main".to_string(), blocks: bs, calling_convention: Some("__stdcall".to_string()) } };
        let entry = vec![s.tid.clone()];
        let mut p = project_x64(program(vec![s], externs, entry));
        let _ = p.normalize_basic();
        (name.to_string(), p)
    };
    let umask4 = || extern_symbol("ext_umask", "umask", vec![reg4("RDI")], ret(), false);
    let set_edi = |id: &str, v: u64| d_assign(id, var("RDI", 8), e_cast(CastOpType::IntZExt, 8, e_const(v, 4)));
    let mut out = Vec::new();
    // 1. the umask boundaries, directly
    out.push(mk(
        "umask_boundaries",
        vec![umask4()],
        vec![
            (vec![set_edi("d0", 0o177)], "umask"),
            (vec![set_edi("d1", 0o200)], "umask"),
            (vec![set_edi("d2", 0o776)], "umask"),
            (vec![set_edi("d3", 0o777)], "umask"),
            (vec![set_edi("d4", 0o1000)], "umask"),
            (vec![set_edi("d5", 0o22)], "umask"),
            (vec![set_edi("d6", 0)], "umask"),
        ],
    ));
    // 2. computed at the END of the block: start value differs, arithmetic, copy
    out.push(mk(
        "umask_block_end",
        vec![umask4()],
        vec![
            (
                vec![
                    set_edi("d0", 0o22),
                    d_assign("d1", var("RAX", 8), e_const(0o600, 8)),
                    d_assign("d2", var("RAX", 8), e_bin(BinOpType::IntOr, e_var("RAX", 8), e_const(0o66, 8))),
                    d_assign("d3", var("RDI", 8), e_var("RAX", 8)),
                ],
                "umask",
            ),
            (vec![set_edi("d4", 0o666), set_edi("d5", 0o22)], "umask"),
            (vec![d_assign("d6", var("RDI", 8), e_bin(BinOpType::IntAdd, e_var("RBX", 8), e_const(0o666, 8)))], "umask"),
            (vec![], "umask"),
        ],
    ));
    // 3. through the stack frame: push rbp; mov rbp,rsp; sub rsp,0x20; store via rbp, load via rsp
    let frame = |q: &str, store_off: u64, load_off: u64, v: u64, ssz: u64, lsz: u64, kill: Option<(u64, u64)>| {
        let t = |k: u32| format!("{}p{}", q, k);
        let mut d = vec![
            d_assign(&t(0), var("RSP", 8), e_bin(BinOpType::IntSub, e_var("RSP", 8), e_const(8, 8))),
            d_store(&t(1), e_var("RSP", 8), e_var("RBP", 8)),
            d_assign(&t(2), var("RBP", 8), e_var("RSP", 8)),
            d_assign(&t(3), var("RSP", 8), e_bin(BinOpType::IntSub, e_var("RSP", 8), e_const(0x20, 8))),
            d_store(&t(4), e_bin(BinOpType::IntSub, e_var("RBP", 8), e_const(store_off, 8)), e_const(v, ssz)),
        ];
        if let Some((o, sz)) = kill {
            d.push(d_store(&t(5), e_bin(BinOpType::IntSub, e_var("RBP", 8), e_const(o, 8)), e_const(0, sz)));
        }
        if lsz == 4 {
            d.push(d_load(&t(6), tmp("$T", 4), e_bin(BinOpType::IntAdd, e_var("RSP", 8), e_const(load_off, 8))));
            d.push(d_assign(&t(7), var("RDI", 8), e_cast(CastOpType::IntZExt, 8, Expression::Var(tmp("$T", 4)))));
        } else {
            d.push(d_load(&t(6), var("RDI", 8), e_bin(BinOpType::IntAdd, e_var("RSP", 8), e_const(load_off, 8))));
        }
        d
    };
    out.push(mk(
        "umask_via_stack",
        vec![umask4()],
        vec![
            (frame("a", 8, 0x18, 0o666, 4, 4, None), "umask"),        // rbp-8 == rsp+0x18: read after write
            (frame("b", 8, 0x18, 0o666, 4, 8, None), "umask"),        // wrong size: unknown
            (frame("c", 8, 0x14, 0o666, 4, 4, None), "umask"),        // other cell: unknown
            (frame("d", 8, 0x18, 0o666, 4, 4, Some((10, 4))), "umask"), // overlapping store kills the cell
            (frame("e", 8, 0x18, 0o666, 4, 4, Some((12, 4))), "umask"), // adjacent stores do not
            (frame("f", 8, 0x18, 0o666, 4, 4, Some((4, 4))), "umask"),
            (frame("g", 8, 0x18, 0o666, 8, 8, Some((4, 4))), "umask"),  // partial overwrite of an 8 byte cell
        ],
    ));
    // 4. sizeof on pointer: register, 4-byte and stack parameters
    let malloc = || extern_symbol("ext_malloc", "malloc", vec![reg8("RDI")], ret(), false);
    let memcpy = || extern_symbol("ext_memcpy", "memcpy", vec![reg8("RDI"), reg8("RSI"), reg4("RDX")], ret(), false);
    let strncpy = || extern_symbol("ext_strncpy", "strncpy", vec![stk(0, 8), stk(8, 8), stk(16, 4)], ret(), false);
    let puts = || extern_symbol("ext_puts", "puts", vec![reg8("RDI")], ret(), false);
    out.push(mk(
        "sizeof_pointer",
        vec![malloc(), memcpy(), strncpy(), puts()],
        vec![
            (vec![d_assign("d0", var("RDI", 8), e_const(8, 8))], "malloc"),
            (vec![d_assign("d1", var("RDI", 8), e_const(4, 8))], "malloc"),
            (vec![d_assign("d2", var("RDI", 8), e_bin(BinOpType::IntLeft, e_const(1, 8), e_const(3, 1)))], "malloc"),
            (vec![d_assign("d3", var("RDX", 8), e_const(8, 8))], "memcpy"),
            (vec![d_assign("d4", var("RDX", 8), e_const(0x1_0000_0008, 8))], "memcpy"),
            (vec![d_assign("d5", var("RSI", 8), e_const(8, 8)), d_assign("d6", var("RDX", 8), e_const(9, 8))], "memcpy"),
            (vec![d_store("d7", e_bin(BinOpType::IntAdd, e_var("RSP", 8), e_const(16, 8)), e_const(8, 4))], "strncpy"),
            (vec![d_store("d8", e_bin(BinOpType::IntAdd, e_var("RSP", 8), e_const(16, 8)), e_const(8, 8))], "strncpy"),
            (vec![d_store("d9", e_bin(BinOpType::IntAdd, e_var("RSP", 8), e_const(8, 8)), e_const(8, 8))], "strncpy"),
            (vec![d_assign("d10", var("RDI", 8), e_const(8, 8))], "puts"),
        ],
    ));
    // 5. the former finding (fixed): constants whose addition overflows as a signed addition must be decided
    out.push(mk(
        "signed_overflow",
        vec![umask4(), malloc()],
        vec![
            (
                vec![d_assign("d0", var("RDI", 8), e_cast(CastOpType::IntZExt, 8, e_bin(BinOpType::IntAdd, e_const(0x8000_0000, 4), e_const(0x8000_0080, 4))))],
                "umask",
            ),
            (vec![d_assign("d1", var("RDI", 8), e_bin(BinOpType::IntAdd, e_const(0x8000_0000_0000_0000, 8), e_const(0x8000_0000_0000_0008, 8)))], "malloc"),
        ],
    ));
    out
}

fn main() {
    quiet_panics();
    let args = Args::parse();
    let repo = std::env::var("VERIF_REPO").unwrap_or_else(|_| "/repo".to_string());
    let config: Value =
        serde_json::from_str(&std::fs::read_to_string(format!("{}/src/config.json", repo)).expect("config.json")).expect("config json");
    let symbols: Vec<String> = config["CWE467"]["symbols"].as_array().expect("CWE467.symbols").iter().map(|s| s.as_str().unwrap().to_string()).collect();
    let cfg = Cfg { memory: config["Memory"].clone(), symbols };
    let mut out = Out::new(
        &args,
        "generated x86-64 projects of 1-3 functions with 1-4 blocks ending in calls to umask / CWE467 symbols of config.json / \
         other symbols; register, 4-byte (Subpiece) and stack parameters computed by constant assignments, copies, \
         add/sub/and/or/xor/shift/mult on constants (incl. signed overflows), 2-complement/negate, extensions, stores to and loads \
         from RSP/RBP/alias +- c (overlapping, adjacent, wrong size, overwritten), unknown inputs, late clobbers; values around \
         0o177/0o200/0o776/0o777 and 8/4; analysed after the real normalize_basic (1/3) or normalize() (2/3); every 8th case with real function signatures + \
         pointer inference attached; non-trivial = at least one CWE560 or CWE467 warning; distinct by analysed project",
    );
    if let Some(lines) = args.replay_lines() {
        for line in lines {
            let v: Value = serde_json::from_str(&line).expect("replay line");
            let project = project_from_json(&v["proj"]);
            let syms: Vec<String> = match v["syms"].as_array() {
                Some(a) => a.iter().map(|s| s.as_str().unwrap().to_string()).collect(),
                None => cfg.symbols.clone(),
            };
            let seed = v["seed"].as_u64().unwrap_or(1);
            let pi = v["pi"].as_bool().unwrap_or(false);
            emit(&mut out, &project, &cfg, &syms, seed, "replay", pi);
        }
        out.finish();
        return;
    }
    if let Some(which) = args.extra.get("craft") {
        for (name, p) in crafted() {
            if which == "all" || *which == name {
                emit(&mut out, &p, &cfg, &cfg.symbols, 1, &format!("craft:{}", name), false);
            }
        }
        out.finish();
        return;
    }
    let mut rng = Rng::new(args.seed);
    // the hand-written boundary projects are part of every run
    for (name, p) in crafted() {
        emit(&mut out, &p, &cfg, &cfg.symbols, 1, &format!("craft:{}", name), false);
    }
    let n = args.num("programs", 1500, 60000);
    for i in 0..n {
        let mut project = gen_project(&mut rng);
        // `get_program_cfg` requires at least `normalize_basic` (artificial sink, unique block->sub mapping)
        let norm = match i % 3 {
            0 => {
                let _ = project.normalize_basic();
                "basic"
            }
            _ => {
                let _ = project.normalize();
                "full"
            }
        };
        let syms: Vec<String> = if i % 5 == 4 {
            let mut s: Vec<String> = cfg.symbols.iter().filter(|_| rng.chance(1, 2)).cloned().collect();
            s.push("my_alloc".to_string());
            s
        } else {
            cfg.symbols.clone()
        };
        let seed = rng.next() % 1_000_000;
        emit(&mut out, &project, &cfg, &syms, seed, norm, i % 8 == 7);
    }
    out.finish();
}
