//! C14 harness: drives the real `compute_function_signatures(project, graph)` on generated projects.
//!
//! Per case: a generated x86-64 style project (1-4 functions of 1-6 blocks; register assignments,
//! flag computations, loads/stores incl. stack spills/reloads and a `push rbp; mov rbp,rsp` prologue,
//! unconditional/conditional/indirect jumps, loops, calls to extern symbols (generic, stubbed by name,
//! stack arguments, non-returning), calls to internal functions (incl. recursion and tail calls),
//! indirect calls, returns, dead ends). The graph is built by the real `get_program_cfg`.
//!
//! The case line holds the analysed project (canonical JSON) and, per function, the parameters the
//! real analysis reported: the names of the `AbstractLocation::Register` keys of
//! `FunctionSignature::parameters` (`regs`), and all parameter locations as text (`all`).
use cwe_checker_lib::analysis::function_signature::compute_function_signatures;
use cwe_checker_lib::analysis::graph::get_program_cfg;
use cwe_checker_lib::abstract_domain::AbstractLocation;
use cwe_checker_lib::intermediate_representation::*;
use verif_harness::ir::*;
use verif_harness::*;

const PARAM: [&str; 6] = ["RDI", "RSI", "RDX", "RCX", "R8", "R9"];
const SAVED: [&str; 6] = ["RBX", "RBP", "R12", "R13", "R14", "R15"];
const SCRATCH: [&str; 3] = ["RAX", "R10", "R11"];
const FLAGS: [&str; 2] = ["ZF", "CF"];

fn reg_arg(name: &str) -> Arg {
    Arg::Register { expr: e_var(name, 8), data_type: None }
}

struct Gen<'a> {
    rng: &'a mut Rng,
    /// bias: probability (in 1/16) that a read picks a parameter register
    param_bias: u64,
    /// "probe" registers of the current function: never read or written by the random parts, so
    /// that their ONLY read is the one probe instruction placed by the generator
    exclude: Vec<&'static str>,
}

impl<'a> Gen<'a> {
    fn read_reg(&mut self) -> &'static str {
        loop {
            let r = self.read_reg_any();
            if !self.exclude.contains(&r) {
                return r;
            }
        }
    }
    fn write_reg(&mut self) -> &'static str {
        loop {
            let r = self.write_reg_any();
            if !self.exclude.contains(&r) {
                return r;
            }
        }
    }
    fn read_reg_any(&mut self) -> &'static str {
        let k = self.rng.below(16);
        if k < self.param_bias {
            PARAM[self.rng.below(6) as usize]
        } else {
            match self.rng.below(8) {
                0..=3 => SAVED[self.rng.below(6) as usize],
                4..=6 => SCRATCH[self.rng.below(3) as usize],
                _ => "RSP",
            }
        }
    }
    fn write_reg_any(&mut self) -> &'static str {
        match self.rng.below(20) {
            0..=8 => PARAM[self.rng.below(6) as usize],
            9..=12 => SAVED[self.rng.below(6) as usize],
            13..=18 => SCRATCH[self.rng.below(3) as usize],
            _ => "RSP",
        }
    }
    fn konst(&mut self) -> Expression {
        let v = match self.rng.below(5) {
            0 => 0,
            1 => 1,
            2 => 8 * self.rng.below(8),
            3 => (-(8 * self.rng.below(8) as i64)) as u64,
            _ => self.rng.below(0x1000),
        };
        e_const(v, 8)
    }
    fn expr8(&mut self, depth: u32) -> Expression {
        let k = self.rng.below(20);
        if depth == 0 || k < 9 {
            if k < 3 && depth > 0 {
                return self.konst();
            }
            return e_var(self.read_reg(), 8);
        }
        match k {
            9..=15 => {
                let op = *self.rng.pick(&[
                    BinOpType::IntAdd,
                    BinOpType::IntAdd,
                    BinOpType::IntSub,
                    BinOpType::IntMult,
                    BinOpType::IntAnd,
                    BinOpType::IntOr,
                    BinOpType::IntXOr,
                    BinOpType::IntLeft,
                    BinOpType::IntSRight,
                ]);
                let l = self.expr8(depth - 1);
                let r = if self.rng.chance(1, 3) { self.konst() } else { self.expr8(depth - 1) };
                e_bin(op, l, r)
            }
            16 | 17 => e_un(*self.rng.pick(&[UnOpType::Int2Comp, UnOpType::IntNegate]), self.expr8(depth - 1)),
            18 => e_cast(
                *self.rng.pick(&[CastOpType::IntZExt, CastOpType::IntSExt]),
                8,
                e_sub(0, 4, self.expr8(depth - 1)),
            ),
            _ => {
                if self.rng.chance(1, 2) {
                    self.indexed()
                } else {
                    e_unknown("unk", 8)
                }
            }
        }
    }
    fn cond(&mut self, depth: u32) -> Expression {
        match self.rng.below(20) {
            0..=5 => e_var(FLAGS[self.rng.below(2) as usize], 1),
            6..=15 => {
                let op = *self.rng.pick(&[
                    BinOpType::IntEqual,
                    BinOpType::IntNotEqual,
                    BinOpType::IntLess,
                    BinOpType::IntSLess,
                    BinOpType::IntLessEqual,
                    BinOpType::IntSLessEqual,
                ]);
                let l = self.expr8(1);
                let r = if self.rng.chance(1, 2) { self.konst() } else { self.expr8(1) };
                e_bin(op, l, r)
            }
            16 | 17 if depth > 0 => e_un(UnOpType::BoolNegate, self.cond(depth - 1)),
            18 if depth > 0 => {
                let op = *self.rng.pick(&[BinOpType::BoolAnd, BinOpType::BoolOr, BinOpType::BoolXOr]);
                e_bin(op, self.cond(depth - 1), self.cond(depth - 1))
            }
            _ => e_var(FLAGS[self.rng.below(2) as usize], 1),
        }
    }
    fn stack_addr(&mut self) -> Expression {
        let off = 8 * self.rng.range(-6, 3);
        let base = if self.rng.chance(1, 5) { "RBP" } else { "RSP" };
        if off == 0 && self.rng.chance(1, 2) {
            e_var(base, 8)
        } else {
            e_bin(BinOpType::IntAdd, e_var(base, 8), e_const(off as u64, 8))
        }
    }
    /// an offset computed from `idx` (scaled, shifted, masked, truncated/extended, negated, nested)
    fn index_form(&mut self, idx: Expression) -> Expression {
        match self.rng.below(10) {
            0 => e_bin(BinOpType::IntMult, idx, e_const(*self.rng.pick(&[2u64, 4, 8, 16, 24]), 8)),
            1 => e_bin(BinOpType::IntLeft, idx, e_const(1 + self.rng.below(4), 8)),
            2 => e_bin(BinOpType::IntAnd, idx, e_const(*self.rng.pick(&[0xffu64, 0xfff8, 7]), 8)),
            3 => e_cast(CastOpType::IntZExt, 8, e_sub(0, 4, idx)),
            4 => e_cast(CastOpType::IntSExt, 8, e_sub(0, *self.rng.pick(&[1u64, 2, 4]), idx)),
            5 => e_un(UnOpType::Int2Comp, idx),
            6 => e_bin(BinOpType::IntMult, e_bin(BinOpType::IntAdd, idx, self.konst()), e_const(*self.rng.pick(&[4u64, 8]), 8)),
            7 => e_bin(BinOpType::IntLeft, e_bin(BinOpType::IntAnd, idx, e_const(0xff, 8)), e_const(3, 8)),
            8 => e_bin(BinOpType::IntRight, idx, e_const(1 + self.rng.below(3), 8)),
            _ => idx,
        }
    }
    /// `base` combined with an offset
    fn combine(&mut self, base: Expression, off: Expression) -> Expression {
        match self.rng.below(8) {
            0..=2 => e_bin(BinOpType::IntAdd, base, off),
            3 => e_bin(BinOpType::IntAdd, off, base),
            4 => e_bin(BinOpType::IntSub, base, off),
            5 => e_bin(BinOpType::IntAdd, e_bin(BinOpType::IntAdd, base, off), self.konst()),
            6 => e_bin(BinOpType::IntAdd, base, e_bin(BinOpType::IntAdd, off, self.konst())),
            _ => e_bin(BinOpType::IntOr, base, off),
        }
    }
    /// base + index*scale and relatives over random registers
    fn indexed(&mut self) -> Expression {
        let base = e_var(self.read_reg(), 8);
        let idx = e_var(self.read_reg(), 8);
        let off = self.index_form(idx);
        if self.rng.chance(1, 8) {
            off
        } else {
            self.combine(base, off)
        }
    }
    fn addr(&mut self) -> Expression {
        match self.rng.below(24) {
            0..=6 => self.stack_addr(),
            7..=10 => e_var(self.read_reg(), 8),
            11..=13 => e_bin(
                *self.rng.pick(&[BinOpType::IntAdd, BinOpType::IntAdd, BinOpType::IntSub]),
                e_var(self.read_reg(), 8),
                self.konst(),
            ),
            14 | 15 => e_bin(
                *self.rng.pick(&[BinOpType::IntAdd, BinOpType::IntSub, BinOpType::IntAnd]),
                e_var(self.read_reg(), 8),
                e_var(self.read_reg(), 8),
            ),
            16 => {
                // stack array: RSP + const + index*scale
                let idx = e_var(self.read_reg(), 8);
                let off = self.index_form(idx);
                let st = self.stack_addr();
                self.combine(st, off)
            }
            _ => self.indexed(),
        }
    }
    fn def(&mut self, t: &str) -> Term<Def> {
        match self.rng.below(40) {
            0..=15 => d_assign(t, var(self.write_reg(), 8), self.expr8(2)),
            16..=19 => d_assign(t, var(FLAGS[self.rng.below(2) as usize], 1), self.cond(0)),
            20..=25 => d_load(t, var(self.write_reg(), 8), self.addr()),
            26..=31 => d_store(t, self.addr(), self.expr8(2)),
            // spill of a register to the stack (plain `Var` value) ...
            32..=35 => {
                let a = self.stack_addr();
                d_store(t, a, e_var(self.read_reg(), 8))
            }
            // ... a store of a plain register to an arbitrary address
            36 => d_store(t, self.addr(), e_var(self.read_reg(), 8)),
            // ... and a reload
            _ => {
                let a = self.stack_addr();
                d_load(t, var(self.write_reg(), 8), a)
            }
        }
    }
}

struct ExtSym {
    name: &'static str,
    params: Vec<Arg>,
    no_return: bool,
}

fn extern_table(rng: &mut Rng) -> Vec<ExtSym> {
    let mut v = Vec::new();
    // generic symbols (not stubbed): random register parameters
    for name in ["ext_a", "ext_b", "ext_c"] {
        let n = rng.below(4) as usize;
        let mut params: Vec<Arg> = PARAM.iter().take(n).map(|r| reg_arg(r)).collect();
        if rng.chance(1, 4) {
            // out-of-order / sparse parameter registers
            params = vec![reg_arg(PARAM[rng.below(6) as usize])];
        }
        if rng.chance(1, 6) {
            params.push(Arg::Stack {
                address: e_bin(BinOpType::IntAdd, e_var("RSP", 8), e_const(8 * (1 + rng.below(2)), 8)),
                size: ByteSize::new(8),
                data_type: None,
            });
        }
        if rng.chance(1, 12) {
            // a parameter given by an expression over two registers
            params.push(Arg::Register {
                expr: e_bin(BinOpType::IntAdd, e_var("R8", 8), e_var("R9", 8)),
                data_type: None,
            });
        }
        v.push(ExtSym { name, params, no_return: false });
    }
    v.push(ExtSym {
        name: "ext_noret",
        params: PARAM.iter().take(1 + rng.below(2) as usize).map(|r| reg_arg(r)).collect(),
        no_return: true,
    });
    // symbols with parameter-access stubs in function_signature/stubs.rs (arity as in the stub table)
    v.push(ExtSym { name: "strlen", params: vec![reg_arg("RDI")], no_return: false });
    v.push(ExtSym { name: "memcpy", params: vec![reg_arg("RDI"), reg_arg("RSI"), reg_arg("RDX")], no_return: false });
    v.push(ExtSym { name: "malloc", params: vec![reg_arg("RDI")], no_return: false });
    v.push(ExtSym { name: "exit", params: vec![reg_arg("RDI")], no_return: true });
    v
}

fn gen_project(rng: &mut Rng, out: &mut Out) -> Project {
    let exts = extern_table(rng);
    let many = rng.chance(1, 3);
    let n_subs = 1 + rng.below(if many { 4 } else { 2 }) as usize;
    // half of the projects have RDX as second return register (parameter AND return register)
    let dual = rng.chance(1, 2);
    let mut subs = Vec::new();
    for i in 0..n_subs {
        // "caller style" functions read few parameter registers themselves and mostly call other
        // functions, so that what they report comes from the callees' signatures
        let caller_style = n_subs > 1 && rng.chance(1, 3);
        let param_bias = if caller_style { 2 } else { *rng.pick(&[6u64, 9, 12]) };
        let big = rng.chance(1, 4);
        // "diamond" functions: b0 -> (b1 | b2) -> b3 -> return, random defs in every block
        let diamond = rng.chance(1, 5);
        let n_blocks = if diamond { 4 } else { 1 + rng.below(if big { 6 } else { 4 }) as usize };
        if diamond {
            out.count("fn:diamond");
        }
        let bt = |j: usize| format!("f{}_b{}", i, j);
        // probe registers: parameter registers whose ONLY read in this function is one instruction
        // at the start (or the conditional jump at the end) of the entry block, in a chosen position
        let mut probes: Vec<(&'static str, u64)> = Vec::new();
        if rng.chance(3, 4) {
            let n_p = 1 + rng.below(2);
            while (probes.len() as u64) < n_p {
                let r = PARAM[rng.below(6) as usize];
                if !probes.iter().any(|(x, _)| *x == r) {
                    probes.push((r, rng.below(7)));
                }
            }
        }
        let mut exclude: Vec<&'static str> = probes.iter().map(|(r, _)| *r).collect();
        if dual && rng.chance(1, 2) && !exclude.contains(&"RDX") {
            // a function that leaves the dual-role register alone
            exclude.push("RDX");
        }
        let mut blocks = Vec::new();
        for j in 0..n_blocks {
            let mut g = Gen { rng, param_bias, exclude: exclude.clone() };
            let mut defs = Vec::new();
            let mut k = 0;
            let mut probe_cond: Option<Expression> = None;
            if j == 0 {
                for (pi, (r, kind)) in probes.iter().enumerate() {
                    let t = format!("{}_p{}", bt(j), pi);
                    let idx = g.index_form(e_var(r, 8));
                    let base = if g.rng.chance(1, 4) { g.stack_addr() } else { e_var(g.read_reg(), 8) };
                    let pos = if g.rng.chance(1, 6) { idx } else { g.combine(base, idx) };
                    out.count(&format!("probe:{}", kind));
                    match kind {
                        0 => defs.push(d_load(&t, var(g.write_reg(), 8), pos)),
                        1 => {
                            let v = g.expr8(1);
                            defs.push(d_store(&t, pos, v))
                        }
                        2 => {
                            let a = g.stack_addr();
                            defs.push(d_store(&t, a, pos))
                        }
                        3 => {
                            let a = e_var(g.read_reg(), 8);
                            defs.push(d_store(&t, a, pos))
                        }
                        4 => defs.push(d_assign(&t, var(g.write_reg(), 8), pos)),
                        5 => defs.push(d_assign(&t, var(FLAGS[g.rng.below(2) as usize], 1), e_bin(BinOpType::IntSLess, pos, g.konst()))),
                        _ => probe_cond = Some(e_bin(BinOpType::IntNotEqual, pos, g.konst())),
                    }
                }
            }
            if j == 0 && g.rng.chance(1, 5) {
                // push rbp; mov rbp, rsp
                defs.push(d_assign(&format!("{}_d{}", bt(j), k), var("RSP", 8), e_bin(BinOpType::IntSub, e_var("RSP", 8), e_const(8, 8))));
                defs.push(d_store(&format!("{}_d{}", bt(j), k + 1), e_var("RSP", 8), e_var("RBP", 8)));
                defs.push(d_assign(&format!("{}_d{}", bt(j), k + 2), var("RBP", 8), e_var("RSP", 8)));
                k += 3;
                out.count("prologue");
            }
            let long = g.rng.chance(1, 4);
            let n_defs = g.rng.below(if long { 7 } else { 4 });
            for _ in 0..n_defs {
                defs.push(g.def(&format!("{}_d{}", bt(j), k)));
                k += 1;
            }
            // terminator
            let any = |g: &mut Gen| bt(g.rng.below(n_blocks as u64) as usize);
            let fwd = |g: &mut Gen| {
                if j + 1 < n_blocks && g.rng.chance(3, 4) {
                    bt(j + 1 + g.rng.below((n_blocks - j - 1) as u64) as usize)
                } else {
                    bt(g.rng.below(n_blocks as u64) as usize)
                }
            };
            let jt = |n: usize| format!("{}_j{}", bt(j), n);
            let ret_target = |g: &mut Gen| {
                if g.rng.chance(1, 10) {
                    g.expr8(1)
                } else {
                    Expression::Var(tmp("$ret", 8))
                }
            };
            let last = j + 1 == n_blocks;
            let choice = if probe_cond.is_some() {
                20
            } else if last && g.rng.chance(2, 3) {
                100
            } else if caller_style && g.rng.chance(1, 2) {
                40
            } else {
                g.rng.below(64)
            };
            let jmps: Vec<Term<Jmp>> = match choice {
                _ if diamond && j == 0 => {
                    let c = probe_cond.clone().unwrap_or_else(|| g.cond(1));
                    vec![j_cbranch(&jt(0), &bt(2), c), j_branch(&jt(1), &bt(1))]
                }
                _ if diamond && j < 3 => vec![j_branch(&jt(0), &bt(3))],
                _ if diamond => vec![j_return(&jt(0), Expression::Var(tmp("$ret", 8)))],
                0..=10 => {
                    out.count("jmp:branch");
                    vec![j_branch(&jt(0), &fwd(&mut g))]
                }
                11..=28 => {
                    out.count("jmp:cbranch+branch");
                    let c = probe_cond.clone().unwrap_or_else(|| g.cond(1));
                    vec![j_cbranch(&jt(0), &any(&mut g), c), j_branch(&jt(1), &fwd(&mut g))]
                }
                29..=38 => {
                    let s = &exts[g.rng.below(exts.len() as u64) as usize];
                    out.count(if s.no_return { "jmp:call-extern-noreturn" } else { "jmp:call-extern" });
                    let ret = if s.no_return && g.rng.chance(1, 2) { None } else { Some(fwd(&mut g)) };
                    vec![j_call(&jt(0), &format!("x_{}", s.name), ret.as_deref())]
                }
                39..=45 => {
                    out.count("jmp:call-internal");
                    let callee = g.rng.below(n_subs as u64);
                    vec![j_call(&jt(0), &format!("f{}", callee), Some(&fwd(&mut g)))]
                }
                46 | 47 => {
                    out.count("jmp:callind");
                    let e = g.expr8(1);
                    vec![j_call_ind(&jt(0), e, Some(&fwd(&mut g)))]
                }
                48 => {
                    out.count("jmp:tailcall");
                    if g.rng.chance(1, 2) {
                        let callee = g.rng.below(n_subs as u64);
                        vec![j_call(&jt(0), &format!("f{}", callee), None)]
                    } else {
                        let e = g.expr8(1);
                        vec![j_call_ind(&jt(0), e, None)]
                    }
                }
                49 | 50 => {
                    out.count("jmp:branchind");
                    let e = g.expr8(1);
                    let mut t = j_branch_ind(&jt(0), e);
                    let _ = &mut t;
                    vec![t]
                }
                51 => {
                    out.count("jmp:none");
                    vec![]
                }
                52 => {
                    out.count("jmp:cbranch-alone");
                    let c = g.cond(1);
                    vec![j_cbranch(&jt(0), &any(&mut g), c)]
                }
                53 => {
                    out.count("jmp:callother");
                    vec![j_call_other(&jt(0), "swi", Some(&fwd(&mut g)))]
                }
                54 | 55 => {
                    out.count("jmp:cbranch+return");
                    let c = g.cond(1);
                    let r = ret_target(&mut g);
                    vec![j_cbranch(&jt(0), &any(&mut g), c), j_return(&jt(1), r)]
                }
                _ => {
                    out.count("jmp:return");
                    let r = ret_target(&mut g);
                    vec![j_return(&jt(0), r)]
                }
            };
            let mut b = blk(&bt(j), defs, jmps);
            if let Some(Jmp::BranchInd(_)) = b.term.jmps.first().map(|t| &t.term) {
                let n_t = g.rng.below(3);
                for _ in 0..n_t {
                    b.term.indirect_jmp_targets.push(tid(&any(&mut g)));
                }
            }
            blocks.push(b);
        }
        let cc = if rng.chance(1, 2) { Some("__stdcall") } else { None };
        subs.push(sub(&format!("f{}", i), &format!("fn{}", i), blocks, cc));
    }
    if n_subs >= 2 && rng.chance(1, 3) {
        // replace the last function by a "guard" function: its only access to a parameter register
        // is the condition of the conditional jump of its entry block; the return lies behind the
        // fall-through edge, the taken edge, or both
        out.count("fn:guard");
        let i = n_subs - 1;
        let r = PARAM[rng.below(6) as usize];
        let cond = match rng.below(3) {
            0 => e_bin(BinOpType::IntEqual, e_var(r, 8), e_const(rng.below(4), 8)),
            1 => e_bin(BinOpType::IntSLess, e_bin(BinOpType::IntAnd, e_var(r, 8), e_const(0xff, 8)), e_const(7, 8)),
            _ => e_un(UnOpType::BoolNegate, e_bin(BinOpType::IntLess, e_var(r, 8), e_var("RAX", 8))),
        };
        let orientation = rng.below(3);
        let n = |b: usize| format!("f{}_b{}", i, b);
        let ret = |b: usize| blk(&n(b), vec![], vec![j_return(&format!("{}_j0", n(b)), Expression::Var(tmp("$ret", 8)))]);
        let dead = |b: usize, looping: bool| {
            if looping {
                blk(&n(b), vec![], vec![j_branch(&format!("{}_j0", n(b)), &n(b))])
            } else {
                blk(&n(b), vec![], vec![])
            }
        };
        let looping = rng.chance(1, 2);
        let taken = if orientation == 0 { dead(1, looping) } else { ret(1) };
        let fall = if orientation == 1 { dead(2, looping) } else { ret(2) };
        let b0 = blk(&n(0), vec![], vec![j_cbranch(&format!("{}_j0", n(0)), &n(1), cond), j_branch(&format!("{}_j1", n(0)), &n(2))]);
        subs[i] = sub(&format!("f{}", i), &format!("fn{}", i), vec![b0, taken, fall], None);
    }
    if dual && n_subs >= 2 && rng.chance(1, 2) {
        // "after-call reader": reads RDX only behind a call to another internal function
        out.count("fn:after-call-reader");
        let i = 0usize;
        let callee = 1 + rng.below(n_subs as u64 - 1) as usize;
        let n = |b: usize| format!("f{}_b{}", i, b);
        let use_ = match rng.below(3) {
            0 => d_assign(&format!("{}_d0", n(1)), var("RBX", 8), e_bin(BinOpType::IntAdd, e_var("RDX", 8), e_const(1, 8))),
            1 => d_load(&format!("{}_d0", n(1)), var("RBX", 8), e_bin(BinOpType::IntAdd, e_var("RSP", 8), e_bin(BinOpType::IntMult, e_var("RDX", 8), e_const(8, 8)))),
            _ => d_assign(&format!("{}_d0", n(1)), var("ZF", 1), e_bin(BinOpType::IntEqual, e_var("RDX", 8), e_const(0, 8))),
        };
        subs[i] = sub(
            "f0",
            "fn0",
            vec![
                blk(&n(0), vec![d_assign(&format!("{}_d0", n(0)), var("R11", 8), e_const(3, 8))], vec![j_call(&format!("{}_j0", n(0)), &format!("f{}", callee), Some(&n(1)))]),
                blk(&n(1), vec![use_], vec![j_return(&format!("{}_j0", n(1)), Expression::Var(tmp("$ret", 8)))]),
            ],
            None,
        );
    }
    let mut extra_externs: Vec<ExternSymbol> = Vec::new();
    if rng.chance(1, 4) {
        // replace the first function that is not the guard function by a "maybe-stack store" function
        out.count("fn:maybe-stack");
        let i = if n_subs >= 2 { rng.below(n_subs as u64 - 1) as usize } else { 0 };
        let other = rng.below(6);
        let stored = PARAM[1 + rng.below(5) as usize];
        let stored = if stored == "RDX" && other == 4 { "RSI" } else { stored };
        subs[i] = maybe_stack_sub(i, other, rng.chance(1, 2), rng.below(2), stored, &mut extra_externs);
    }
    let externs: Vec<ExternSymbol> = exts
        .iter()
        .map(|s| extern_symbol(&format!("x_{}", s.name), s.name, s.params.clone(), vec![reg_arg("RAX")], s.no_return))
        .chain(extra_externs.into_iter())
        .collect();
    let prog = program(subs, externs, vec![tid("f0")]);
    if dual {
        project_dual(prog)
    } else {
        project_x64(prog)
    }
}

/// the x86-64 project with RDX as second integer return register (as in the System V ABI), so that RDX
/// is both a parameter and a return register
fn project_dual(program: Program) -> Project {
    let mut p = project_x64(program);
    for cc in p.calling_conventions.values_mut() {
        cc.integer_return_register = vec![var("RAX", 8), var("RDX", 8)];
    }
    p
}

/// Directed shapes for values that survive an internal call: the caller `f0` reads RDX (parameter and
/// return register) only AFTER calling `f1` (optionally through `f2`); the callee leaves RDX untouched,
/// overwrites it on one arm of a diamond, or on every path. Controls: RAX (return-only), RSI
/// (parameter-only: always clobbered), and the same shapes with the single return register RAX.
fn directed_after_call_projects() -> Vec<Project> {
    let mut v = Vec::new();
    let ret = |t: &str| j_return(t, Expression::Var(tmp("$ret", 8)));
    for dual in [true, false] {
        for callee_kind in 0..4u64 {
            for levels in 1..3usize {
                for reg in ["RDX", "RAX", "RSI"] {
                    // the function at the bottom of the call chain
                    let g_i = levels;
                    let n = |b: usize| format!("f{}_b{}", g_i, b);
                    let w = |t: &str| d_assign(t, var(reg, 8), e_const(42, 8));
                    let other = |t: &str| d_assign(t, var("R10", 8), e_const(7, 8));
                    let g_blocks = match callee_kind {
                        0 => vec![blk(&n(0), vec![d_assign(&format!("{}_d0", n(0)), var("RAX", 8), e_const(42, 8))], vec![ret(&format!("{}_j0", n(0)))])]
                            .into_iter()
                            .map(|b| if reg == "RAX" { blk(&n(0), vec![other(&format!("{}_d0", n(0)))], vec![ret(&format!("{}_j0", n(0)))]) } else { b })
                            .collect(),
                        1 => vec![blk(&n(0), vec![w(&format!("{}_d0", n(0)))], vec![ret(&format!("{}_j0", n(0)))])],
                        2 => vec![
                            blk(&n(0), vec![], vec![j_cbranch(&format!("{}_j0", n(0)), &n(1), e_var("ZF", 1)), j_branch(&format!("{}_j1", n(0)), &n(2))]),
                            blk(&n(1), vec![w(&format!("{}_d0", n(1)))], vec![j_branch(&format!("{}_j0", n(1)), &n(3))]),
                            blk(&n(2), vec![other(&format!("{}_d0", n(2)))], vec![j_branch(&format!("{}_j0", n(2)), &n(3))]),
                            blk(&n(3), vec![], vec![ret(&format!("{}_j0", n(3)))]),
                        ],
                        _ => vec![
                            // two return sites, the register is written before one of them
                            blk(&n(0), vec![], vec![j_cbranch(&format!("{}_j0", n(0)), &n(1), e_var("ZF", 1)), j_branch(&format!("{}_j1", n(0)), &n(2))]),
                            blk(&n(1), vec![w(&format!("{}_d0", n(1)))], vec![ret(&format!("{}_j0", n(1)))]),
                            blk(&n(2), vec![], vec![ret(&format!("{}_j0", n(2)))]),
                        ],
                    };
                    let mut subs = Vec::new();
                    for i in 0..levels {
                        let nb = |b: usize| format!("f{}_b{}", i, b);
                        let after: Vec<Term<Def>> = if i == 0 {
                            vec![d_assign(&format!("{}_d0", nb(1)), var("RBX", 8), e_bin(BinOpType::IntAdd, e_var(reg, 8), e_const(1, 8)))]
                        } else {
                            vec![]
                        };
                        subs.push(sub(
                            &format!("f{}", i),
                            &format!("fn{}", i),
                            vec![
                                blk(&nb(0), vec![d_assign(&format!("{}_d0", nb(0)), var("R11", 8), e_const(i as u64, 8))],
                                    vec![j_call(&format!("{}_j0", nb(0)), &format!("f{}", i + 1), Some(&nb(1)))]),
                                blk(&nb(1), after, vec![ret(&format!("{}_j0", nb(1)))]),
                            ],
                            None,
                        ));
                    }
                    subs.push(sub(&format!("f{}", g_i), "callee", g_blocks, None));
                    let prog = program(subs, vec![], vec![tid("f0")]);
                    v.push(if dual { project_dual(prog) } else { project_x64(prog) });
                }
            }
        }
    }
    v
}

/// Directed set (always run): one single-block function per (instruction position, offset form) in
/// which the base register RDI (RSP for stack arguments) and the index register RSI are each read
/// exactly once, inside the expression at that position.
fn directed_projects() -> Vec<Project> {
    let idx = || e_var("RSI", 8);
    let forms: Vec<(&str, Box<dyn Fn(Expression) -> Expression>)> = vec![
        ("mul", Box::new(move |b| e_bin(BinOpType::IntAdd, b, e_bin(BinOpType::IntMult, idx(), e_const(8, 8))))),
        ("shl", Box::new(move |b| e_bin(BinOpType::IntAdd, b, e_bin(BinOpType::IntLeft, idx(), e_const(3, 8))))),
        ("sub-mul", Box::new(move |b| e_bin(BinOpType::IntSub, b, e_bin(BinOpType::IntMult, idx(), e_const(4, 8))))),
        ("and", Box::new(move |b| e_bin(BinOpType::IntAdd, b, e_bin(BinOpType::IntAnd, idx(), e_const(0xff, 8))))),
        ("nested", Box::new(move |b| {
            e_bin(
                BinOpType::IntAdd,
                e_bin(BinOpType::IntAdd, b, e_bin(BinOpType::IntMult, e_bin(BinOpType::IntAdd, idx(), e_const(1, 8)), e_const(4, 8))),
                e_const(16, 8),
            )
        })),
        ("zext-subpiece", Box::new(move |b| e_bin(BinOpType::IntAdd, b, e_cast(CastOpType::IntZExt, 8, e_sub(0, 4, idx()))))),
        ("neg", Box::new(move |b| e_bin(BinOpType::IntAdd, b, e_un(UnOpType::Int2Comp, idx())))),
        ("shr-swapped", Box::new(move |b| e_bin(BinOpType::IntAdd, e_bin(BinOpType::IntRight, idx(), e_const(2, 8)), b))),
        ("plain-sub", Box::new(move |b| e_bin(BinOpType::IntSub, b, idx()))),
    ];
    let ret = || j_return("f0_b1_j0", Expression::Var(tmp("$ret", 8)));
    let mut v = Vec::new();
    for (_fname, f) in forms.iter() {
        for kind in 0..10 {
            let e = f(e_var(if kind == 9 { "RSP" } else { "RDI" }, 8));
            let mut externs = Vec::new();
            let mut b0_defs = Vec::new();
            let mut b0 = blk("f0_b0", vec![], vec![j_branch("f0_b0_j0", "f0_b1")]);
            match kind {
                0 => b0_defs.push(d_load("f0_b0_d0", var("RAX", 8), e)),
                1 => b0_defs.push(d_store("f0_b0_d0", e, e_const(0, 8))),
                2 => b0_defs.push(d_store("f0_b0_d0", e_bin(BinOpType::IntAdd, e_var("RSP", 8), e_const((-8i64) as u64, 8)), e)),
                3 => b0_defs.push(d_store("f0_b0_d0", e_var("RDX", 8), e)),
                4 => b0_defs.push(d_assign("f0_b0_d0", var("RAX", 8), e)),
                5 => {
                    b0.term.jmps = vec![
                        j_cbranch("f0_b0_j0", "f0_b1", e_bin(BinOpType::IntEqual, e, e_const(0, 8))),
                        j_branch("f0_b0_j1", "f0_b1"),
                    ]
                }
                6 => {
                    b0.term.jmps = vec![j_branch_ind("f0_b0_j0", e)];
                    b0.term.indirect_jmp_targets = vec![tid("f0_b1")];
                }
                7 => b0.term.jmps = vec![j_call_ind("f0_b0_j0", e, Some("f0_b1"))],
                8 => {
                    externs.push(extern_symbol("x_ext", "ext_dir", vec![Arg::Register { expr: e, data_type: None }], vec![reg_arg("RAX")], false));
                    b0.term.jmps = vec![j_call("f0_b0_j0", "x_ext", Some("f0_b1"))];
                }
                _ => {
                    externs.push(extern_symbol(
                        "x_ext",
                        "ext_dir",
                        vec![Arg::Stack { address: e, size: ByteSize::new(8), data_type: None }],
                        vec![reg_arg("RAX")],
                        false,
                    ));
                    b0.term.jmps = vec![j_call("f0_b0_j0", "x_ext", Some("f0_b1"))];
                }
            }
            b0.term.defs = b0_defs;
            let b1 = blk("f0_b1", vec![], vec![ret()]);
            v.push(project_x64(program(vec![sub("f0", "fn0", vec![b0, b1], None)], externs, vec![tid("f0")])));
        }
    }
    v.extend(directed_guard_projects());
    v.extend(directed_maybe_stack_projects());
    v.extend(directed_after_call_projects());
    v
}

/// one function storing the bare register `stored` through `RAX`, where `RAX` is a stack slot on one
/// arm of a diamond (or before a loop) and `other` on the other arm; `stored` is read nowhere else
fn maybe_stack_sub(i: usize, other: u64, stack_on_taken: bool, shape: u64, stored: &str, externs: &mut Vec<ExternSymbol>) -> Term<Sub> {
    let n = |b: usize| format!("f{}_b{}", i, b);
    let ret = |b: usize| j_return(&format!("{}_j0", n(b)), Expression::Var(tmp("$ret", 8)));
    let stack_val = || e_bin(BinOpType::IntAdd, e_var("RSP", 8), e_const((-16i64) as u64, 8));
    let other_defs = |t: &str| -> Vec<Term<Def>> {
        match other {
            0 => vec![d_assign(t, var("RAX", 8), e_var("RDI", 8))],
            1 => vec![d_assign(t, var("RAX", 8), e_bin(BinOpType::IntAdd, e_var("RDI", 8), e_const(8, 8)))],
            2 => vec![d_assign(t, var("RAX", 8), e_const(0x601000, 8))],
            4 => vec![d_load(t, var("RAX", 8), e_var("RDX", 8))],
            5 => vec![d_assign(t, var("RAX", 8), e_bin(BinOpType::IntMult, e_var("RDI", 8), e_const(8, 8)))],
            _ => vec![], // 3: call result, see below
        }
    };
    let store = |t: &str| d_store(t, e_var("RAX", 8), e_var(stored, 8));
    if other == 3 && !externs.iter().any(|x| x.name == "ext_ret") {
        externs.push(extern_symbol("x_ext_ret", "ext_ret", vec![], vec![reg_arg("RAX")], false));
    }
    let blocks = match shape {
        // diamond
        0 => {
            let (t_arm, f_arm) = if stack_on_taken { (1usize, 2usize) } else { (2, 1) };
            // block 1 = taken side, block 2 = fall-through side
            let mk_arm = |b: usize, is_stack: bool| {
                if is_stack {
                    blk(&n(b), vec![d_assign(&format!("{}_d0", n(b)), var("RAX", 8), stack_val())], vec![j_branch(&format!("{}_j0", n(b)), &n(3))])
                } else if other == 3 {
                    blk(&n(b), vec![], vec![j_call(&format!("{}_j0", n(b)), "x_ext_ret", Some(&n(3)))])
                } else {
                    blk(&n(b), other_defs(&format!("{}_d0", n(b))), vec![j_branch(&format!("{}_j0", n(b)), &n(3))])
                }
            };
            vec![
                blk(&n(0), vec![], vec![j_cbranch(&format!("{}_j0", n(0)), &n(1), e_var("ZF", 1)), j_branch(&format!("{}_j1", n(0)), &n(2))]),
                mk_arm(1, t_arm == 1),
                mk_arm(2, t_arm == 2 && f_arm == 1 || t_arm == 2),
                blk(&n(3), vec![store(&format!("{}_d0", n(3)))], vec![ret(3)]),
            ]
        }
        // loop: stack slot on entry, `other` from the second iteration on
        _ => {
            let mut body = vec![store(&format!("{}_d0", n(1)))];
            let mut jmps = vec![j_cbranch(&format!("{}_j0", n(1)), &n(1), e_var("ZF", 1)), j_branch(&format!("{}_j1", n(1)), &n(2))];
            if other == 3 {
                // the call result cannot be produced inside the block: use the parameter pointer instead
                body.extend(vec![d_assign(&format!("{}_d1", n(1)), var("RAX", 8), e_var("RDI", 8))]);
            } else {
                body.extend(other_defs(&format!("{}_d1", n(1))));
            }
            let _ = &mut jmps;
            vec![
                blk(&n(0), vec![d_assign(&format!("{}_d0", n(0)), var("RAX", 8), stack_val())], vec![j_branch(&format!("{}_j0", n(0)), &n(1))]),
                blk(&n(1), body, jmps),
                blk(&n(2), vec![], vec![ret(2)]),
            ]
        }
    };
    sub(&format!("f{}", i), &format!("fn{}", i), blocks, None)
}

/// Directed maybe-stack shapes and controls for the spill rule: a bare parameter register stored
/// through a pointer that is a stack slot on one path and a parameter pointer / constant / call result
/// / product on another must be reported; pure stack slots are spills (nothing demanded), pure
/// parameter pointers are reads.
fn directed_maybe_stack_projects() -> Vec<Project> {
    let mut v = Vec::new();
    for other in 0..6u64 {
        for stack_on_taken in [true, false] {
            for shape in 0..2u64 {
                let mut externs = Vec::new();
                let s = maybe_stack_sub(0, other, stack_on_taken, shape, "RSI", &mut externs);
                v.push(project_x64(program(vec![s], externs, vec![tid("f0")])));
            }
        }
    }
    // controls
    let ret = || j_return("f0_b0_j0", Expression::Var(tmp("$ret", 8)));
    let one = |defs: Vec<Term<Def>>| project_x64(program(vec![sub("f0", "fn0", vec![blk("f0_b0", defs, vec![ret()])], None)], vec![], vec![tid("f0")]));
    let slot = e_bin(BinOpType::IntAdd, e_var("RSP", 8), e_const((-16i64) as u64, 8));
    v.push(one(vec![d_store("f0_b0_d0", slot.clone(), e_var("RSI", 8))]));
    v.push(one(vec![d_assign("f0_b0_d0", var("RAX", 8), slot), d_store("f0_b0_d1", e_var("RAX", 8), e_var("RSI", 8))]));
    v.push(one(vec![d_store("f0_b0_d0", e_var("RDI", 8), e_var("RSI", 8))]));
    v.push(one(vec![d_store("f0_b0_d0", e_bin(BinOpType::IntAdd, e_var("RDI", 8), e_const(8, 8)), e_var("RSI", 8))]));
    v.push(one(vec![d_store("f0_b0_d0", e_const(0x601000, 8), e_var("RSI", 8))]));
    v
}

/// Directed guard shapes: the ONLY access of the callee `f2` to RDX is the condition of a conditional
/// jump; its `Return` lies only behind the fall-through edge, only behind the taken edge, or behind
/// both; the other side is a dead end (endless loop or block without jump). `f1` calls `f2` and `f0`
/// calls `f1`, both without touching RDX: the register must be reported for all three functions
/// (guard read in the function itself, one and two call levels up).
fn directed_guard_projects() -> Vec<Project> {
    let mut v = Vec::new();
    let conds: Vec<Expression> = vec![
        e_bin(BinOpType::IntEqual, e_var("RDX", 8), e_const(0, 8)),
        e_bin(BinOpType::IntSLess, e_const(5, 8), e_bin(BinOpType::IntAnd, e_var("RDX", 8), e_const(0xff, 8))),
        e_un(UnOpType::BoolNegate, e_bin(BinOpType::IntLess, e_var("RDX", 8), e_var("RAX", 8))),
    ];
    let ret = |t: &str| j_return(t, Expression::Var(tmp("$ret", 8)));
    for cond in conds.iter() {
        for orientation in 0..3 {
            for dead_kind in 0..2 {
                for alone in [false, true] {
                    if alone && orientation != 1 {
                        continue; // a CBranch without second jump has only the taken side
                    }
                    let dead = |name: &str| {
                        if dead_kind == 0 {
                            blk(name, vec![], vec![j_branch(&format!("{}_j0", name), name)])
                        } else {
                            blk(name, vec![d_assign(&format!("{}_d0", name), var("RAX", 8), e_const(1, 8))], vec![])
                        }
                    };
                    // f2_b1 = taken side, f2_b2 = fall-through side
                    let taken = if orientation == 0 { dead("f2_b1") } else { blk("f2_b1", vec![], vec![ret("f2_b1_j0")]) };
                    let fall = if orientation == 1 { dead("f2_b2") } else { blk("f2_b2", vec![], vec![ret("f2_b2_j0")]) };
                    let mut jmps = vec![j_cbranch("f2_b0_j0", "f2_b1", cond.clone())];
                    if !alone {
                        jmps.push(j_branch("f2_b0_j1", "f2_b2"));
                    }
                    let g = sub("f2", "guard", vec![blk("f2_b0", vec![], jmps), taken, fall], None);
                    let caller = |i: usize| {
                        sub(
                            &format!("f{}", i),
                            &format!("caller{}", i),
                            vec![
                                blk(&format!("f{}_b0", i), vec![d_assign(&format!("f{}_b0_d0", i), var("R10", 8), e_const(i as u64, 8))],
                                    vec![j_call(&format!("f{}_b0_j0", i), &format!("f{}", i + 1), Some(&format!("f{}_b1", i)))]),
                                blk(&format!("f{}_b1", i), vec![], vec![ret(&format!("f{}_b1_j0", i))]),
                            ],
                            None,
                        )
                    };
                    v.push(project_x64(program(vec![caller(0), caller(1), g], vec![], vec![tid("f0")])));
                }
            }
        }
    }
    v
}

/// run the real analysis; canonical result
fn eval(project: &Project) -> Value {
    let p = std::panic::AssertUnwindSafe(project);
    let r = catch(move || {
        let graph = get_program_cfg(&p.program);
        let (sigs, _logs) = compute_function_signatures(&p, &graph);
        let mut v = Vec::new();
        for (tid, sig) in sigs.iter() {
            let mut regs = Vec::new();
            let mut all = Vec::new();
            for (loc, pat) in sig.parameters.iter() {
                if let AbstractLocation::Register(var) = loc {
                    regs.push(var.name.clone());
                }
                all.push(format!("{}={}", loc, pat));
            }
            v.push(json!({"tid": format!("{}", tid), "regs": regs, "all": all}));
        }
        Value::Array(v)
    });
    match r {
        Ok(v) => v,
        Err(p) => Value::String(format!("panic:{}", p.replace(' ', "_"))),
    }
}

fn emit(out: &mut Out, project: &Project) {
    let r = eval(project);
    let n_reg: usize = r.as_array().map(|a| a.iter().map(|s| s["regs"].as_array().unwrap().len()).sum()).unwrap_or(0);
    out.count(&format!("reported-register-params:{}", n_reg.min(8)));
    out.count(&format!("subs:{}", project.program.term.subs.len()));
    let pj = project_to_json(project);
    let line = json!({"project": pj, "impl": r}).to_string();
    let key = pj.to_string();
    out.case(&line, if n_reg > 0 { Some(&key) } else { None });
}

fn main() {
    quiet_panics();
    let args = Args::parse();
    let mut out = Out::new(
        &args,
        "a directed set (one function per instruction position x offset form: base+index*scale, shifts, masks, casts, nested) and \
         generated projects of 1-4 functions with probe registers read exactly once (1-6 blocks each; assignments, flags, loads/stores incl. stack spills, \
         branches, loops, extern/internal/indirect calls, returns, dead ends); the real get_program_cfg + \
         compute_function_signatures; non-trivial = the analysis reported at least one register parameter; distinct by project",
    );
    if let Some(lines) = args.replay_lines() {
        for line in lines {
            let v: Value = serde_json::from_str(&line).expect("replay line");
            let project = project_from_json(&v["project"]);
            emit(&mut out, &project);
        }
        out.finish();
        return;
    }
    for project in directed_projects() {
        out.count("directed");
        emit(&mut out, &project);
    }
    let mut rng = Rng::new(args.seed);
    let n = args.num("projects", 500, 20000);
    for _ in 0..n {
        let project = gen_project(&mut rng, &mut out);
        emit(&mut out, &project);
    }
    out.finish();
}
