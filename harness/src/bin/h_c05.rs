//! C05 harness: drives the real `MemRegion<T>` through random operation histories for three value
//! domains and records the full cell list (`iter()`) after EVERY operation, plus `get` /
//! `get_unsized` probes. One case line = one history.
//!
//! Operations are kept as JSON (`{"o":"ins","p":-8,"v":{..}}`, ...) so that generation and
//! `--replay` use the same interpreter (`exec`).
use cwe_checker_lib::abstract_domain::*;
use cwe_checker_lib::analysis::taint::Taint;
use cwe_checker_lib::intermediate_representation::*;
use apint::Width;
use std::panic::AssertUnwindSafe;
use verif_harness::*;

/// A value domain of the correspondence run: JSON <-> value, canonical printing.
trait Dom: AbstractDomain + SizedDomain + HasTop + std::fmt::Debug + Sized {
    const NAME: &'static str;
    fn from_json(v: &Value) -> Self;
    fn show(&self) -> String;
    /// random value of the given size as JSON
    fn gen(rng: &mut Rng, size: u64) -> Value;
}

fn bv_from_json(v: &Value) -> BitvectorDomain {
    let s = v["s"].as_u64().unwrap();
    match v.get("v") {
        Some(x) => BitvectorDomain::Value(
            Bitvector::from_u64(x.as_u64().unwrap()).into_resize_unsigned(ByteSize::new(s)),
        ),
        None => BitvectorDomain::Top(ByteSize::new(s)),
    }
}

fn bv_show(b: &BitvectorDomain) -> String {
    match b {
        BitvectorDomain::Top(s) => format!("T{}", u64::from(*s)),
        BitvectorDomain::Value(x) => format!(
            "V{}:{}",
            u64::from(ByteSize::from(x.width())),
            x.clone().into_resize_unsigned(ByteSize::new(8)).try_to_u64().unwrap()
        ),
    }
}

fn bv_gen(rng: &mut Rng, size: u64, top_one_in: u64) -> Value {
    if size == 0 || rng.chance(1, top_one_in) {
        return json!({ "s": size });
    }
    let mask = if size >= 8 { u64::MAX } else { (1u64 << (8 * size)) - 1 };
    let v = match rng.below(8) {
        0 => mask,
        1 => rng.next() & mask,
        _ => rng.below(3),
    };
    json!({"s": size, "v": v})
}

impl Dom for BitvectorDomain {
    const NAME: &'static str = "bv";
    fn from_json(v: &Value) -> Self {
        bv_from_json(v)
    }
    fn show(&self) -> String {
        bv_show(self)
    }
    fn gen(rng: &mut Rng, size: u64) -> Value {
        bv_gen(rng, size, 8)
    }
}

impl Dom for Taint {
    const NAME: &'static str = "taint";
    fn from_json(v: &Value) -> Self {
        let s = ByteSize::new(v["s"].as_u64().unwrap());
        if v.get("t").is_some() {
            Taint::Tainted(s)
        } else {
            Taint::Top(s)
        }
    }
    fn show(&self) -> String {
        match self {
            Taint::Tainted(s) => format!("X{}", u64::from(*s)),
            Taint::Top(s) => format!("T{}", u64::from(*s)),
        }
    }
    fn gen(rng: &mut Rng, size: u64) -> Value {
        if size == 0 || rng.chance(1, 4) {
            json!({ "s": size })
        } else {
            json!({"s": size, "t": 1})
        }
    }
}

type Data = DataDomain<BitvectorDomain>;

impl Dom for Data {
    const NAME: &'static str = "data";
    fn from_json(v: &Value) -> Self {
        let mut d = Data::new_empty(ByteSize::new(v["s"].as_u64().unwrap()));
        if let Some(a) = v.get("a") {
            d.set_absolute_value(Some(bv_from_json(a)));
        }
        if v["f"].as_bool().unwrap() {
            d.set_contains_top_flag();
        }
        d
    }
    fn show(&self) -> String {
        assert!(self.get_relative_values().is_empty());
        format!(
            "D{}:{}:{}",
            u64::from(self.bytesize()),
            match self.get_absolute_value() {
                Some(a) => bv_show(a),
                None => "-".to_string(),
            },
            if self.contains_top() { 1 } else { 0 }
        )
    }
    fn gen(rng: &mut Rng, size: u64) -> Value {
        let f = rng.chance(1, 3);
        if size == 0 || rng.chance(1, 4) {
            // no absolute value: the empty value (f = false) or Top (f = true)
            json!({"s": size, "f": f})
        } else {
            json!({"s": size, "a": bv_gen(rng, size, 5), "f": f})
        }
    }
}

fn show_region<T: Dom>(r: &MemRegion<T>) -> String {
    r.iter().map(|(k, v)| format!("{}={}", k, v.show())).collect::<Vec<_>>().join(",")
}

fn pos_bv(p: i64, ab: u64) -> Bitvector {
    Bitvector::from_i64(p).into_resize_signed(ByteSize::new(ab))
}

/// apply one mutating operation / probe to the real region; returns the recorded output
fn apply<T: Dom>(r: &mut MemRegion<T>, ab: u64, op: &mut Value) -> String {
    let o = op["o"].as_str().unwrap().to_string();
    let p = op["p"].as_i64().unwrap_or(0);
    match o.as_str() {
        "ins" => r.insert_at_byte_index(T::from_json(&op["v"]), p),
        "add" => r.add(T::from_json(&op["v"]), pos_bv(p, ab)),
        "rm" => r.remove(pos_bv(p, ab), Bitvector::from_i64(op["n"].as_i64().unwrap())),
        "mwt" => r.merge_write_top(pos_bv(p, ab), ByteSize::new(op["n"].as_u64().unwrap())),
        "mi" => r.mark_interval_values_as_top(
            op["s"].as_i64().unwrap(),
            op["e"].as_i64().unwrap(),
            ByteSize::new(op["n"].as_u64().unwrap()),
        ),
        "ma" => r.mark_all_values_as_top(),
        "off" => r.add_offset_to_all_indices(op["d"].as_i64().unwrap()),
        "scrub" => {
            if let Some(i) = r.iter().position(|(k, _)| *k == p) {
                let v = r.values_mut().nth(i).unwrap();
                *v = v.top();
            }
            r.clear_top_values();
        }
        "ct" => r.clear_top_values(),
        "merge" => {
            let mut other: MemRegion<T> = MemRegion::new(ByteSize::new(ab));
            for w in op["w"].as_array_mut().unwrap().iter_mut() {
                apply(&mut other, ab, w);
            }
            op["ws"] = json!(show_region(&other));
            *r = r.merge(&other);
        }
        "get" => return r.get(pos_bv(p, ab), ByteSize::new(op["n"].as_u64().unwrap())).show(),
        "getu" => {
            return match r.get_unsized(pos_bv(p, ab)) {
                Some(v) => v.show(),
                None => "none".into(),
            }
        }
        _ => panic!("unknown op"),
    }
    show_region(r)
}

/// run a history on the real code; a panic ends the history (recorded as "panic")
fn exec<T: Dom>(ab: u64, ops: Vec<Value>) -> (Vec<Value>, Vec<String>, bool) {
    let mut r: MemRegion<T> = MemRegion::new(ByteSize::new(ab));
    let mut done = Vec::new();
    let mut outs = Vec::new();
    let mut nonempty = false;
    for mut op in ops {
        let res = catch(AssertUnwindSafe(|| apply(&mut r, ab, &mut op)));
        done.push(op);
        match res {
            Ok(s) => {
                nonempty |= !s.is_empty();
                outs.push(s)
            }
            Err(_) => {
                outs.push("panic".into());
                break;
            }
        }
    }
    (done, outs, nonempty)
}

fn emit<T: Dom>(out: &mut Out, ab: u64, ops: Vec<Value>) {
    let (done, outs, nonempty) = exec::<T>(ab, ops);
    for op in &done {
        out.count(&format!("op:{}", op["o"].as_str().unwrap()));
    }
    out.count(&format!("dom:{}", T::NAME));
    if outs.last().map(|s| s == "panic").unwrap_or(false) {
        out.count("ends-in-panic");
    }
    let key = Value::Array(done.clone()).to_string();
    let line = json!({"dom": T::NAME, "ab": ab, "ops": done, "impl": outs}).to_string();
    out.case(&line, if nonempty { Some(&key) } else { None });
}

fn emit_dom(out: &mut Out, dom: &str, ab: u64, ops: Vec<Value>) {
    match dom {
        "bv" => emit::<BitvectorDomain>(out, ab, ops),
        "taint" => emit::<Taint>(out, ab, ops),
        "data" => emit::<Data>(out, ab, ops),
        _ => panic!("unknown domain"),
    }
}

// ------------------------------------------------------------------------------------------
// generation

struct Gen {
    base: i64,
    /// sum of the offsets added so far (kept small when `base` is near the i64 limits)
    shift: i64,
    big: bool,
    /// 1: positions AT and just below i64::MAX (base = i64::MAX), -1: at and just above i64::MIN
    /// (base = i64::MIN), 0: elsewhere. Interval ends `position + size` exceed i64::MAX there;
    /// only `index + offset` of add_offset_to_all_indices is kept inside i64 (shifts away from the limit).
    edge: i64,
}

fn size(rng: &mut Rng) -> u64 {
    if rng.chance(1, 12) {
        3
    } else {
        *rng.pick(&[1u64, 2, 4, 4, 8, 8])
    }
}

impl Gen {
    fn pos(&self, rng: &mut Rng) -> i64 {
        // mostly multiples of 4 so that exact hits and partial overlaps are both frequent
        let o = if rng.chance(1, 2) { 4 * rng.range(-6, 6) } else { rng.range(-24, 24) };
        match self.edge {
            0 => self.base + o,
            // one-sided; the limit itself and its neighbours are frequent
            e => {
                let d = match rng.below(8) {
                    0 | 1 => 0,
                    2 => 1,
                    3 => rng.range(0, 8),
                    _ => o.abs(),
                };
                self.base - e * d
            }
        }
    }

    /// one simple (non-merge, non-probe) operation
    fn simple_op<T: Dom>(&mut self, rng: &mut Rng) -> Value {
        match rng.below(100) {
            0..=54 => {
                let o = if rng.chance(1, 3) { "add" } else { "ins" };
                let n = size(rng);
                json!({"o": o, "p": self.pos(rng), "v": T::gen(rng, n)})
            }
            55..=63 => json!({"o": "rm", "p": self.pos(rng), "n": if rng.chance(1, 4) { rng.range(1, 20) } else { size(rng) as i64 }}),
            64..=73 => json!({"o": "mwt", "p": self.pos(rng), "n": size(rng)}),
            74..=82 => {
                let s = self.pos(rng);
                let e = s.saturating_add(if rng.chance(1, 2) { 0 } else { rng.range(0, 12) });
                json!({"o": "mi", "s": s, "e": e, "n": size(rng)})
            }
            83..=85 => json!({"o": "ma"}),
            86..=92 => {
                let mut d = if rng.chance(1, 6) { 0 } else { rng.range(-9, 9) };
                if self.edge != 0 {
                    d = -self.edge * d.abs();
                }
                if self.big && (self.shift + d).abs() > 12 {
                    d = 0;
                }
                self.shift += d;
                json!({"o": "off", "d": d})
            }
            93..=97 => json!({"o": "scrub", "p": self.pos(rng)}),
            _ => json!({"o": "ct"}),
        }
    }

    /// an operation outside the hypotheses of the property (panics or degenerate intervals)
    fn odd_op<T: Dom>(&mut self, rng: &mut Rng) -> Value {
        match rng.below(6) {
            0 => json!({"o": "ins", "p": self.pos(rng), "v": T::gen(rng, 0)}),
            1 => json!({"o": "rm", "p": self.pos(rng), "n": -rng.range(0, 3)}),
            2 => {
                let s = self.pos(rng);
                json!({"o": "mi", "s": s, "e": s.saturating_sub(rng.range(2, 12)), "n": 1})
            }
            3 => json!({"o": "mwt", "p": self.pos(rng), "n": 0}),
            4 => {
                let s = self.pos(rng);
                json!({"o": "mi", "s": s, "e": s, "n": 0})
            }
            _ => {
                let s = self.pos(rng);
                json!({"o": "mi", "s": s, "e": s.saturating_sub(1), "n": 1})
            }
        }
    }
}

fn probe(rng: &mut Rng, g: &Gen) -> Value {
    if rng.chance(1, 4) {
        json!({"o": "getu", "p": g.pos(rng)})
    } else {
        json!({"o": "get", "p": g.pos(rng), "n": size(rng)})
    }
}

fn gen_history<T: Dom>(rng: &mut Rng, max_len: u64, ab: u64, big: bool, edge: bool) -> Vec<Value> {
    let up = rng.chance(1, 2);
    let edge: i64 = if !edge { 0 } else if up || rng.chance(1, 2) { 1 } else { -1 };
    let base = if edge != 0 {
        if edge == 1 {
            i64::MAX
        } else {
            i64::MIN
        }
    } else if big {
        if up {
            i64::MAX - 64
        } else {
            i64::MIN + 64
        }
    } else {
        0
    };
    let big = big || edge != 0;
    let mut g = Gen { base, shift: 0, big, edge };
    let len = 1 + rng.below(max_len);
    let mut ops: Vec<Value> = Vec::new();
    let mut simple: Vec<Value> = Vec::new();
    let odd_at = if rng.chance(1, 40) { Some(rng.below(len)) } else { None };
    for i in 0..len {
        if odd_at == Some(i) {
            ops.push(g.odd_op::<T>(rng));
            continue;
        }
        match rng.below(100) {
            0..=9 => {
                // merge with a second, independently built region; often a variation of the own
                // history so that equal slots, equal values and equal regions all occur
                let mut w: Vec<Value> = Vec::new();
                let mode = rng.below(10);
                if mode < 6 {
                    for op in &simple {
                        if mode < 2 || rng.chance(3, 4) {
                            w.push(op.clone());
                        }
                    }
                }
                if mode >= 2 {
                    let mut g2 = Gen { base: if edge != 0 { g.base } else { g.base + g.shift }, shift: 0, big, edge };
                    for _ in 0..rng.below(7) {
                        w.push(g2.simple_op::<T>(rng));
                    }
                }
                ops.push(json!({"o": "merge", "w": w}));
            }
            10..=19 => ops.push(probe(rng, &g)),
            _ => {
                let op = g.simple_op::<T>(rng);
                simple.push(op.clone());
                ops.push(op);
            }
        }
    }
    for _ in 0..3 {
        ops.push(probe(rng, &g));
    }
    // probes that hit stored cells are added by the caller (needs the final state)
    let _ = ab;
    ops
}

/// probes aimed at the cells of the final state: exact hit, wrong size, neighbours
fn add_hit_probes<T: Dom>(rng: &mut Rng, ab: u64, ops: &mut Vec<Value>) {
    let (_, outs, _) = exec::<T>(ab, ops.clone());
    if outs.last().map(|s| s == "panic").unwrap_or(true) {
        return;
    }
    // the last state string is that of the last mutating op
    let mut r: MemRegion<T> = MemRegion::new(ByteSize::new(ab));
    for op in ops.clone().iter_mut() {
        apply(&mut r, ab, op);
    }
    let cells: Vec<(i64, u64)> = r.iter().map(|(k, v)| (*k, u64::from(v.bytesize()))).collect();
    for _ in 0..3 {
        if cells.is_empty() {
            break;
        }
        let (k, n) = *rng.pick(&cells);
        match rng.below(4) {
            0 => ops.push(json!({"o": "get", "p": k, "n": n})),
            1 => ops.push(json!({"o": "get", "p": k, "n": size(rng)})),
            2 => ops.push(json!({"o": "get", "p": k.saturating_add(rng.range(-1, 1)), "n": n})),
            _ => ops.push(json!({"o": "getu", "p": k})),
        }
    }
}

fn main() {
    quiet_panics();
    let args = Args::parse();
    let mut out = Out::new(
        &args,
        "random operation histories (insert/add, remove, merge_write_top, mark_interval, mark_all, add_offset, \
         values_mut+clear_top_values, merge with a second independently built region, get/get_unsized probes) over \
         offsets base-24..base+24 (base 0, or i64::MIN+64 / i64::MAX-64 without any overflow, or one-sided AT the limits: \
         i64::MAX-24..=i64::MAX where position+size and end+elem_size exceed i64::MAX, and i64::MIN..=i64::MIN+24), \
         sizes 1,2,3,4,8, three value domains \
         (BitvectorDomain, Taint, DataDomain<BitvectorDomain>); the full cell list is recorded after every operation; \
         non-trivial = some recorded state is non-empty; distinct by operation list",
    );
    if let Some(lines) = args.replay_lines() {
        for line in lines {
            let v: Value = serde_json::from_str(&line).expect("replay line");
            let mut ops = v["ops"].as_array().unwrap().clone();
            for op in ops.iter_mut() {
                if let Some(o) = op.as_object_mut() {
                    o.remove("ws");
                }
            }
            emit_dom(&mut out, v["dom"].as_str().unwrap(), v["ab"].as_u64().unwrap_or(8), ops);
        }
        out.finish();
        return;
    }
    let mut rng = Rng::new(args.seed);
    let histories = args.num("histories", 20_000, 500_000);
    let max_len = args.num("maxlen", 12, 40);
    for i in 0..histories {
        let big = rng.chance(1, 10);
        let edge = !big && rng.chance(1, 8);
        let ab = if !big && !edge && rng.chance(1, 5) { 4 } else { 8 };
        out.count(if edge { "hist:at-i64-limit" } else if big { "hist:near-i64-limit" } else { "hist:around-0" });
        // short histories are not less interesting than long ones: mix the length bound
        let ml = if rng.chance(1, 3) { 1 + max_len / 3 } else { max_len };
        match i % 3 {
            0 => {
                let mut ops = gen_history::<BitvectorDomain>(&mut rng, ml, ab, big, edge);
                add_hit_probes::<BitvectorDomain>(&mut rng, ab, &mut ops);
                emit::<BitvectorDomain>(&mut out, ab, ops)
            }
            1 => {
                let mut ops = gen_history::<Taint>(&mut rng, ml, ab, big, edge);
                add_hit_probes::<Taint>(&mut rng, ab, &mut ops);
                emit::<Taint>(&mut out, ab, ops)
            }
            _ => {
                let mut ops = gen_history::<Data>(&mut rng, ml, ab, big, edge);
                add_hit_probes::<Data>(&mut rng, ab, &mut ops);
                emit::<Data>(&mut out, ab, ops)
            }
        }
    }
    out.finish();
}
