//! C17 harness: drives the real `cwe_367::CWE_MODULE.run` and `cwe_243::CWE_MODULE.run` on the real
//! `get_program_cfg` of generated programs (branches, loops, internal and extern calls to the
//! configured symbols) and writes the canonicalised warnings.
use cwe_checker_lib::analysis::graph::get_program_cfg;
use cwe_checker_lib::checkers::{cwe_243, cwe_367};
use cwe_checker_lib::intermediate_representation::*;
use cwe_checker_lib::utils::log::CweWarning;
use cwe_checker_lib::pipeline::AnalysisResults;
use verif_harness::ir::*;
use verif_harness::*;

const SYMS: [&str; 10] = ["access", "open", "chroot", "chdir", "setuid", "setresuid", "puts", "stat", "fopen", "setgid"];

fn warn_json(w: &CweWarning) -> Value {
    json!({"t": w.tids, "a": w.addresses, "s": w.symbols, "d": w.description})
}

fn run_check(project: &Project, which: &str, params: &Value) -> Value {
    let r = catch(std::panic::AssertUnwindSafe(|| {
        let graph = get_program_cfg(&project.program);
        let ar = AnalysisResults::new(&[], &graph, project);
        let (_logs, warnings) = match which {
            "367" => (cwe_367::CWE_MODULE.run)(&ar, params),
            _ => (cwe_243::CWE_MODULE.run)(&ar, params),
        };
        // in the order the checker emitted them
        Value::Array(warnings.iter().map(warn_json).collect())
    }));
    match r {
        Ok(v) => v,
        Err(p) => Value::String(format!("panic:{}", p.replace(' ', "_"))),
    }
}

fn jt(s: usize, b: usize, k: usize) -> Tid {
    tid_at(&format!("f{}b{}j{}", s, b, k), &format!("00{}{}{}", s, b, k + 1))
}
fn bt(s: usize, b: usize) -> Tid {
    tid_at(&format!("f{}b{}", s, b), &format!("00{}{}0", s, b))
}

struct Shape {
    nblocks: Vec<usize>,
    /// imported symbols: (tid, name)
    externs: Vec<(String, String)>,
}

/// forward-biased target (so that many blocks are reachable), sometimes backwards (loops)
fn target(rng: &mut Rng, sh: &Shape, s: usize, b: usize) -> Tid {
    let n = sh.nblocks[s];
    let t = if rng.chance(3, 4) && b + 1 < n { b + 1 + rng.below((n - b - 1).min(2) as u64) as usize } else { rng.below(n as u64) as usize };
    bt(s, t)
}

fn gen_block(rng: &mut Rng, out: &mut Out, sh: &Shape, s: usize, b: usize, weird: bool, dense: bool) -> Term<Blk> {
    let nsubs = sh.nblocks.len();
    let mk = |k: usize, j: Jmp| Term { tid: jt(s, b, k), term: j };
    let cond = e_var("ZF", 1);
    // in themed programs every third block is forced to be a call of an imported symbol
    let c = if dense && rng.chance(1, 3) { 50 } else { rng.below(100) };
    let jmps = if c < 3 {
        out.count("blk:nojmp");
        vec![]
    } else if c < 15 {
        out.count("blk:branch");
        vec![mk(0, Jmp::Branch(target(rng, sh, s, b)))]
    } else if c < 35 {
        out.count("blk:cond");
        vec![
            mk(0, Jmp::CBranch { target: target(rng, sh, s, b), condition: cond }),
            mk(1, Jmp::Branch(target(rng, sh, s, b))),
        ]
    } else if c < 75 && !sh.externs.is_empty() {
        // call of an imported symbol
        let (xt, name) = rng.pick(&sh.externs).clone();
        out.count(&format!("call:{}", name));
        let ret = if rng.chance(1, 8) {
            out.count("call:extern-noreturn");
            None
        } else {
            Some(target(rng, sh, s, b))
        };
        let call = Jmp::Call { target: tid(&xt), return_: ret };
        if weird && rng.chance(1, 6) {
            out.count("blk:conditional-call");
            vec![mk(0, Jmp::CBranch { target: target(rng, sh, s, b), condition: cond }), mk(1, call)]
        } else {
            vec![mk(0, call)]
        }
    } else if c < 85 {
        out.count("call:internal");
        let callee = rng.below(nsubs as u64) as usize;
        let ret = if rng.chance(1, 8) { None } else { Some(target(rng, sh, s, b)) };
        vec![mk(0, Jmp::Call { target: tid(&format!("f{}", callee)), return_: ret })]
    } else if c < 89 {
        out.count("call:indirect");
        let ret = if rng.chance(1, 5) { None } else { Some(target(rng, sh, s, b)) };
        vec![mk(0, Jmp::CallInd { target: e_var("RAX", 8), return_: ret })]
    } else if c < 92 {
        out.count("blk:branchind");
        vec![mk(0, Jmp::BranchInd(e_var("RAX", 8)))]
    } else {
        out.count("blk:return");
        vec![mk(0, Jmp::Return(e_var("RCX", 8)))]
    };
    let mut blk = Term { tid: bt(s, b), term: Blk { defs: vec![], jmps, indirect_jmp_targets: vec![] } };
    if matches!(blk.term.jmps.first().map(|j| &j.term), Some(Jmp::BranchInd(_))) {
        for _ in 0..rng.below(3) {
            blk.term.indirect_jmp_targets.push(target(rng, sh, s, b));
        }
    }
    blk
}

fn gen_project(rng: &mut Rng, out: &mut Out) -> Project {
    let nsubs = 1 + rng.below(3) as usize;
    let nblocks: Vec<usize> = (0..nsubs).map(|_| { let m = if rng.chance(1, 3) { 9 } else { 5 }; 1 + rng.below(m) as usize }).collect();
    // imported symbols: a random subset; a theme makes one of the two checkers likely to fire
    let theme = rng.below(5);
    let mut externs = Vec::new();
    for (i, name) in SYMS.iter().enumerate() {
        let p = match (theme, *name) {
            (0 | 1, "access" | "open") => 6,
            (0 | 1, "fopen" | "stat") => 4,
            (0 | 1, _) => 1,
            (2 | 3, "chroot") => 6,
            (2 | 3, "chdir") => 4,
            (2 | 3, "setuid" | "setresuid" | "setgid") => 3,
            (2 | 3, _) => 1,
            (_, "chroot") => 5,
            (_, "chdir" | "access" | "open") => 4,
            _ => 3,
        };
        if rng.chance(p, 6) {
            externs.push((format!("x{}_{}", i, name), name.to_string()));
        }
    }
    out.count(&format!("theme:{}", ["toctou", "toctou", "chroot", "chroot", "mixed"][theme as usize]));
    if rng.chance(1, 12) && !externs.is_empty() {
        // a second symbol with an already used name (find_symbol takes the first, symbol_map the last)
        out.count("externs:duplicate-name");
        let (_, name) = rng.pick(&externs).clone();
        externs.push((format!("x9_{}", name), name));
    }
    let weird = rng.chance(1, 10);
    let sh = Shape { nblocks, externs };
    let mut subs = Vec::new();
    for s in 0..nsubs {
        let blocks = (0..sh.nblocks[s]).map(|b| gen_block(rng, out, &sh, s, b, weird, theme < 4)).collect();
        subs.push(sub(&format!("f{}", s), &format!("fun{}", s), blocks, None));
    }
    let exts = sh.externs.iter().map(|(t, n)| extern_symbol(t, n, vec![], vec![], false)).collect();
    project_x64(program(subs, exts, vec![tid("f0")]))
}

/// random configuration: 1-4 (check, use) pairs with repeated check functions, repeated use functions,
/// a pair listed twice, symbols that are not imported, check == use, in random order; the list of
/// privilege-dropping functions with duplicates, not imported names, random order
fn gen_params(rng: &mut Rng, out: &mut Out) -> (Value, Value) {
    const SRC: [&str; 6] = ["access", "access", "stat", "open", "chroot", "lstat"];
    const SNK: [&str; 7] = ["open", "open", "fopen", "access", "chdir", "stat", "unlink"];
    let n = 1 + rng.below(4) as usize;
    let mut pairs: Vec<(String, String)> = Vec::new();
    for _ in 0..n {
        let c = rng.below(12);
        let pr = if !pairs.is_empty() && c == 0 {
            out.count("cfg367:pair-twice");
            rng.pick(&pairs).clone()
        } else if !pairs.is_empty() && c < 4 {
            out.count("cfg367:same-check");
            (rng.pick(&pairs).0.clone(), rng.pick(&SNK).to_string())
        } else if !pairs.is_empty() && c < 6 {
            out.count("cfg367:same-use");
            (rng.pick(&SRC).to_string(), rng.pick(&pairs).1.clone())
        } else if c == 6 {
            out.count("cfg367:check-equals-use");
            let x = rng.pick(&SRC).to_string();
            (x.clone(), x)
        } else if c < 9 {
            ("access".to_string(), rng.pick(&SNK).to_string())
        } else {
            (rng.pick(&SRC).to_string(), rng.pick(&SNK).to_string())
        };
        pairs.push(pr);
    }
    rng.shuffle(&mut pairs);
    out.count(&format!("cfg367:pairs-{}", pairs.len()));
    const PRIV: [&str; 6] = ["setuid", "setresuid", "setgid", "setgroups", "puts", "chdir"];
    let m = rng.below(5) as usize;
    let mut privs: Vec<String> = (0..m).map(|_| rng.pick(&PRIV).to_string()).collect();
    if !privs.is_empty() && rng.chance(1, 4) {
        out.count("cfg243:duplicate");
        let d = rng.pick(&privs).clone();
        privs.push(d);
    }
    rng.shuffle(&mut privs);
    out.count(&format!("cfg243:privs-{}", privs.len()));
    (json!({"pairs": pairs.iter().map(|(a, b)| json!([a, b])).collect::<Vec<_>>()}), json!({"priviledge_dropping_functions": privs}))
}

fn emit(out: &mut Out, project: &Project, p367: &Value, p243: &Value) {
    let pj = program_to_json(&project.program.term);
    let key = pj.to_string();
    for (q, params) in [("367", p367), ("243", p243)] {
        let r = run_check(project, q, params);
        let n = r.as_array().map(|a| a.len()).unwrap_or(0);
        out.count(&format!("q{}:{}", q, if r.is_string() { "panic" } else if n > 0 { "warnings" } else { "none" }));
        out.count_n(&format!("q{}:warnings-total", q), n as u64);
        let line = json!({"q": q, "prog": pj, "params": params, "impl": r}).to_string();
        let k = format!("{}|{}|{}", q, params, key);
        out.case(&line, if n > 0 { Some(&k) } else { None });
    }
}

fn main() {
    quiet_panics();
    let args = Args::parse();
    let mut out = Out::new(
        &args,
        "random programs of 1-3 functions with 1-9 blocks each: branches, conditional branches, loops, indirect jumps, internal calls, \
         indirect calls and calls to a random subset of the imported symbols access/open/chroot/chdir/setuid/setresuid/puts/stat \
         (with and without return site; some programs with conditional calls, some with duplicate symbol names); configurations vary; \
         non-trivial = the real checker emits at least one warning; distinct by (check, configuration, program)",
    );
    if let Some(lines) = args.replay_lines() {
        for line in lines {
            let v: Value = serde_json::from_str(&line).expect("replay line");
            let project = project_x64(program_from_json(&v["prog"]));
            let q = v["q"].as_str().unwrap_or("243").to_string();
            let r = run_check(&project, &q, &v["params"]);
            let n = r.as_array().map(|a| a.len()).unwrap_or(0);
            let l = json!({"q": q, "prog": v["prog"], "params": v["params"], "impl": r}).to_string();
            out.case(&l, if n > 0 { Some(&l) } else { None });
        }
        out.finish();
        return;
    }
    let mut rng = Rng::new(args.seed);
    let n = args.num("programs", 8000, 150000);
    for _ in 0..n {
        let project = gen_project(&mut rng, &mut out);
        let (p367, p243) = gen_params(&mut rng, &mut out);
        emit(&mut out, &project, &p367, &p243);
    }
    out.finish();
}
