//! C10 harness: generates IR programs, runs the REAL `normalize_basic()`, then the optimizing passes of
//! `Project::normalize_optimize` one by one (as a chain, each on the output of the previous one, and
//! each pass alone on the basic-normalized program) and the whole `normalize_optimize()`; writes the
//! programs before and after every pass as canonical JSON. The Lean driver compares the behaviour of
//! every function before/after under the reference interpreter and the pass models with the outputs.
use cwe_checker_lib::intermediate_representation::*;
use std::collections::BTreeMap;
use verif_harness::ir::*;
use verif_harness::*;

#[path = "c10_common/mod.rs"]
mod common;
use common::*;

/// reserved seeds: `Spec.initialState` fills every byte of every physical register (except the stack pointer and
/// the flags) with 0x80 resp. 0xff
const PATTERN_SEEDS: [u64; 2] = [0xFFFF_0080, 0xFFFF_00FF];

fn run_guarded(project: &Project, pass: &str) -> Result<(Project, Vec<String>), String> {
    let mut p = project.clone();
    let pass = pass.to_string();
    catch(std::panic::AssertUnwindSafe(move || {
        let logs = run_pass(&mut p, &pass);
        (p, logs)
    }))
}

/// one case line for the basic-normalized project `p0` and the list of passes to chain
fn case_line(p0: &Project, passes: &[String], with_full: bool, seeds: &[u64], fuel: u64, out: &mut Out) -> (String, bool) {
    let mut steps = Vec::new();
    let mut cur = p0.clone();
    let mut changed_any = false;
    let mut chain_ok = true;
    for pass in passes {
        match run_guarded(&cur, pass) {
            Ok((next, logs)) => {
                let same = next.program.term == cur.program.term;
                if !same {
                    changed_any = true;
                    out.count(&format!("changed:{}", pass));
                }
                let mut step = json!({
                    "pass": pass,
                    "out": if same { Value::Null } else { program_to_json(&next.program.term) },
                    "logs": logs,
                });
                if pass == "prop" {
                    // the tables of the real fixpoint (real transfer functions and engine)
                    let c = cur.clone();
                    if let Ok(t) = catch(std::panic::AssertUnwindSafe(move || real_propagation_tables(&c))) {
                        step["tables"] = t;
                    }
                }
                steps.push(step);
                cur = next;
            }
            Err(p) => {
                out.count(&format!("panic:{}", pass));
                steps.push(json!({"pass": pass, "out": panic_token(&p), "logs": []}));
                chain_ok = false;
                break;
            }
        }
    }
    let mut line = json!({
        "arch": p0.cpu_architecture,
        "seeds": seeds,
        "fuel": fuel,
        "p0": program_to_json(&p0.program.term),
        "steps": steps,
    });
    if with_full && chain_ok {
        let mut p = p0.clone();
        let r = catch(std::panic::AssertUnwindSafe(move || {
            let _ = p.normalize_optimize();
            p
        }));
        line["full"] = match r {
            Ok(full) => {
                if full.program.term == cur.program.term {
                    Value::Null
                } else {
                    out.count("full-differs-from-chain");
                    program_to_json(&full.program.term)
                }
            }
            Err(p) => Value::String(panic_token(&p)),
        };
    }
    (line.to_string(), changed_any)
}

fn main() {
    quiet_panics();
    let args = Args::parse();
    let mut out = Out::new(
        &args,
        "generated programs of 1-3 functions with 1-8 blocks (register/temporary arithmetic with the rule patterns of \
         trivial_operation_substitution, loads, stores, conditional chains with shared conditions, def-free forwarding \
         blocks, loops incl. back to the entry block, stack-pointer arithmetic and masking, direct/indirect/extern calls, \
         indirect jumps, returns; assignment cycles `Y = f(X); X = g(Y)` through 2-3 registers followed by a jump / diamond / loop \
         back-edge and observable reads of X; nested extension casts of every ordered pair of kinds, directly and through an \
         inlined temporary, reaching an observable; loads / assignments that read the register they overwrite after a \
         non-foldable assignment to it; block preconditions invalidated by a load / an assignment before a block \
         branching on the same condition) -> real normalize_basic -> every optimizing pass (chained as in normalize_optimize, \
         or alone) -> programs before/after; each function is run from several initial states by the Lean reference \
         interpreter (random states plus two pattern states with the top bit of every sub-piece set); non-trivial = at least one pass changed the program; distinct by program text",
    );
    let fuel = args.num("fuel", 24, 40);
    if let Some(lines) = args.replay_lines() {
        for line in lines {
            let v: Value = serde_json::from_str(&line).expect("replay line");
            let program = program_from_json(&v["p0"]);
            let mut project = project_x64(program);
            if let Some(a) = v["arch"].as_str() {
                project.cpu_architecture = a.to_string();
            }
            let passes: Vec<String> =
                v["steps"].as_array().unwrap().iter().map(|s| s["pass"].as_str().unwrap().to_string()).collect();
            let seeds: Vec<u64> = v["seeds"].as_array().unwrap().iter().map(|s| s.as_u64().unwrap()).collect();
            let fuel = v["fuel"].as_u64().unwrap_or(fuel);
            let with_full = !v["full"].is_null() || v.get("full").is_some();
            // a replayed chain may have been cut by a panic: run all passes again if it was the full chain
            let passes = if with_full { PASSES.iter().map(|s| s.to_string()).collect() } else { passes };
            let (l, changed) = case_line(&project, &passes, with_full, &seeds, fuel, &mut out);
            let key = v["p0"].to_string();
            out.case(&l, if changed { Some(&key) } else { None });
        }
        out.finish();
        return;
    }
    let mut rng = Rng::new(args.seed);
    let n = args.num("programs", 1500, 40000);
    // `--tier search` (run after a model/implementation disagreement): more initial states per program
    let nstates = if args.tier == "search" && !args.extra.contains_key("states") { 16 } else { args.num("states", 4, 8) };
    let mut counts: BTreeMap<String, u64> = BTreeMap::new();
    // `--crafted 1`: hand-written shapes of the defects found in the unchanged tree, every pass alone and
    // the chain (this is how the files in corpus/C10 were produced; the corpus is replayed by every check)
    let crafted = if args.extra.contains_key("crafted") { crafted_programs() } else { Vec::new() };
    for (name, program) in crafted {
        let mut project = project_x64(program);
        let _ = project.normalize_basic();
        let mut seeds: Vec<u64> = (0..8).map(|k| 1000 + k).collect();
        seeds.extend(PATTERN_SEEDS);
        let all: Vec<String> = PASSES.iter().map(|s| s.to_string()).collect();
        let (l, _) = case_line(&project, &all, true, &seeds, fuel, &mut out);
        out.case(&l, Some(name));
        for p in PASSES.iter() {
            let (l, _) = case_line(&project, &[p.to_string()], false, &seeds, fuel, &mut out);
            out.case(&l, None);
        }
        out.count("crafted");
    }
    // directed programs that are always run: assignment cycles across a block boundary (the whole chain and
    // expression propagation alone)
    if !args.extra.contains_key("crafted") {
        for (name, program) in
            cycle_directed_programs().into_iter().chain(castnest_directed_programs()).chain(loadself_directed_programs()).chain(cfpre_directed_programs())
        {
            let mut project = project_x64(program);
            let _ = project.normalize_basic();
            let mut seeds: Vec<u64> = (0..nstates).map(|k| 2000 + k).collect();
            seeds.extend(PATTERN_SEEDS);
            let all: Vec<String> = PASSES.iter().map(|s| s.to_string()).collect();
            let (l, _) = case_line(&project, &all, true, &seeds, fuel, &mut out);
            out.case(&l, Some(name));
            for single in ["prop", "triv", "dve", "cf"] {
                let (l, _) = case_line(&project, &[single.to_string()], false, &seeds, fuel, &mut out);
                out.case(&l, None);
            }
            out.count("directed");
        }
    }
    for _ in 0..n {
        let program = gen_program(&mut rng, Flavor::Behaviour, &mut counts);
        let mut project = project_x64(program);
        let r = {
            let mut p = project.clone();
            catch(std::panic::AssertUnwindSafe(move || {
                let _ = p.normalize_basic();
                p
            }))
        };
        match r {
            Ok(p) => project = p,
            Err(_) => {
                out.count("panic:normalize_basic");
                continue;
            }
        }
        // random states plus the two pattern states (every byte of every physical register 0x80 / 0xff: the top
        // bit of every sub-piece is set; `Spec.initialState` interprets the reserved seeds)
        let mut seeds: Vec<u64> = (0..nstates).map(|_| rng.next() >> 16).collect();
        seeds.extend(PATTERN_SEEDS);
        let mode = rng.below(10);
        let (passes, with_full): (Vec<String>, bool) = if mode < 5 {
            out.count("mode:chain");
            (PASSES.iter().map(|s| s.to_string()).collect(), true)
        } else {
            let p = PASSES[(mode - 5) as usize];
            out.count(&format!("mode:single-{}", p));
            (vec![p.to_string()], false)
        };
        let (l, changed) = case_line(&project, &passes, with_full, &seeds, fuel, &mut out);
        let key = program_to_json(&project.program.term).to_string();
        out.case(&l, if changed { Some(&key) } else { None });
    }
    for (k, v) in counts {
        out.count_n(&k, v);
    }
    out.finish();
}
