//! C02 harness: drives the real `IntervalDomain` transfer functions (`bin_op`, `un_op`, `cast`,
//! `subpiece`) and `Interval::contains` on generated well-formed interval values.
//!
//! Case line: `{"k":"bin"|"un"|"cast"|"sub"|"contains", "op":…, "a":D, "b":D, …, "impl":S}` with
//! `D = {"w":bits,"s":"start","e":"end","st":"stride","u":hint|null,"l":hint|null,"d":"delay"}` (signed
//! decimal strings) and `S = "w|start|end|stride|upper|lower|delay|T/F"` (the implementation result).
//! `cc` holds concrete triples `[x, y, Bitvector::bin_op(op, x, y)]` (binary operations) resp. pairs
//! `[x, Bitvector::un_op / cast / subpiece (x)]` evaluated by the real bit-vector code; the driver compares
//! them with the P-Code reference semantics `CweModel.Ref` and checks membership in the abstract result.
use cwe_checker_lib::abstract_domain::*;
use cwe_checker_lib::intermediate_representation::*;
use verif_harness::*;
use apint::Width;

#[path = "itv_common/mod.rs"]
mod common;
use common::*;

// ---------------------------------------------------------------- operations

pub const BIN_OPS: [BinOpType; 34] = {
    use BinOpType::*;
    [Piece, IntEqual, IntNotEqual, IntLess, IntSLess, IntLessEqual, IntSLessEqual, IntAdd, IntSub,
     IntCarry, IntSCarry, IntSBorrow, IntXOr, IntAnd, IntOr, IntLeft, IntRight, IntSRight, IntMult,
     IntDiv, IntRem, IntSDiv, IntSRem, BoolXOr, BoolAnd, BoolOr, FloatEqual, FloatNotEqual, FloatLess,
     FloatLessEqual, FloatAdd, FloatSub, FloatMult, FloatDiv]
};
pub const UN_OPS: [UnOpType; 10] = {
    use UnOpType::*;
    [IntNegate, Int2Comp, BoolNegate, FloatNegate, FloatAbs, FloatSqrt, FloatCeil, FloatFloor, FloatRound, FloatNaN]
};
pub const CAST_OPS: [CastOpType; 7] = {
    use CastOpType::*;
    [IntZExt, IntSExt, Int2Float, Float2Float, Trunc, PopCount, LzCount]
};

fn guard<T>(f: impl FnOnce() -> T) -> Result<T, String> {
    catch(std::panic::AssertUnwindSafe(f))
}

fn panic_str(p: String) -> String {
    format!("panic:{}", p.replace(' ', "_").chars().take(80).collect::<String>())
}

pub fn emit_bin(out: &mut Out, rng: &mut Rng, op: BinOpType, a: &Dom, b: &Dom, cap: u64, ntriples: usize) {
    let ia = to_impl(a);
    let ib = to_impl(b);
    let r = guard(|| ia.bin_op(op, &ib));
    let imp = match &r {
        Ok(v) => show_impl(v),
        Err(p) => panic_str(p.clone()),
    };
    // concrete triples from the real bit-vector code: the bounds pair first
    let mut pairs: Vec<(i128, i128)> = vec![(a.s, b.s)];
    for _ in 0..ntriples {
        pairs.push((rnd_member(rng, a), rnd_member(rng, b)));
    }
    let mut cc = String::from("[");
    let mut first = true;
    for (x, y) in pairs {
        let bx = bv(a.w, x);
        let by = bv(b.w, y);
        let z = guard(|| bx.bin_op(op, &by));
        let zs = match z {
            Ok(Ok(z)) => format!("\"{}\"", sv(&z)),
            Ok(Err(_)) => "null".to_string(),
            Err(_) => continue, // the concrete operation itself is undefined here (assertion)
        };
        if !first {
            cc.push(',');
        }
        first = false;
        cc.push_str(&format!("[\"{}\",\"{}\",{}]", x, y, zs));
    }
    cc.push(']');
    let line = format!(
        "{{\"k\":\"bin\",\"op\":\"{:?}\",\"a\":{},\"b\":{},\"cap\":{},\"cc\":{},\"impl\":\"{}\"}}",
        op, dom_json(a), dom_json(b), cap, cc, imp
    );
    out.count(&format!("bin:{:?}", op));
    out.count(&format!("w:{}", a.w));
    let top = r.as_ref().map(|v| v.is_top()).unwrap_or(false);
    let key = format!("{:?}|{}|{}", op, dom_json(a), dom_json(b));
    out.case(&line, if top { None } else { Some(&key) });
}

/// concrete pairs `[x, f(x)]` from the real bit-vector code for the bounds and a middle member of `a`
/// (`null` = `Err`; members on which the real operation asserts are left out)
fn cc_unary(a: &Dom, f: &dyn Fn(&Bitvector) -> Option<Bitvector>) -> String {
    let n = steps(a);
    let mut ks = vec![0u128, n / 2, n];
    ks.dedup();
    let mut parts: Vec<String> = Vec::new();
    for k in ks {
        let x = member(a, k);
        let bx = bv(a.w, x);
        match guard(|| f(&bx)) {
            Ok(Some(z)) => parts.push(format!("[\"{}\",\"{}\"]", x, sv(&z))),
            Ok(None) => parts.push(format!("[\"{}\",null]", x)),
            Err(_) => {}
        }
    }
    format!("[{}]", parts.join(","))
}

pub fn emit_un(out: &mut Out, op: UnOpType, a: &Dom, cap: u64) {
    let ia = to_impl(a);
    let r = guard(|| ia.un_op(op));
    let imp = match &r {
        Ok(v) => show_impl(v),
        Err(p) => panic_str(p.clone()),
    };
    let cc = cc_unary(a, &|x| x.un_op(op).ok());
    let line = format!(
        "{{\"k\":\"un\",\"op\":\"{:?}\",\"a\":{},\"cap\":{},\"cc\":{},\"impl\":\"{}\"}}",
        op, dom_json(a), cap, cc, imp
    );
    out.count(&format!("un:{:?}", op));
    let top = r.as_ref().map(|v| v.is_top()).unwrap_or(false);
    let key = format!("{:?}|{}", op, dom_json(a));
    out.case(&line, if top { None } else { Some(&key) });
}

pub fn emit_cast(out: &mut Out, op: CastOpType, a: &Dom, w2: usize, cap: u64) {
    let ia = to_impl(a);
    let r = guard(|| ia.cast(op, ByteSize::new((w2 / 8) as u64)));
    let imp = match &r {
        Ok(v) => show_impl(v),
        Err(p) => panic_str(p.clone()),
    };
    let cc = cc_unary(a, &|x| x.cast(op, ByteSize::new((w2 / 8) as u64)).ok());
    let line = format!(
        "{{\"k\":\"cast\",\"op\":\"{:?}\",\"a\":{},\"w\":{},\"cap\":{},\"cc\":{},\"impl\":\"{}\"}}",
        op, dom_json(a), w2, cap, cc, imp
    );
    out.count(&format!("cast:{:?}", op));
    let top = r.as_ref().map(|v| v.is_top()).unwrap_or(false);
    let key = format!("{:?}|{}|{}", op, dom_json(a), w2);
    out.case(&line, if top { None } else { Some(&key) });
}

pub fn emit_sub(out: &mut Out, a: &Dom, low: usize, size: usize, cap: u64) {
    let ia = to_impl(a);
    let r = guard(|| ia.subpiece(ByteSize::new((low / 8) as u64), ByteSize::new((size / 8) as u64)));
    let imp = match &r {
        Ok(v) => show_impl(v),
        Err(p) => panic_str(p.clone()),
    };
    let cc = cc_unary(a, &|x| Some(x.subpiece(ByteSize::new((low / 8) as u64), ByteSize::new((size / 8) as u64))));
    let line = format!(
        "{{\"k\":\"sub\",\"a\":{},\"low\":{},\"size\":{},\"cap\":{},\"cc\":{},\"impl\":\"{}\"}}",
        dom_json(a), low, size, cap, cc, imp
    );
    out.count("subpiece");
    let top = r.as_ref().map(|v| v.is_top()).unwrap_or(false);
    let key = format!("sub|{}|{}|{}", dom_json(a), low, size);
    out.case(&line, if top { None } else { Some(&key) });
}

pub fn emit_contains(out: &mut Out, a: &Dom, x: i128) {
    let ia = to_impl(a);
    let j = serde_json::to_value(&ia).unwrap();
    let itv: Interval = serde_json::from_value(j["interval"].clone()).unwrap();
    let bx = bv(a.w, x);
    let r = guard(|| itv.contains(&bx));
    let imp = match r {
        Ok(v) => v.to_string(),
        Err(p) => panic_str(p),
    };
    let line = format!("{{\"k\":\"contains\",\"a\":{},\"x\":\"{}\",\"impl\":\"{}\"}}", dom_json(a), x, imp);
    out.count("contains");
    let key = format!("c|{}|{}", dom_json(a), x);
    out.case(&line, if imp == "true" { Some(&key) } else { None });
}

fn find_op<T: std::fmt::Debug + Copy>(ops: &[T], name: &str) -> T {
    *ops.iter().find(|o| format!("{:?}", o) == name).expect("operation name")
}

fn replay(out: &mut Out, rng: &mut Rng, lines: Vec<String>) {
    for line in lines {
        let v: Value = serde_json::from_str(&line).expect("replay line");
        let a = dom_from_json(&v["a"]);
        let cap = v["cap"].as_u64().unwrap_or(40);
        match v["k"].as_str().unwrap() {
            "bin" => {
                let b = dom_from_json(&v["b"]);
                emit_bin(out, rng, find_op(&BIN_OPS, v["op"].as_str().unwrap()), &a, &b, cap, 4);
            }
            "un" => emit_un(out, find_op(&UN_OPS, v["op"].as_str().unwrap()), &a, cap),
            "cast" => emit_cast(out, find_op(&CAST_OPS, v["op"].as_str().unwrap()), &a, v["w"].as_u64().unwrap() as usize, cap),
            "sub" => emit_sub(out, &a, v["low"].as_u64().unwrap() as usize, v["size"].as_u64().unwrap() as usize, cap),
            "contains" => emit_contains(out, &a, v["x"].as_str().unwrap().parse().unwrap()),
            k => panic!("unknown case kind {}", k),
        }
    }
}

const SPECIAL: [BinOpType; 5] = [BinOpType::IntAdd, BinOpType::IntSub, BinOpType::IntMult, BinOpType::IntLeft, BinOpType::Piece];

fn fallthrough_ops() -> Vec<BinOpType> {
    BIN_OPS.iter().copied().filter(|o| !SPECIAL.contains(o)).collect()
}

/// everything that is run for one pair of values of the same width
fn run_pair(out: &mut Out, rng: &mut Rng, a: &Dom, b: &Dom, cap: u64, all_special: bool) {
    use BinOpType::*;
    let w = a.w;
    for op in [IntAdd, IntSub, IntMult] {
        if all_special || rng.chance(2, 3) {
            emit_bin(out, rng, op, a, b, cap, 2);
        }
    }
    // shift: amounts around the width, own width for the amount
    if all_special || rng.chance(1, 2) {
        let wb = *rng.pick(&[8usize, 8, 16, 32, 64]);
        let amount = if rng.chance(1, 4) {
            rnd_dom(rng, wb, true)
        } else {
            let n = match rng.below(6) {
                0 => w as i128 - 1,
                1 => w as i128,
                2 => 0,
                3 => rnd_val(rng, wb),
                _ => rng.below(w as u64 + 2) as i128,
            };
            let n = if n > smax(wb) { n - (1i128 << wb) } else { n };
            Dom { w: wb, s: n, e: n, st: 0, u: rnd_hint_upper(rng, wb, n), l: None, d: rnd_delay(rng) }
        };
        emit_bin(out, rng, IntLeft, a, &amount, cap, 2);
    }
    // piece: total width at most 128 bit
    if all_special || rng.chance(1, 2) {
        let choices: Vec<usize> = [8usize, 16, 32, 64].iter().copied().filter(|x| x + w <= 128).collect();
        let wl = *rng.pick(&choices);
        let low = if wl == b.w { b.clone() } else { rnd_dom(rng, wl, true) };
        emit_bin(out, rng, Piece, a, &low, cap.min(24), 2);
    }
    let ft = fallthrough_ops();
    for _ in 0..2 {
        let op = *rng.pick(&ft);
        let bool_op = matches!(op, BoolAnd | BoolOr | BoolXOr);
        // half of the time on singletons, where the operation is evaluated exactly
        let (aa, bb) = if bool_op {
            // boolean operations are defined on 1-byte values 0/1 only
            let mk = |rng: &mut Rng, d: &Dom| -> Dom {
                let (s, e, st) = if rng.chance(2, 3) { let x = rng.below(2) as i128; (x, x, 0) } else { (0, 1, 1) };
                Dom { w: 8, s, e, st, u: None, l: None, d: d.d }
            };
            (mk(rng, a), mk(rng, b))
        } else if rng.chance(1, 2) {
            let x = rnd_member(rng, a);
            let y = if rng.chance(1, 6) { 0 } else { rnd_member(rng, b) };
            (Dom { s: x, e: x, st: 0, ..a.clone() }, Dom { s: y, e: y, st: 0, ..b.clone() })
        } else {
            (a.clone(), b.clone())
        };
        emit_bin(out, rng, op, &aa, &bb, cap, 4);
    }
}

/// everything that is run for one value
fn run_single(out: &mut Out, rng: &mut Rng, a: &Dom, cap: u64) {
    use CastOpType::*;
    use UnOpType::*;
    let w = a.w;
    emit_un(out, Int2Comp, a, cap);
    emit_un(out, IntNegate, a, cap);
    if rng.chance(1, 4) {
        emit_un(out, *rng.pick(&UN_OPS), a, cap);
    }
    if w == 8 && rng.chance(1, 3) {
        let x = rng.below(2) as i128;
        emit_un(out, BoolNegate, &Dom { s: x, e: x, st: 0, ..a.clone() }, cap);
        emit_un(out, BoolNegate, &Dom { s: 0, e: 1, st: 1, ..a.clone() }, cap);
    }
    let wider: Vec<usize> = [8usize, 16, 32, 64, 128].iter().copied().filter(|x| *x >= w).collect();
    emit_cast(out, IntZExt, a, *rng.pick(&wider), cap);
    emit_cast(out, IntSExt, a, *rng.pick(&wider), cap);
    let any = [8usize, 16, 32, 64];
    emit_cast(out, PopCount, a, *rng.pick(&any), cap);
    emit_cast(out, LzCount, a, *rng.pick(&any), cap);
    if rng.chance(1, 6) {
        emit_cast(out, *rng.pick(&[Int2Float, Float2Float, Trunc]), a, *rng.pick(&any), cap);
    }
    if w > 8 {
        // subpiece: low + size <= w
        let bytes = w / 8;
        let low = if rng.chance(1, 2) { 0 } else { rng.below(bytes as u64) as usize };
        let size = 1 + rng.below((bytes - low) as u64) as usize;
        emit_sub(out, a, low * 8, size * 8, cap);
        emit_sub(out, a, 0, *rng.pick(&[1usize, 2, 4]).min(&bytes) * 8, cap);
    } else if rng.chance(1, 8) {
        emit_sub(out, a, 0, 8, cap);
    }
    // contains: members, neighbours of members, bounds, random values
    for _ in 0..3 {
        let x = match rng.below(5) {
            0 => rnd_member(rng, a),
            1 => (rnd_member(rng, a) as u128).wrapping_add(1) as i128,
            2 => a.e.wrapping_add(a.st as i128),
            3 => a.s.wrapping_sub(a.st as i128),
            _ => rnd_val(rng, w),
        };
        let x = bv_norm(w, x);
        emit_contains(out, a, x);
    }
}

fn bv_norm(w: usize, x: i128) -> i128 {
    sv(&bv(w, x))
}

/// all well-formed 1-byte intervals
fn all_byte_intervals() -> Vec<(i128, i128, u64)> {
    let mut v = Vec::new();
    for s in -128i128..=127 {
        v.push((s, s, 0));
        for st in 1..=255i128 {
            let mut e = s + st;
            while e <= 127 {
                v.push((s, e, st as u64));
                e += st;
            }
        }
    }
    v
}

fn main() {
    if std::env::var("VERIF_LOUD").is_err() { quiet_panics(); }
    let args = Args::parse();
    let mut out = Out::new(
        &args,
        "well-formed strided intervals (with random widening hints and delays): 1-byte values (start, member count, stride) \
         and sampled 2/4/8-byte values (singletons, near-overflow bounds, strides 2^k / co-prime / huge); per pair IntAdd, IntSub, \
         IntMult, IntLeft, Piece + fall-through operations (with concrete triples from Bitvector::bin_op), per value un_op, casts, \
         subpiece, contains; non-trivial = result is not Top; distinct by (operation, inputs)",
    );
    let mut rng = Rng::new(args.seed);
    if let Some(lines) = args.replay_lines() {
        replay(&mut out, &mut rng, lines);
        out.finish();
        return;
    }
    let cap = args.num("cap", 40, 256);
    let pairs8 = args.num("pairs8", 5000, 40000);
    let pairsw = args.num("pairsw", 2500, 40000);
    let full8 = args.num("full8", 0, 1);
    // 1-byte values
    for _ in 0..pairs8 {
        let (ha, hb) = (rng.chance(1, 2), rng.chance(1, 2));
        let a = rnd_dom(&mut rng, 8, ha);
        let b = rnd_dom(&mut rng, 8, hb);
        run_pair(&mut out, &mut rng, &a, &b, cap, true);
        run_single(&mut out, &mut rng, &a, cap);
    }
    // wider values
    for _ in 0..pairsw {
        let w = *rng.pick(&[16usize, 32, 64, 64]);
        let a = rnd_dom(&mut rng, w, true);
        let b = rnd_dom(&mut rng, w, true);
        run_pair(&mut out, &mut rng, &a, &b, cap.min(24), true);
        run_single(&mut out, &mut rng, &a, cap.min(24));
    }
    // a few 16-byte values (multiplication is Top there; casts, piece results and subpiece inputs)
    for _ in 0..pairsw / 10 {
        let a = rnd_dom(&mut rng, 128, true);
        let b = rnd_dom(&mut rng, 128, true);
        emit_bin(&mut out, &mut rng, BinOpType::IntAdd, &a, &b, 16, 2);
        emit_bin(&mut out, &mut rng, BinOpType::IntSub, &a, &b, 16, 2);
        emit_bin(&mut out, &mut rng, BinOpType::IntMult, &a, &b, 16, 0);
        run_single(&mut out, &mut rng, &a, 16);
    }
    if full8 == 1 || args.tier == "thorough" {
        // the full space of well-formed 1-byte intervals against a stratified partner set
        let all = all_byte_intervals();
        out.exhaustive = true;
        let partners: Vec<Dom> = (0..48).map(|_| rnd_dom(&mut rng, 8, true)).collect();
        for (i, (s, e, st)) in all.iter().enumerate() {
            let hints = i % 3 == 0;
            let a = Dom {
                w: 8, s: *s, e: *e, st: *st,
                u: if hints { rnd_hint_upper(&mut rng, 8, *e) } else { None },
                l: if hints { rnd_hint_lower(&mut rng, 8, *s) } else { None },
                d: if hints { rnd_delay(&mut rng) } else { 0 },
            };
            for k in 0..3 {
                let b = &partners[(i * 7 + k * 13) % partners.len()];
                let op = SPECIAL[(i + k) % 3];
                emit_bin(&mut out, &mut rng, op, &a, b, 256, 1);
                if k == 0 {
                    emit_bin(&mut out, &mut rng, op, b, &a, 256, 1);
                }
            }
            if i % 4 == 0 {
                let n = (i / 4 % 10) as i128;
                emit_bin(&mut out, &mut rng, BinOpType::IntLeft, &a, &Dom { w: 8, s: n, e: n, st: 0, u: None, l: None, d: 0 }, 256, 1);
                emit_bin(&mut out, &mut rng, BinOpType::Piece, &a, &partners[i % partners.len()], 256, 1);
                emit_bin(&mut out, &mut rng, BinOpType::Piece, &partners[i % partners.len()], &a, 256, 1);
            }
            emit_un(&mut out, UnOpType::Int2Comp, &a, 256);
            emit_cast(&mut out, CastOpType::IntZExt, &a, [16usize, 32, 64, 128][i % 4], 256);
            emit_cast(&mut out, CastOpType::IntSExt, &a, [16usize, 32, 64, 128][(i + 1) % 4], 256);
            emit_cast(&mut out, CastOpType::LzCount, &a, 8, 256);
        }
    }
    out.finish();
}
