//! C07 harness: drives the real `fixpoint::Computation` (new / from_node_priority_list / compute /
//! compute_with_max_steps / has_stabilized / get_worklist) and `create_bottom_up_worklist` /
//! `create_top_down_worklist` on random monotone edge systems over two finite-height lattices.
use cwe_checker_lib::analysis::fixpoint::{Computation, Context};
use cwe_checker_lib::analysis::forward_interprocedural_fixpoint::{create_bottom_up_worklist, create_top_down_worklist};
use cwe_checker_lib::analysis::graph::get_program_cfg;
use cwe_checker_lib::intermediate_representation::*;
use petgraph::graph::{DiGraph, EdgeIndex, NodeIndex};
use petgraph::visit::EdgeRef;
use std::cell::RefCell;
use std::collections::{BTreeMap, BTreeSet};
use verif_harness::*;

/// transfer function attached to an edge
#[derive(Clone, Debug)]
enum Tf {
    /// S -> (S & keep) | gen | (if S & trig != 0 {extra} else {0}); None if block != 0 && S & block == 0
    Set { keep: u64, gen: u64, trig: u64, extra: u64, block: u64 },
    /// x -> min(cap, x*mul + add); None if x < thr
    Chain { thr: u64, mul: u64, add: u64, cap: u64 },
}

impl Tf {
    fn apply(&self, v: u64) -> Option<u64> {
        match *self {
            Tf::Set { keep, gen, trig, extra, block } => {
                if block != 0 && v & block == 0 {
                    None
                } else {
                    Some((v & keep) | gen | if v & trig != 0 { extra } else { 0 })
                }
            }
            Tf::Chain { thr, mul, add, cap } => {
                if v < thr {
                    None
                } else {
                    Some(std::cmp::min(cap, v * mul + add))
                }
            }
        }
    }
    fn to_json(&self) -> Vec<Value> {
        match *self {
            Tf::Set { keep, gen, trig, extra, block } => vec![json!("s"), json!(keep), json!(gen), json!(trig), json!(extra), json!(block)],
            Tf::Chain { thr, mul, add, cap } => vec![json!("c"), json!(thr), json!(mul), json!(add), json!(cap)],
        }
    }
    fn from_json(v: &[Value]) -> Tf {
        let n = |i: usize| v[i].as_u64().unwrap();
        match v[0].as_str().unwrap() {
            "s" => Tf::Set { keep: n(1), gen: n(2), trig: n(3), extra: n(4), block: n(5) },
            _ => Tf::Chain { thr: n(1), mul: n(2), add: n(3), cap: n(4) },
        }
    }
}

/// Watchdog: the theorems bound the loop iterations by n*(2H+3) <= 40*29; far beyond that the real solver
/// is considered non-terminating (the Context panics, the case is reported as `panic:budget…`).
const BUDGET: u64 = 200_000;

/// The fixpoint context handed to the real solver; counts every call.
struct Ctx<'g, N, E: Clone> {
    graph: &'g DiGraph<N, E>,
    tfs: &'g [Tf],
    chain: bool,
    ecnt: &'g RefCell<Vec<u64>>,
    merges: &'g RefCell<u64>,
}

impl<'g, N, E: Clone> Context for Ctx<'g, N, E> {
    type EdgeLabel = E;
    type NodeLabel = N;
    type NodeValue = u64;
    fn get_graph(&self) -> &DiGraph<N, E> {
        self.graph
    }
    fn merge(&self, a: &u64, b: &u64) -> u64 {
        *self.merges.borrow_mut() += 1;
        if *self.merges.borrow() > BUDGET {
            panic!("budget exceeded: solver does not terminate");
        }
        if self.chain {
            std::cmp::max(*a, *b)
        } else {
            *a | *b
        }
    }
    fn update_edge(&self, value: &u64, edge: EdgeIndex) -> Option<u64> {
        self.ecnt.borrow_mut()[edge.index()] += 1;
        if self.ecnt.borrow()[edge.index()] > BUDGET {
            panic!("budget exceeded: solver does not terminate");
        }
        self.tfs[edge.index()].apply(*value)
    }
}

/// An instance: graph shape (by edge endpoints, in EdgeIndex order), transfers, lattice, start.
#[derive(Clone)]
struct Problem {
    chain: bool,
    n: usize,
    edges: Vec<(usize, usize)>,
    tfs: Vec<Tf>,
    default: Option<u64>,
    start: Vec<(usize, u64)>,
}

fn snapshot<T: Context<NodeValue = u64>>(c: &Computation<T>, n: usize) -> (Value, Value, bool) {
    let vals: Vec<Value> = (0..n)
        .map(|i| match c.get_node_value(NodeIndex::new(i)) {
            Some(v) => json!(*v),
            None => Value::Null,
        })
        .collect();
    let wl: Vec<Value> = c.get_worklist().iter().map(|x| json!(x.index())).collect();
    (Value::Array(vals), Value::Array(wl), c.has_stabilized())
}

/// Run the real solver. `ctor`: "new" (Kosaraju order computed inside) or "list" (explicit priority list).
fn run_real<N, E: Clone>(g: &DiGraph<N, E>, p: &Problem, ctor: &str, prio: &[usize], mode: &str, k: u64) -> Value {
    let ecnt = RefCell::new(vec![0u64; p.edges.len()]);
    let merges = RefCell::new(0u64);
    let r = catch(std::panic::AssertUnwindSafe(|| {
        let ctx = Ctx { graph: g, tfs: &p.tfs, chain: p.chain, ecnt: &ecnt, merges: &merges };
        let mut comp = if ctor == "new" {
            Computation::new(ctx, p.default)
        } else {
            Computation::from_node_priority_list(ctx, p.default, prio.iter().map(|i| NodeIndex::new(*i)).collect())
        };
        for (node, v) in p.start.iter() {
            comp.set_node_value(NodeIndex::new(*node), *v);
        }
        let mut res = serde_json::Map::new();
        match mode {
            "compute" => comp.compute(),
            _ => comp.compute_with_max_steps(k),
        }
        let (vals, wl, stab) = snapshot(&comp, p.n);
        res.insert("vals".into(), vals);
        res.insert("wl".into(), wl);
        res.insert("stab".into(), json!(stab));
        res.insert("ecnt".into(), json!(ecnt.borrow().clone()));
        if mode == "resume" {
            comp.compute();
            let (vals, wl, stab) = snapshot(&comp, p.n);
            res.insert("vals2".into(), vals);
            res.insert("wl2".into(), wl);
            res.insert("stab2".into(), json!(stab));
        }
        Value::Object(res)
    }));
    match r {
        Ok(v) => v,
        Err(m) => json!(format!("panic:{}", m.replace(' ', "_"))),
    }
}

fn plain_graph(p: &Problem) -> DiGraph<(), ()> {
    let mut g = DiGraph::new();
    for _ in 0..p.n {
        g.add_node(());
    }
    for (s, d) in p.edges.iter() {
        g.add_edge(NodeIndex::new(*s), NodeIndex::new(*d), ());
    }
    g
}

fn case_json(p: &Problem, shape: &str, ctor: &str, prio: &[usize], mode: &str, k: u64) -> serde_json::Map<String, Value> {
    let mut m = serde_json::Map::new();
    m.insert("lat".into(), json!(if p.chain { "chain" } else { "set" }));
    m.insert("shape".into(), json!(shape));
    m.insert("n".into(), json!(p.n));
    let es: Vec<Value> = p
        .edges
        .iter()
        .zip(p.tfs.iter())
        .map(|((s, d), t)| {
            let mut v = vec![json!(s), json!(d)];
            v.extend(t.to_json());
            Value::Array(v)
        })
        .collect();
    m.insert("edges".into(), Value::Array(es));
    m.insert("def".into(), match p.default { Some(d) => json!(d), None => Value::Null });
    m.insert("start".into(), json!(p.start.iter().map(|(a, b)| vec![*a as u64, *b]).collect::<Vec<_>>()));
    m.insert("ctor".into(), json!(ctor));
    m.insert("prio".into(), json!(prio));
    m.insert("mode".into(), json!(mode));
    m.insert("k".into(), json!(k));
    m
}

fn emit<N, E: Clone>(out: &mut Out, g: &DiGraph<N, E>, p: &Problem, shape: &str, ctor: &str, prio: &[usize], mode: &str, k: u64) {
    let r = run_real(g, p, ctor, prio, mode, k);
    let mut m = case_json(p, shape, ctor, prio, mode, k);
    let nontrivial = match &r {
        Value::Object(o) => o["ecnt"].as_array().unwrap().iter().any(|c| c.as_u64().unwrap() > 0),
        _ => false,
    };
    if let Value::Object(o) = &r {
        if !o["stab"].as_bool().unwrap() {
            out.count("res:not-stabilized");
        } else {
            out.count("res:stabilized");
        }
        let maxc = o["ecnt"].as_array().unwrap().iter().map(|c| c.as_u64().unwrap()).max().unwrap_or(0);
        out.count(&format!("max-edge-evals:{}", if maxc >= 4 { "4+".to_string() } else { maxc.to_string() }));
    } else {
        out.count("res:panic");
    }
    out.count(&format!("mode:{}", mode));
    out.count(&format!("ctor:{}", ctor));
    out.count(&format!("shape:{}", shape));
    out.count(&format!("lat:{}", if p.chain { "chain" } else { "set" }));
    m.insert("impl".into(), r);
    let key = {
        let mut k2 = m.clone();
        k2.remove("impl");
        Value::Object(k2).to_string()
    };
    out.case(&Value::Object(m).to_string(), if nontrivial { Some(&key) } else { None });
}

// ---------------------------------------------------------------------------------- generators

fn bits(rng: &mut Rng, max_bits: u64) -> u64 {
    let mut v = 0;
    for _ in 0..rng.below(max_bits + 1) {
        v |= 1 << rng.below(6);
    }
    v
}

fn gen_tf(rng: &mut Rng, chain: bool, cap: u64) -> Tf {
    if chain {
        let thr = if rng.chance(2, 3) { 0 } else { rng.below(cap + 2) };
        let mul = *rng.pick(&[0u64, 1, 1, 1, 1, 2]);
        let add = *rng.pick(&[0u64, 0, 1, 1, 2, 3]);
        Tf::Chain { thr, mul, add, cap }
    } else {
        let keep = match rng.below(6) {
            0 => 0,
            1 | 2 => 0x3f,
            _ => rng.below(64),
        };
        let gen = if rng.chance(1, 2) { 0 } else { bits(rng, 2) };
        let trig = if rng.chance(1, 3) { 0 } else { bits(rng, 2) };
        let extra = bits(rng, 3);
        let block = if rng.chance(3, 5) { 0 } else { bits(rng, 2) };
        Tf::Set { keep, gen, trig, extra, block }
    }
}

fn gen_start(rng: &mut Rng, n: usize, chain: bool, cap: u64) -> (Option<u64>, Vec<(usize, u64)>) {
    let val = |rng: &mut Rng| if chain { rng.below(cap + 1) } else { if rng.chance(1, 4) { 0 } else { bits(rng, 3) } };
    let default = if rng.chance(3, 5) { None } else { Some(if rng.chance(1, 2) { 0 } else { val(rng) }) };
    let k = match rng.below(8) {
        0 => 0,
        1..=4 => 1,
        5 | 6 => 2,
        _ => 3,
    };
    let mut start = Vec::new();
    for _ in 0..k {
        start.push((rng.below(n as u64) as usize, val(rng)));
    }
    (default, start)
}

fn gen_problem(rng: &mut Rng, n: usize) -> (Problem, &'static str) {
    let chain = rng.chance(1, 3);
    let cap = if rng.chance(1, 5) { 1 + rng.below(12) } else { 1 + rng.below(5) };
    let mut edges = Vec::new();
    let shape = match rng.below(4) {
        0 => {
            // a path through all nodes with back edges (loops) and shortcuts
            for i in 0..n.saturating_sub(1) {
                edges.push((i, i + 1));
            }
            for _ in 0..rng.below(4) {
                let a = rng.below(n as u64) as usize;
                let b = rng.below(n as u64) as usize;
                edges.push((std::cmp::max(a, b), std::cmp::min(a, b)));
            }
            for _ in 0..rng.below(3) {
                edges.push((rng.below(n as u64) as usize, rng.below(n as u64) as usize));
            }
            rng.shuffle(&mut edges);
            "path+loops"
        }
        1 => {
            // dense small multigraph: duplicates and self-loops are likely
            let m = rng.below(3 * n as u64 + 3);
            for _ in 0..m {
                let a = rng.below(n as u64) as usize;
                let b = if rng.chance(1, 6) { a } else { rng.below(n as u64) as usize };
                edges.push((a, b));
                if rng.chance(1, 6) {
                    edges.push((a, b));
                }
            }
            "multi"
        }
        _ => {
            let m = rng.below(2 * n as u64 + 2);
            for _ in 0..m {
                edges.push((rng.below(n as u64) as usize, rng.below(n as u64) as usize));
            }
            "random"
        }
    };
    let tfs = edges.iter().map(|_| gen_tf(rng, chain, cap)).collect();
    let (default, start) = gen_start(rng, n, chain, cap);
    (Problem { chain, n, edges, tfs, default, start }, shape)
}

fn permutations(n: usize) -> Vec<Vec<usize>> {
    fn rec(cur: &mut Vec<usize>, used: &mut Vec<bool>, n: usize, out: &mut Vec<Vec<usize>>) {
        if cur.len() == n {
            out.push(cur.clone());
            return;
        }
        for i in 0..n {
            if !used[i] {
                used[i] = true;
                cur.push(i);
                rec(cur, used, n, out);
                cur.pop();
                used[i] = false;
            }
        }
    }
    let mut out = Vec::new();
    rec(&mut Vec::new(), &mut vec![false; n], n, &mut out);
    out
}

fn kosaraju<N, E>(g: &DiGraph<N, E>) -> Vec<usize> {
    petgraph::algo::kosaraju_scc(g).into_iter().flatten().map(|x| x.index()).collect()
}

/// all runs for one (graph, problem, priority list)
fn emit_orders<N, E: Clone>(out: &mut Out, rng: &mut Rng, g: &DiGraph<N, E>, p: &Problem, shape: &str, ctor: &str, prio: &[usize], full: bool) {
    emit(out, g, p, shape, ctor, prio, "compute", 0);
    let ks: Vec<u64> = if full { vec![1, 2, 3, 1 + rng.below(8), 500] } else { vec![*rng.pick(&[1u64, 1, 2, 2, 3, 4, 6, 500])] };
    for k in ks {
        emit(out, g, p, shape, ctor, prio, "bounded", k);
    }
    if full || rng.chance(1, 4) {
        emit(out, g, p, shape, ctor, prio, "resume", 1 + rng.below(2));
    }
}

// CFG-shaped graphs through the real graph builder --------------------------------------------

fn blk(name: String, jmps: Vec<Term<Jmp>>) -> Term<Blk> {
    Term { tid: Tid::new(name), term: Blk { defs: vec![], jmps, indirect_jmp_targets: vec![] } }
}

fn gen_program(rng: &mut Rng) -> Term<Program> {
    let nsubs = 1 + rng.below(3) as usize;
    let nblocks: Vec<usize> = (0..nsubs).map(|_| 1 + rng.below(3) as usize).collect();
    let bt = |s: usize, b: usize| Tid::new(format!("blk_{}_{}", s, b));
    let st = |s: usize| Tid::new(format!("sub_{}", s));
    let one = Expression::Const(Bitvector::from_u8(1));
    let mut subs = BTreeMap::new();
    let mut jc = 0;
    for s in 0..nsubs {
        let mut blocks = Vec::new();
        for b in 0..nblocks[s] {
            let mut jmps = Vec::new();
            let mut jt = |j: Jmp| {
                jc += 1;
                Term { tid: Tid::new(format!("jmp_{}", jc)), term: j }
            };
            match rng.below(5) {
                0 => jmps.push(jt(Jmp::Return(one.clone()))),
                1 => jmps.push(jt(Jmp::Branch(bt(s, rng.below(nblocks[s] as u64) as usize)))),
                2 => {
                    jmps.push(jt(Jmp::CBranch { target: bt(s, rng.below(nblocks[s] as u64) as usize), condition: one.clone() }));
                    jmps.push(jt(Jmp::Branch(bt(s, rng.below(nblocks[s] as u64) as usize))));
                }
                _ => {
                    let callee = rng.below(nsubs as u64) as usize;
                    let ret = if rng.chance(5, 6) { Some(bt(s, rng.below(nblocks[s] as u64) as usize)) } else { None };
                    jmps.push(jt(Jmp::Call { target: st(callee), return_: ret }));
                }
            }
            blocks.push(blk(format!("blk_{}_{}", s, b), jmps));
        }
        // make sure most functions return
        if rng.chance(4, 5) {
            let last = blocks.len() - 1;
            if !matches!(blocks[last].term.jmps.last().map(|j| &j.term), Some(Jmp::Return(_))) && blocks[last].term.jmps.len() < 2 {
                jc += 1;
                if matches!(blocks[last].term.jmps.last().map(|j| &j.term), Some(Jmp::Branch(_))) {
                    blocks[last].term.jmps.clear();
                }
                if blocks[last].term.jmps.is_empty() {
                    blocks[last].term.jmps.push(Term { tid: Tid::new(format!("jmp_{}", jc)), term: Jmp::Return(one.clone()) });
                }
            }
        }
        subs.insert(st(s), Term { tid: st(s), term: Sub { name: format!("sub_{}", s), blocks, calling_convention: None } });
    }
    Term {
        tid: Tid::new("prog"),
        term: Program { subs, extern_symbols: BTreeMap::new(), entry_points: BTreeSet::new(), address_base_offset: 0 },
    }
}

fn cfg_cases(out: &mut Out, rng: &mut Rng, count: u64) {
    for _ in 0..count {
        let prog = gen_program(rng);
        let graph = match catch(std::panic::AssertUnwindSafe(|| get_program_cfg(&prog))) {
            Ok(g) => g,
            Err(_) => {
                out.count("cfg:builder-panic");
                continue;
            }
        };
        let n = graph.node_count();
        if n == 0 || n > 40 {
            out.count("cfg:skipped-size");
            continue;
        }
        let chain = rng.chance(1, 3);
        let cap = 1 + rng.below(5);
        let edges: Vec<(usize, usize)> = graph.edge_references().map(|e| (e.source().index(), e.target().index())).collect();
        let tfs: Vec<Tf> = edges.iter().map(|_| gen_tf(rng, chain, cap)).collect();
        let (default, start) = gen_start(rng, n, chain, cap);
        let p = Problem { chain, n, edges, tfs, default, start };
        let bu: Vec<usize> = create_bottom_up_worklist(&graph).iter().map(|x| x.index()).collect();
        let td: Vec<usize> = create_top_down_worklist(&graph).iter().map(|x| x.index()).collect();
        if bu != td {
            out.count("cfg:bottom-up!=top-down");
        }
        emit_orders(out, rng, &graph, &p, "cfg-bottom-up", "list", &bu, false);
        emit_orders(out, rng, &graph, &p, "cfg-top-down", "list", &td, false);
        let ko = kosaraju(&graph);
        emit_orders(out, rng, &graph, &p, "cfg", "new", &ko, false);
        // the backward interprocedural fixpoint uses the same worklist constructors on the REVERSED graph
        let mut rgraph = graph.clone();
        rgraph.reverse();
        let redges: Vec<(usize, usize)> = rgraph.edge_references().map(|e| (e.source().index(), e.target().index())).collect();
        let rp = Problem { edges: redges, ..p.clone() };
        let rbu: Vec<usize> = create_bottom_up_worklist(&rgraph).iter().map(|x| x.index()).collect();
        let rtd: Vec<usize> = create_top_down_worklist(&rgraph).iter().map(|x| x.index()).collect();
        emit_orders(out, rng, &rgraph, &rp, "cfg-reversed-bottom-up", "list", &rbu, false);
        emit_orders(out, rng, &rgraph, &rp, "cfg-reversed-top-down", "list", &rtd, false);
    }
}

fn replay(out: &mut Out, line: &str) {
    let v: Value = serde_json::from_str(line).expect("replay line");
    let n = v["n"].as_u64().unwrap() as usize;
    let mut edges = Vec::new();
    let mut tfs = Vec::new();
    for e in v["edges"].as_array().unwrap() {
        let a = e.as_array().unwrap();
        edges.push((a[0].as_u64().unwrap() as usize, a[1].as_u64().unwrap() as usize));
        tfs.push(Tf::from_json(&a[2..]));
    }
    let p = Problem {
        chain: v["lat"].as_str().unwrap() == "chain",
        n,
        edges,
        tfs,
        default: v["def"].as_u64(),
        start: v["start"].as_array().unwrap().iter().map(|x| (x[0].as_u64().unwrap() as usize, x[1].as_u64().unwrap())).collect(),
    };
    let prio: Vec<usize> = v["prio"].as_array().unwrap().iter().map(|x| x.as_u64().unwrap() as usize).collect();
    let g = plain_graph(&p);
    // the priority list of "new" is recomputed by the real code; cfg shapes are replayed on the plain
    // graph with the recorded priority list
    let ctor = v["ctor"].as_str().unwrap();
    let shape = v["shape"].as_str().unwrap_or("replay");
    let (ctor, prio) = if ctor == "new" && !shape.starts_with("cfg") { ("new", kosaraju(&g)) } else { ("list", prio) };
    emit(out, &g, &p, shape, ctor, &prio, v["mode"].as_str().unwrap(), v["k"].as_u64().unwrap_or(0));
}

fn main() {
    quiet_panics();
    let args = Args::parse();
    let mut out = Out::new(
        &args,
        "random multigraphs (1-12 nodes, self-loops, parallel edges) and CFGs built by get_program_cfg, monotone \
         gen/kill/trigger transfers with blocking edges over P{0..5} and capped-add transfers over chains; priority lists: \
         Computation::new (Kosaraju), identity, reverse, all permutations (small n) or random ones, bottom-up/top-down \
         worklists; compute, compute_with_max_steps(k), and bounded-then-compute; non-trivial = at least one edge transfer \
         was evaluated; distinct by (problem, start, priority list, mode, k)",
    );
    if let Some(lines) = args.replay_lines() {
        for line in lines {
            replay(&mut out, &line);
        }
        out.finish();
        return;
    }
    let mut rng = Rng::new(args.seed);
    let problems = args.num("problems", 900, 25000);
    let all_perm_max = args.num("allperm", 4, 6) as usize;
    let rand_perms = args.num("randperms", 6, 30);
    let all_perm_problems = args.num("allpermproblems", 40, 150);
    let mut all_perm_done = 0;
    for pi in 0..problems {
        let n = match rng.below(10) {
            0 => 1,
            1 | 2 => 2 + rng.below(2) as usize,
            3..=6 => 4 + rng.below(3) as usize,
            _ => 7 + rng.below(6) as usize,
        };
        let (p, shape) = gen_problem(&mut rng, n);
        let g = plain_graph(&p);
        let ko = kosaraju(&g);
        emit_orders(&mut out, &mut rng, &g, &p, shape, "new", &ko, pi % 8 == 0);
        let id: Vec<usize> = (0..n).collect();
        let rev: Vec<usize> = (0..n).rev().collect();
        emit_orders(&mut out, &mut rng, &g, &p, shape, "list", &id, false);
        emit_orders(&mut out, &mut rng, &g, &p, shape, "list", &rev, false);
        if n <= all_perm_max && n >= 3 && all_perm_done < all_perm_problems {
            all_perm_done += 1;
            out.count(&format!("all-permutations:n={}", n));
            for perm in permutations(n) {
                emit(&mut out, &g, &p, shape, "list", &perm, "compute", 0);
                let k = 1 + rng.below(3);
                emit(&mut out, &g, &p, shape, "list", &perm, "bounded", k);
            }
        } else {
            for _ in 0..rand_perms {
                let mut perm = id.clone();
                rng.shuffle(&mut perm);
                emit_orders(&mut out, &mut rng, &g, &p, shape, "list", &perm, false);
            }
        }
    }
    let cfgs = args.num("cfgs", 200, 5000);
    cfg_cases(&mut out, &mut rng, cfgs);
    out.finish();
}
