//! C23 harness: runs the REAL `cwe_checker` command-line binary N times in fresh processes (fresh
//! `RandomState` hash seeds, fresh thread schedules; the `--partial` list in a different order each
//! time) on the same generated input and records the distinct (exit, stderr, stdout) results.
#[path = "../cli.rs"]
mod cli;
use cli::*;
use verif_harness::*;

struct Item {
    recipe: Option<Recipe>,
    inline: Option<(Input, bool)>,
    /// per run: the `--partial` argument (None = default selection)
    partials: Vec<Option<String>>,
    mode: &'static str,
}

/// `--irdump DIR`: run the front half of the pipeline (P-Code project -> IR, `normalize_basic`,
/// `normalize_optimize`) in THIS process on DIR/pcode.json + DIR/input.elf and print a digest of the
/// resulting IR (one line per function + one for the whole program). Called in fresh processes.
fn ir_dump(dir: &str) {
    use std::hash::{Hash, Hasher};
    let binary = std::fs::read(format!("{}/input.elf", dir)).expect("elf");
    let pcode: cwe_checker_lib::pcode::Project =
        serde_json::from_str(&std::fs::read_to_string(format!("{}/pcode.json", dir)).expect("pcode")).expect("pcode json");
    let (mut project, _) = cwe_checker_lib::utils::ghidra::parse_pcode_project_to_ir_project(pcode, &binary, &None).expect("ir");
    let _ = project.normalize_basic();
    let _ = project.normalize_optimize();
    // `Debug` of the program term is canonical: all its maps are BTreeMaps/BTreeSets; fixed-key hasher
    let digest = |s: &str| {
        #[allow(deprecated)]
        let mut h = std::hash::SipHasher::new_with_keys(1, 2);
        s.hash(&mut h);
        h.finish()
    };
    if std::env::var("C23_IRTEXT").is_ok() {
        for sub in project.program.term.subs.values() {
            for b in sub.term.blocks.iter() {
                println!(" BLK {}", b.tid);
                for d in b.term.defs.iter() {
                    println!("   {}: {}", d.tid, d.term);
                }
                for j in b.term.jmps.iter() {
                    println!("   {}: {}", j.tid, j.term);
                }
            }
        }
    }
    for (tid, sub) in project.program.term.subs.iter() {
        let text = format!("{:?}", sub);
        println!("{} {:016x} {}", tid, digest(&text), text.len());
    }
    println!("program {:016x}", digest(&format!("{:?}", project.program)));
}

fn main() {
    let args = Args::parse();
    if let Some(d) = args.extra.get("irdump") {
        ir_dump(d);
        return;
    }
    let mut out = Out::new(
        &args,
        "real cwe_checker CLI run repeatedly in fresh processes on the same generated input (random multi-function \
         x86-64 programs with blocks shared between functions and many temporaries, and check-trigger programs; \
         PIE / EXEC / kernel-module ELF), all checks with the --partial list permuted per run, or the default \
         selection; byte comparison of stdout; non-trivial = input whose output contains at least one warning; \
         distinct by input",
    );
    let cli = match build_cli() {
        Ok(c) => c,
        Err(e) => {
            eprintln!("{}", e);
            std::process::exit(3);
        }
    };
    let root = scratch_root();
    let all_names = cli_module_names(&cli);
    if all_names.is_empty() {
        eprintln!("--module-versions of the real CLI lists no modules");
        std::process::exit(3);
    }
    let avail_lkm = names_runnable_with_lkm_config(&cli, &root, &all_names);
    let limit = args.num("limit_s", 60, 60);
    let nruns = args.num("runs", 8, 64) as usize;

    let mut items: Vec<Item> = Vec::new();
    if let Some(lines) = args.replay_lines() {
        for line in lines {
            let v: Value = serde_json::from_str(&line).expect("replay line");
            let mut partials: Vec<Option<String>> =
                v["partials"].as_array().map(|a| a.iter().map(|p| p.as_str().map(|s| s.to_string())).collect()).unwrap_or_default();
            if partials.is_empty() {
                // corpus line without explicit selections: all checks, permuted per run
                let mut rng = Rng::new(args.seed);
                for _ in 0..nruns {
                    let mut names = all_names.clone();
                    rng.shuffle(&mut names);
                    partials.push(Some(names.join(",")));
                }
            }
            if v.get("proj").is_some() {
                items.push(Item { recipe: None, inline: Some((Input::from_json(&v), v["cfg_lkm"].as_bool().unwrap_or(false))), partials, mode: "replay" });
            } else {
                items.push(Item { recipe: Some(Recipe::from_json(&v["gen"])), inline: None, partials, mode: "replay" });
            }
        }
    } else {
        let mut rng = Rng::new(args.seed);
        let n_inputs = args.num("inputs", 40, 300) as usize;
        // directed programs that are part of every run: two equally eligible candidates on diverging paths
        let mut fixed: Vec<Recipe> = Recipe::always_diverge();
        fixed.extend(Recipe::always_isolated());
        fixed.extend(Recipe::always_uaf());
        fixed.extend(Recipe::always_chains());
        let n_fixed = fixed.len();
        for i in 0..n_inputs + n_fixed {
            let mut rc = if i < n_fixed {
                fixed[i].clone()
            } else {
                match if args.extra.contains_key("only_deep_chain") { 8 } else if args.extra.contains_key("only_twin") { 12 } else { rng.below(13) } {
                    0..=3 => Recipe::random_program(&mut rng),
                    4..=6 => Recipe::random_shared(&mut rng),
                    7 => if rng.chance(1, 2) { Recipe::random_diverge(&mut rng) } else { Recipe::random_isolated(&mut rng) },
                    8 => Recipe::random_deep_chain(&mut rng),
                    12 => Recipe::random_twin_chain(&mut rng),
                    _ => Recipe::random_gadget(&mut rng),
                }
            };
            if rc.g == "special" {
            } else if rc.g == "random" {
                rc.shared = !rng.chance(1, 5);
            } else {
                rc.extra = 1 + rng.below(3) as usize;
            }
            let avail: &Vec<String> = if rc.cfg_lkm { &avail_lkm } else { &all_names };
            let default_sel = rng.chance(3, 10);
            let mut partials = Vec::new();
            for _ in 0..nruns {
                if default_sel {
                    partials.push(None);
                } else {
                    let mut v = avail.clone();
                    rng.shuffle(&mut v);
                    partials.push(Some(v.join(",")));
                }
            }
            items.push(Item { recipe: Some(rc), inline: None, partials, mode: if default_sel { "default" } else { "all-permuted" } });
        }
    }

    let th = threads();
    let prepared: Vec<(Input, Files, String, bool)> = parallel(&items, th, |i, it| {
        let (inp, cfg_lkm) = match (&it.recipe, &it.inline) {
            (Some(rc), _) => (rc.build(), rc.cfg_lkm),
            (None, Some((inp, c))) => (inp.clone(), *c),
            _ => unreachable!(),
        };
        let files = write_input(&root, i, &inp);
        (inp, files, config_path(cfg_lkm), cfg_lkm)
    });
    // flat job list (input, run)
    let mut jobs: Vec<(usize, usize)> = Vec::new();
    for (i, it) in items.iter().enumerate() {
        for r in 0..it.partials.len() {
            jobs.push((i, r));
        }
    }
    let results: Vec<RunResult> = parallel(&jobs, th, |_, &(i, r)| {
        let (_, files, cfgp, _) = &prepared[i];
        run_cli(&cli, files, cfgp, items[i].partials[r].as_deref(), limit)
    });

    // second stream: the normalised IR (the input of every check) must be identical in fresh processes
    let me = std::env::current_exe().expect("current exe");
    let ir_jobs: Vec<(usize, usize)> = (0..items.len()).flat_map(|i| (0..nruns.min(8)).map(move |r| (i, r))).collect();
    let ir_results: Vec<RunResult> = parallel(&ir_jobs, th, |_, &(i, _)| {
        let (_, files, _, _) = &prepared[i];
        let mut cmd = std::process::Command::new(&me);
        cmd.arg("--irdump").arg(&files.dir);
        run_limited(cmd, std::time::Duration::from_secs(limit))
    });
    let mut ir_k = 0;
    let mut ir_lines: Vec<String> = Vec::new();
    for (i, it) in items.iter().enumerate() {
        let (inp, _, _, cfg_lkm) = &prepared[i];
        let mut distinct: Vec<(i64, String, u64)> = Vec::new();
        for _ in 0..nruns.min(8) {
            let r = &ir_results[ir_k];
            ir_k += 1;
            let exit: i64 = if r.timed_out { -2 } else { r.exit.unwrap_or(-1) as i64 };
            let outp = if exit == 0 { r.stdout.clone() } else { format!("exit {} {}", exit, panic_location(&r.stderr)) };
            if let Some(d) = distinct.iter_mut().find(|d| d.0 == exit && d.1 == outp) {
                d.2 += 1;
            } else {
                distinct.push((exit, outp, 1));
            }
        }
        let mut line = json!({
            "mode": "ir",
            "runs": nruns.min(8),
            "cfg_lkm": cfg_lkm,
            "partials": Vec::<Option<String>>::new(),
            "distinct": distinct.iter().map(|d| json!({"exit": d.0, "stderr": "", "stdout": d.1, "n": d.2})).collect::<Vec<_>>(),
        });
        if let Some(rc) = &it.recipe {
            line["gen"] = rc.json();
        }
        if distinct.len() > 1 || it.recipe.is_none() {
            line["proj"] = json!(inp.project);
            line["elf"] = json!(hex(&inp.elf));
        }
        out.count(&format!("ir_distinct_digests:{}", distinct.len()));
        ir_lines.push(line.to_string());
    }

    let mut k = 0;
    for (i, it) in items.iter().enumerate() {
        let (inp, _, _, cfg_lkm) = &prepared[i];
        let mut distinct: Vec<(i64, String, String, u64)> = Vec::new();
        for _ in 0..it.partials.len() {
            let r = &results[k];
            k += 1;
            out.count_n("cli_ms_total", r.ms);
            let exit: i64 = if r.timed_out { -2 } else { r.exit.unwrap_or(-1) as i64 };
            // the panic message of an invalid run contains no addresses of the process; keep it whole
            let stderr: String = r.stderr.chars().take(400).collect();
            if let Some(d) = distinct.iter_mut().find(|d| d.0 == exit && d.1 == stderr && d.2 == r.stdout) {
                d.3 += 1;
            } else {
                distinct.push((exit, stderr, r.stdout.clone(), 1));
            }
        }
        let nwarn = serde_json::from_str::<Value>(&distinct[0].2).ok().and_then(|v| v.as_array().map(|a| a.len())).unwrap_or(0);
        let mut line = json!({
            "mode": it.mode,
            "runs": it.partials.len(),
            "lkm": inp.is_lkm,
            "cfg_lkm": cfg_lkm,
            "partials": it.partials,
            "distinct": distinct.iter().map(|d| json!({"exit": d.0, "stderr": d.1, "stdout": d.2, "n": d.3})).collect::<Vec<_>>(),
        });
        if let Some(rc) = &it.recipe {
            line["gen"] = rc.json();
            out.count(&format!("gen:{}:{:?}", rc.g, rc.kind));
            if inp.features.iter().any(|f| f == "shared-blocks") {
                out.count("feature:shared-blocks");
            }
        }
        if distinct.len() > 1 || it.recipe.is_none() {
            line["proj"] = json!(inp.project);
            line["elf"] = json!(hex(&inp.elf));
        }
        out.count(&format!("mode:{}", it.mode));
        out.count(&format!("distinct_outputs:{}", distinct.len()));
        out.count_n("cli_runs", it.partials.len() as u64);
        out.count_n("warnings_in_first_output", nwarn as u64);
        let key = format!("{}", i);
        out.case(&line.to_string(), if nwarn > 0 { Some(&key) } else { None });
    }
    for l in ir_lines.iter() {
        out.case(l, None);
    }
    let _ = std::fs::remove_dir_all(&root);
    out.finish();
}
