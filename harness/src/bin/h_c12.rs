//! C12 harness: generates well-sized IR programs rich in piece/subpiece/cast nesting and sub-register
//! idioms, runs the REAL `normalize_basic()` and then the REAL `normalize_optimize()` (together:
//! `Project::normalize()`), and writes the program before and after the optimizing passes. The Lean
//! driver runs the executable `WellSized` checker on the real output and the composed pass models.
//!
//! Second stream (the lifting half, end to end): generated P-Code projects (generator of `h_c11.rs`)
//! -> REAL `parse_pcode_project_to_ir_project` (P-Code normalization, `into_ir_project`, sub-register
//! replacement) -> REAL `Project::normalize()`; case line `{"pcode": .., "lifted": <program>, "norm": <program>}`.
//! The driver evaluates the domain (`projectOk`, `projectSized`) and runs the checker on both programs.
use cwe_checker_lib::intermediate_representation::*;
use cwe_checker_lib::utils::ghidra::parse_pcode_project_to_ir_project;
use std::collections::BTreeMap;
use verif_harness::ir::*;
use verif_harness::*;

#[path = "c10_common/mod.rs"]
mod common;
use common::*;

#[path = "h_c11.rs"]
#[allow(dead_code)]
mod pcode_gen;

/// P-Code stream: real lifting, then real `normalize()`; `(case line, lifted and normalized without panic)`
fn pcode_case_line(pcode_json: &Value, out: &mut Out) -> (String, bool) {
    out.count("stream:pcode");
    let project: cwe_checker_lib::pcode::Project = match serde_json::from_value(pcode_json.clone()) {
        Ok(p) => p,
        Err(e) => {
            let line = json!({"pcode": pcode_json, "lifted": format!("parse-error:{}", e), "norm": Value::Null});
            return (line.to_string(), false);
        }
    };
    let r = catch(move || parse_pcode_project_to_ir_project(project, &[], &None));
    let (lifted, norm, ok) = match r {
        Ok(Ok((ir, _logs))) => {
            let lifted = program_to_json(&ir.program.term);
            let n = catch(std::panic::AssertUnwindSafe(move || {
                let mut q = ir;
                let _ = q.normalize();
                q
            }));
            match n {
                Ok(q) => {
                    let norm = program_to_json(&q.program.term);
                    let s = norm.to_string();
                    out.count_n("norm:piece", s.matches("\"Piece\"").count() as u64);
                    out.count_n("norm:subpiece", s.matches("\"Subpiece\"").count() as u64);
                    out.count_n("norm:loaded_value", s.matches("loaded_value").count() as u64);
                    (lifted, norm, true)
                }
                Err(p) => {
                    out.count("pcode:normalize-panic");
                    (lifted, Value::String(panic_token(&p)), false)
                }
            }
        }
        Ok(Err(e)) => (json!(format!("error:{}", e)), Value::Null, false),
        Err(p) => {
            out.count("pcode:lift-panic");
            (Value::String(panic_token(&p)), Value::Null, false)
        }
    };
    let line = json!({"pcode": pcode_json, "lifted": lifted, "norm": norm});
    (line.to_string(), ok)
}

fn case_line(pb: &Project, out: &mut Out) -> (String, bool) {
    let mut p = pb.clone();
    let r = catch(std::panic::AssertUnwindSafe(move || {
        let _ = p.normalize_optimize();
        p
    }));
    let (o, changed) = match r {
        Ok(q) => {
            let changed = q.program.term != pb.program.term;
            (program_to_json(&q.program.term), changed)
        }
        Err(p) => {
            out.count("panic");
            (Value::String(panic_token(&p)), true)
        }
    };
    let line = json!({"arch": pb.cpu_architecture, "pb": program_to_json(&pb.program.term), "out": o});
    (line.to_string(), changed)
}

fn main() {
    quiet_panics();
    let args = Args::parse();
    let mut out = Out::new(
        &args,
        "generated well-sized programs (1-3 functions, 1-4 blocks; nested piece/subpiece/zero- and sign-extension, \
         sub-register write idioms, shifts with 1-byte amounts, 1/2/4/8/16-byte values, boolean flags, loads/stores, \
         stack-pointer masking) -> real normalize_basic -> real normalize_optimize -> program before/after; \
         non-trivial = the optimizing passes changed the program; distinct by program text. Second stream: random \
         P-Code projects (generator of the C11 harness: 4 register-table styles, nested sub-registers, RAM operands, \
         sub-register-write + cast idioms, all jump kinds) -> real lifting -> real normalize(); non-trivial = lifted \
         and normalized without panic",
    );
    if let Some(lines) = args.replay_lines() {
        for line in lines {
            let v: Value = serde_json::from_str(&line).expect("replay line");
            if v.get("pcode").is_some() {
                let (l, ok) = pcode_case_line(&v["pcode"], &mut out);
                let key = v["pcode"].to_string();
                out.case(&l, if ok { Some(&key) } else { None });
                continue;
            }
            let mut project = project_x64(program_from_json(&v["pb"]));
            if let Some(a) = v["arch"].as_str() {
                project.cpu_architecture = a.to_string();
            }
            let (l, changed) = case_line(&project, &mut out);
            let key = v["pb"].to_string();
            out.case(&l, if changed { Some(&key) } else { None });
        }
        out.finish();
        return;
    }
    let mut rng = Rng::new(args.seed);
    let n = args.num("programs", 2500, 60000);
    let mut counts: BTreeMap<String, u64> = BTreeMap::new();
    for _ in 0..n {
        let program = gen_program(&mut rng, Flavor::Sizes, &mut counts);
        let mut project = project_x64(program);
        let r = {
            let mut p = project.clone();
            catch(std::panic::AssertUnwindSafe(move || {
                let _ = p.normalize_basic();
                p
            }))
        };
        match r {
            Ok(p) => project = p,
            Err(_) => {
                out.count("panic:normalize_basic");
                continue;
            }
        }
        let (l, changed) = case_line(&project, &mut out);
        let key = program_to_json(&project.program.term).to_string();
        out.case(&l, if changed { Some(&key) } else { None });
    }
    for (k, v) in counts {
        out.count_n(&k, v);
    }
    // the P-Code stream (own generator state: the IR stream above is unchanged by it)
    let mut prng = Rng::new(args.seed ^ 0x5ca1_ab1e);
    let projects = args.num("projects", 600, 15000);
    for _ in 0..projects {
        let (mut p, kind) = pcode_gen::gen_project(&mut prng, 6);
        pcode_gen::strip_nulls(&mut p);
        out.count(&format!("pcode-kind:{}", kind.split('-').next().unwrap()));
        let (l, ok) = pcode_case_line(&p, &mut out);
        let key = p.to_string();
        out.case(&l, if ok { Some(&key) } else { None });
    }
    out.finish();
}
