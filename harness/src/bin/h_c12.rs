//! C12 harness: generates well-sized IR programs rich in piece/subpiece/cast nesting and sub-register
//! idioms, runs the REAL `normalize_basic()` and then the REAL `normalize_optimize()` (together:
//! `Project::normalize()`), and writes the program before and after the optimizing passes. The Lean
//! driver runs the executable `WellSized` checker on the real output and the composed pass models.
use cwe_checker_lib::intermediate_representation::*;
use std::collections::BTreeMap;
use verif_harness::ir::*;
use verif_harness::*;

#[path = "c10_common/mod.rs"]
mod common;
use common::*;

fn case_line(pb: &Project, out: &mut Out) -> (String, bool) {
    let mut p = pb.clone();
    let r = catch(std::panic::AssertUnwindSafe(move || {
        let _ = p.normalize_optimize();
        p
    }));
    let (o, changed) = match r {
        Ok(q) => {
            let changed = q.program.term != pb.program.term;
            (program_to_json(&q.program.term), changed)
        }
        Err(p) => {
            out.count("panic");
            (Value::String(panic_token(&p)), true)
        }
    };
    let line = json!({"arch": pb.cpu_architecture, "pb": program_to_json(&pb.program.term), "out": o});
    (line.to_string(), changed)
}

fn main() {
    quiet_panics();
    let args = Args::parse();
    let mut out = Out::new(
        &args,
        "generated well-sized programs (1-3 functions, 1-4 blocks; nested piece/subpiece/zero- and sign-extension, \
         sub-register write idioms, shifts with 1-byte amounts, 1/2/4/8/16-byte values, boolean flags, loads/stores, \
         stack-pointer masking) -> real normalize_basic -> real normalize_optimize -> program before/after; \
         non-trivial = the optimizing passes changed the program; distinct by program text",
    );
    if let Some(lines) = args.replay_lines() {
        for line in lines {
            let v: Value = serde_json::from_str(&line).expect("replay line");
            let mut project = project_x64(program_from_json(&v["pb"]));
            if let Some(a) = v["arch"].as_str() {
                project.cpu_architecture = a.to_string();
            }
            let (l, changed) = case_line(&project, &mut out);
            let key = v["pb"].to_string();
            out.case(&l, if changed { Some(&key) } else { None });
        }
        out.finish();
        return;
    }
    let mut rng = Rng::new(args.seed);
    let n = args.num("programs", 2500, 60000);
    let mut counts: BTreeMap<String, u64> = BTreeMap::new();
    for _ in 0..n {
        let program = gen_program(&mut rng, Flavor::Sizes, &mut counts);
        let mut project = project_x64(program);
        let r = {
            let mut p = project.clone();
            catch(std::panic::AssertUnwindSafe(move || {
                let _ = p.normalize_basic();
                p
            }))
        };
        match r {
            Ok(p) => project = p,
            Err(_) => {
                out.count("panic:normalize_basic");
                continue;
            }
        }
        let (l, changed) = case_line(&project, &mut out);
        let key = program_to_json(&project.program.term).to_string();
        out.case(&l, if changed { Some(&key) } else { None });
    }
    for (k, v) in counts {
        out.count_n(&k, v);
    }
    out.finish();
}
