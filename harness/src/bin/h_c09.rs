//! C09 harness: drives the real `Project::normalize_basic` and `get_program_cfg` on raw programs
//! as the P-Code extractor may emit them (dangling jump/call/return targets, blocks listed in or
//! reachable from several functions, duplicated TIDs, non-returning callees, empty functions,
//! indirect jumps with target hints).
//!
//! case line: {"ptid": Tid, "prog": raw program (canonical JSON), "feat": [...],
//!             "impl": {"out": normalised program | null, "panic": null | "message", "cfg": "ok" | "skipped" | "panic:…"}}
use cwe_checker_lib::analysis::graph::get_program_cfg;
use cwe_checker_lib::intermediate_representation::*;
use std::collections::BTreeSet;
use verif_harness::ir::*;
use verif_harness::*;

fn addr(a: u64) -> String {
    format!("{:04x}", a)
}
fn blk_tid(a: u64, split: u64) -> Tid {
    if split == 0 {
        tid_at(&format!("blk_{}", addr(a)), &addr(a))
    } else {
        tid_at(&format!("blk_{}_{}", addr(a), split), &addr(a))
    }
}
fn sub_tid(a: u64) -> Tid {
    tid_at(&format!("sub_{}", addr(a)), &addr(a))
}
fn instr_tid(a: u64, i: u64) -> Tid {
    tid_at(&format!("instr_{}_{}", addr(a), i), &addr(a))
}

struct Gen<'a> {
    rng: &'a mut Rng,
    feat: BTreeSet<&'static str>,
    /// block TIDs per sub
    blocks: Vec<Vec<Tid>>,
    subs: Vec<Tid>,
    externs: Vec<Tid>,
    /// hypothesis-violating injections allowed?
    wild: bool,
}

impl<'a> Gen<'a> {
    fn local_target(&mut self, si: usize) -> Tid {
        let r = self.rng.below(100);
        let own = &self.blocks[si];
        if r < 55 && !own.is_empty() {
            return self.rng.pick(own).clone();
        }
        if r < 72 {
            // a block of some (other) function: entry or not
            let cands: Vec<usize> = (0..self.blocks.len()).filter(|&j| !self.blocks[j].is_empty()).collect();
            if !cands.is_empty() {
                let j = *self.rng.pick(&cands);
                if j != si {
                    self.feat.insert("cross-jump");
                }
                let k = if self.rng.chance(1, 3) { 0 } else { self.rng.below(self.blocks[j].len() as u64) as usize };
                return self.blocks[j][k].clone();
            }
        }
        if r < 86 {
            self.feat.insert("dangling-local");
            return blk_tid(0xd000 + 0x10 * self.rng.below(4), 0);
        }
        if r < 89 && !own.is_empty() {
            // existing id, wrong address: a different TID
            self.feat.insert("dangling-address");
            let t = self.rng.pick(own).clone();
            return tid_at(&tid_id(&t), "ffff");
        }
        if r < 92 {
            // the TID of an instruction is not a jump target
            self.feat.insert("dangling-instr");
            return instr_tid(0x1000 * (1 + self.rng.below(self.subs.len() as u64)), self.rng.below(3));
        }
        if r < 94 {
            self.feat.insert("raw-sink-target");
            return Tid::artificial_sink_block("");
        }
        if r < 96 && self.wild {
            self.feat.insert("wild-local-kind");
            return if !self.externs.is_empty() && self.rng.chance(1, 2) {
                self.rng.pick(&self.externs).clone()
            } else {
                self.rng.pick(&self.subs).clone()
            };
        }
        if !own.is_empty() {
            return self.rng.pick(own).clone();
        }
        self.feat.insert("dangling-local");
        blk_tid(0xd000, 0)
    }

    fn call_target(&mut self) -> Tid {
        let r = self.rng.below(100);
        if r < 45 {
            return self.rng.pick(&self.subs).clone();
        }
        if r < 72 && !self.externs.is_empty() {
            self.feat.insert("extern-call");
            return self.rng.pick(&self.externs).clone();
        }
        if r < 90 {
            self.feat.insert("dangling-call");
            return sub_tid(0xe000 + 0x10 * self.rng.below(3));
        }
        if r < 93 {
            self.feat.insert("raw-sink-call");
            return Tid::artificial_sink_sub();
        }
        if r < 95 && self.wild {
            let all: Vec<Tid> = self.blocks.iter().flatten().cloned().collect();
            if !all.is_empty() {
                self.feat.insert("wild-call-kind");
                return self.rng.pick(&all).clone();
            }
        }
        self.rng.pick(&self.subs).clone()
    }

    fn ret_target(&mut self, si: usize) -> Option<Tid> {
        if self.rng.chance(1, 5) {
            None
        } else {
            Some(self.local_target(si))
        }
    }

    fn cond(&mut self) -> Expression {
        e_var(["ZF", "CF"][self.rng.below(2) as usize], 1)
    }

    fn jmps(&mut self, si: usize, a: u64) -> (Vec<Term<Jmp>>, Vec<Tid>) {
        let mut hints = Vec::new();
        let t1 = instr_tid(a, 8);
        let t2 = instr_tid(a, 9);
        let jm = |tid: Tid, term: Jmp| Term { tid, term };
        let kind = self.rng.below(14);
        let js = match kind {
            0 => vec![],
            1 | 2 => vec![jm(t1, Jmp::Branch(self.local_target(si)))],
            3 | 4 => {
                let c = self.cond();
                vec![
                    jm(t1, Jmp::CBranch { target: self.local_target(si), condition: c }),
                    jm(t2, Jmp::Branch(self.local_target(si))),
                ]
            }
            5 => {
                self.feat.insert("indirect-jump");
                for _ in 0..self.rng.below(4) {
                    let t = self.local_target(si);
                    hints.push(t);
                }
                vec![jm(t1, Jmp::BranchInd(e_var("RAX", 8)))]
            }
            6 | 7 | 8 => vec![jm(t1, Jmp::Call { target: self.call_target(), return_: self.ret_target(si) })],
            9 => vec![jm(t1, Jmp::CallInd { target: e_var("RBX", 8), return_: self.ret_target(si) })],
            10 => vec![jm(t1, Jmp::CallOther { description: "syscall".into(), return_: self.ret_target(si) })],
            11 | 12 => vec![jm(t1, Jmp::Return(e_var("RCX", 8)))],
            _ => {
                let c = self.cond();
                vec![jm(t1, Jmp::CBranch { target: self.local_target(si), condition: c }), jm(t2, Jmp::Return(e_var("RCX", 8)))]
            }
        };
        (js, hints)
    }
}

fn gen_program(rng: &mut Rng) -> (Program, Vec<&'static str>) {
    let wild = rng.chance(1, 12);
    let n_subs = 1 + rng.below(6) as usize;
    let mut sub_addrs: Vec<u64> = (0..n_subs as u64).map(|i| 0x1000 * (i + 1)).collect();
    if rng.chance(1, 4) {
        // key order ≠ generation order
        rng.shuffle(&mut sub_addrs);
    }
    let n_ext = rng.below(4);
    let externs: Vec<ExternSymbol> = (0..n_ext)
        .map(|k| {
            let t = sub_tid(0x9000 + 0x10 * k);
            let mut e = extern_symbol("x", &format!("ext{}", k), vec![], vec![], rng.chance(1, 2));
            e.tid = t;
            e
        })
        .collect();
    let mut g = Gen {
        rng,
        feat: BTreeSet::new(),
        blocks: Vec::new(),
        subs: sub_addrs.iter().map(|a| sub_tid(*a)).collect(),
        externs: externs.iter().map(|e| e.tid.clone()).collect(),
        wild,
    };
    if externs.iter().any(|e| e.no_return) {
        g.feat.insert("extern-noreturn");
    }
    // block layout first (targets refer to it)
    let mut layout: Vec<Vec<(u64, u64)>> = Vec::new();
    for &sa in &sub_addrs {
        let nb = if g.rng.chance(1, 8) {
            g.feat.insert("empty-sub");
            0
        } else if g.rng.chance(1, 4) {
            1 + g.rng.below(8)
        } else {
            1 + g.rng.below(4)
        };
        let mut v = Vec::new();
        let mut a = sa;
        for k in 0..nb {
            if k > 0 && g.rng.chance(1, 6) {
                // second block generated from the same assembly instruction
                v.push((a, 2 + g.rng.below(2)));
            } else {
                if k > 0 {
                    a += 0x10;
                }
                v.push((a, 0));
            }
        }
        v.dedup();
        layout.push(v);
    }
    g.blocks = layout.iter().map(|v| v.iter().map(|&(a, s)| blk_tid(a, s)).collect()).collect();
    // terms
    let mut subs: Vec<Term<Sub>> = Vec::new();
    for (si, &sa) in sub_addrs.iter().enumerate() {
        let mut blocks = Vec::new();
        for (bi, &(a, split)) in layout[si].iter().enumerate() {
            let ia = a + split; // instruction "address" inside the block
            let nd = g.rng.below(4);
            let defs: Vec<Term<Def>> = (0..nd)
                .map(|i| Term {
                    tid: instr_tid(ia, i),
                    term: if g.rng.chance(2, 3) {
                        Def::Assign { var: var("RAX", 8), value: e_const(g.rng.below(256), 8) }
                    } else {
                        Def::Load { var: var("RBX", 8), address: e_var("RSP", 8) }
                    },
                })
                .collect();
            let (jmps, hints) = g.jmps(si, ia);
            let _ = bi;
            blocks.push(Term { tid: blk_tid(a, split), term: Blk { defs, jmps, indirect_jmp_targets: hints } });
        }
        subs.push(Term {
            tid: sub_tid(sa),
            term: Sub { name: format!("f{}", si), blocks, calling_convention: None },
        });
    }
    // blocks listed in several functions (overlapping function bodies): verbatim copies
    if n_subs > 1 && g.rng.chance(1, 3) {
        for _ in 0..1 + g.rng.below(2) {
            let from = g.rng.below(n_subs as u64) as usize;
            let to = g.rng.below(n_subs as u64) as usize;
            if from == to || subs[from].term.blocks.is_empty() {
                continue;
            }
            let entry_shared = g.rng.chance(1, 10);
            let k = if entry_shared {
                0
            } else if subs[from].term.blocks.len() > 1 {
                1 + g.rng.below(subs[from].term.blocks.len() as u64 - 1) as usize
            } else {
                continue;
            };
            let b = subs[from].term.blocks[k].clone();
            let n_to = subs[to].term.blocks.len();
            if n_to == 0 {
                // the function would start with a foreign block
                continue;
            }
            let pos = 1 + g.rng.below(n_to as u64) as usize;
            subs[to].term.blocks.insert(pos, b);
            g.feat.insert(if entry_shared { "shared-entry-listed" } else { "shared-listed" });
        }
    }
    // duplicated identifiers
    if g.rng.chance(1, 3) {
        for _ in 0..1 + g.rng.below(3) {
            // source TID: any term
            let mut all: Vec<Tid> = Vec::new();
            for s in &subs {
                for b in &s.term.blocks {
                    all.push(b.tid.clone());
                    all.extend(b.term.defs.iter().map(|d| d.tid.clone()));
                    all.extend(b.term.jmps.iter().map(|j| j.tid.clone()));
                }
            }
            if g.wild && g.rng.chance(1, 6) {
                all.extend(subs.iter().map(|s| s.tid.clone()));
                all.push(tid("program"));
                g.feat.insert("wild-dup-sub-tid");
            }
            if all.is_empty() {
                break;
            }
            let mut src = g.rng.pick(&all).clone();
            let si = g.rng.below(n_subs as u64) as usize;
            let nb = subs[si].term.blocks.len();
            if nb == 0 {
                continue;
            }
            let bi = g.rng.below(nb as u64) as usize;
            // half of the duplicates stay close: same block, or same function
            match g.rng.below(4) {
                0 | 1 => {
                    let b = &subs[si].term.blocks[bi];
                    let near: Vec<Tid> =
                        b.term.defs.iter().map(|d| d.tid.clone()).chain(b.term.jmps.iter().map(|j| j.tid.clone())).collect();
                    if near.len() > 1 {
                        src = g.rng.pick(&near).clone();
                        g.feat.insert("dup-same-block");
                    }
                }
                2 => {
                    let mut near: Vec<Tid> = Vec::new();
                    for b in &subs[si].term.blocks {
                        near.push(b.tid.clone());
                        near.extend(b.term.defs.iter().map(|d| d.tid.clone()));
                        near.extend(b.term.jmps.iter().map(|j| j.tid.clone()));
                    }
                    src = g.rng.pick(&near).clone();
                    g.feat.insert("dup-same-sub");
                }
                _ => {}
            }
            let blk = &mut subs[si].term.blocks[bi];
            match g.rng.below(3) {
                0 if !blk.term.defs.is_empty() => {
                    let k = g.rng.below(blk.term.defs.len() as u64) as usize;
                    blk.term.defs[k].tid = src;
                    g.feat.insert("dup-def");
                }
                1 if !blk.term.jmps.is_empty() => {
                    let k = g.rng.below(blk.term.jmps.len() as u64) as usize;
                    blk.term.jmps[k].tid = src;
                    g.feat.insert("dup-jmp");
                }
                _ => {
                    if bi > 0 {
                        blk.tid = src;
                        g.feat.insert("dup-blk");
                    } else if g.rng.chance(1, 8) {
                        blk.tid = src;
                        g.feat.insert("dup-entry-blk");
                    }
                }
            }
        }
    }
    if g.wild && g.rng.chance(1, 5) {
        // a block whose TID already looks like the clone of another function's block in this function
        let si = g.rng.below(n_subs as u64) as usize;
        let others: Vec<Tid> = (0..n_subs).filter(|&j| j != si).flat_map(|j| g.blocks[j].clone()).collect();
        if subs[si].term.blocks.len() > 1 && !others.is_empty() {
            let o = g.rng.pick(&others).clone();
            let name = format!("{}_{}", tid_id(&o), tid_id(&subs[si].tid));
            let k = subs[si].term.blocks.len() - 1;
            subs[si].term.blocks[k].tid = tid_at(&name, &o.address);
            g.feat.insert("wild-suffix-collision");
        }
    }
    if g.wild && g.rng.chance(1, 6) {
        // two functions whose IDs agree but whose addresses differ
        if let Some(s) = subs.first().cloned() {
            let mut s2 = s.clone();
            s2.tid = tid_at(&tid_id(&s.tid), "abcd");
            s2.term.blocks.clear();
            subs.push(s2);
            g.feat.insert("wild-sub-id-twice");
        }
    }
    let feat: Vec<&'static str> = g.feat.iter().cloned().collect();
    let entry = vec![subs[0].tid.clone()];
    (program(subs, externs, entry), feat)
}

/// run the real code on one raw program
fn evaluate(ptid: &Tid, prog: &Program) -> Value {
    let mut project = project_x64(prog.clone());
    project.program.tid = ptid.clone();
    let r = catch(std::panic::AssertUnwindSafe(move || {
        let _logs = project.normalize_basic();
        project
    }));
    match r {
        Err(msg) => json!({"out": Value::Null, "panic": msg, "cfg": "skipped"}),
        Ok(project) => {
            let out = program_to_json(&project.program.term);
            let cfg = catch(std::panic::AssertUnwindSafe(|| {
                let g = get_program_cfg(&project.program);
                g.node_count()
            }));
            let cfg = match cfg {
                Ok(_) => "ok".to_string(),
                Err(m) => format!("panic:{}", m),
            };
            json!({"out": out, "panic": Value::Null, "cfg": cfg})
        }
    }
}

fn emit(out: &mut Out, ptid: &Tid, prog: &Program, feat: &[&str]) {
    let raw = program_to_json(prog);
    let r = evaluate(ptid, prog);
    for f in feat {
        out.count(&format!("feat:{}", f));
    }
    if r["panic"].is_string() {
        out.count("impl:panic");
    } else {
        out.count("impl:ok");
        // how many blocks were cloned / sinks added
        let n_in: usize = prog.subs.values().map(|s| s.term.blocks.len()).sum();
        let n_out: usize = r["out"]["subs"].as_array().unwrap().iter().map(|s| s["term"]["blocks"].as_array().unwrap().len()).sum();
        if n_out > n_in + 1 {
            out.count("impl:blocks-added");
        }
        if n_out < n_in + 1 {
            out.count("impl:blocks-removed");
        }
    }
    if r["cfg"].as_str().map_or(false, |s| s.starts_with("panic")) {
        out.count("impl:cfg-panic");
    }
    let key = raw.to_string();
    let nontrivial = !feat.is_empty();
    let line = json!({"ptid": serde_json::to_value(ptid).unwrap(), "prog": raw, "feat": feat, "impl": r}).to_string();
    out.case(&line, if nontrivial { Some(&key) } else { None });
}

fn main() {
    quiet_panics();
    let args = Args::parse();
    let mut out = Out::new(
        &args,
        "random raw programs (1-6 functions incl. empty ones, 0-8 blocks each, 0-3 extern symbols some no_return) with TIDs in \
         the extractor's format; jump/return/hint targets: own block, block of another function (entry or not), dangling, \
         wrong address, instruction TID; call targets: function, extern symbol, dangling; blocks listed verbatim in two \
         functions; duplicated def/jmp/blk TIDs; 1/12 of the programs additionally break a TID-discipline hypothesis; 1/25 are \
         re-normalised outputs; non-trivial = at least one injected feature; distinct by raw program",
    );
    if let Some(lines) = args.replay_lines() {
        for line in lines {
            let v: Value = serde_json::from_str(&line).expect("replay line");
            let ptid: Tid = serde_json::from_value(v["ptid"].clone()).expect("ptid");
            let prog = program_from_json(&v["prog"]);
            let feat: Vec<String> = v["feat"].as_array().map(|a| a.iter().map(|x| x.as_str().unwrap_or("").to_string()).collect()).unwrap_or_default();
            let feat_ref: Vec<&str> = feat.iter().map(|s| s.as_str()).collect();
            emit(&mut out, &ptid, &prog, &feat_ref);
        }
        out.finish();
        return;
    }
    let mut rng = Rng::new(args.seed);
    let n = args.num("programs", 1200, 40000);
    let ptid = tid_at("prog_1000", "1000");
    for _ in 0..n {
        let (prog, feat) = gen_program(&mut rng);
        emit(&mut out, &ptid, &prog, &feat);
        if rng.chance(1, 25) {
            // normalising an already normalised program (TIDs of the artificial sinks are present)
            let mut project = project_x64(prog.clone());
            project.program.tid = ptid.clone();
            let r = catch(std::panic::AssertUnwindSafe(move || {
                let _ = project.normalize_basic();
                project
            }));
            if let Ok(p2) = r {
                let mut f2 = feat.clone();
                f2.push("renormalise");
                emit(&mut out, &ptid, &p2.program.term, &f2);
            }
        }
    }
    out.finish();
}
