//! C20 harness: drives the real `parse_format_string_parameters`.
//!
//! Two streams:
//!  * grammar: a random derivation of `fmt ::= (lit | "%%" | conv)*` is rendered to a string; the
//!    derivation travels with the case so that the Lean driver can evaluate the specification;
//!  * malformed: random strings over the characters the regex cares about (lone `%`, `%hh`,
//!    digits only, several flags, non-ASCII digits, …) where only model ≡ implementation is asked.
use cwe_checker_lib::intermediate_representation::{ByteSize, Datatype, DatatypeProperties};
use cwe_checker_lib::utils::arguments::parse_format_string_parameters;
use verif_harness::*;

const SINGLE: &[&str] = &[
    "c", "C", "d", "i", "o", "u", "x", "X", "e", "E", "f", "F", "g", "G", "a", "A", "n", "p", "s", "S",
];
const DIU: &[&str] = &["d", "i", "u"];
const FLOATS: &[&str] = &["e", "E", "f", "F", "g", "G", "a", "A"];

fn gen_props(rng: &mut Rng) -> DatatypeProperties {
    let mut v: Vec<u64> = match rng.below(4) {
        // x86_64-like / arm32-like sizes
        0 => vec![1, 8, 4, 4, 8, 8, 8, 8, 2],
        1 => vec![1, 8, 4, 4, 8, 8, 4, 4, 2],
        // nine pairwise different sizes: any mix-up of two fields is visible
        _ => {
            let mut v: Vec<u64> = (1..=9).map(|k| k * (1 + rng.below(3))).collect();
            v.sort();
            v.dedup();
            while v.len() < 9 {
                let n = v.last().unwrap() + 1 + rng.below(4);
                v.push(n);
            }
            rng.shuffle(&mut v);
            v
        }
    };
    v.reverse();
    let mut next = || ByteSize::new(v.pop().unwrap());
    DatatypeProperties {
        char_size: next(),
        double_size: next(),
        float_size: next(),
        integer_size: next(),
        long_double_size: next(),
        long_long_size: next(),
        long_size: next(),
        pointer_size: next(),
        short_size: next(),
    }
}

fn props_json(p: &DatatypeProperties) -> Value {
    json!({
        "char_size": u64::from(p.char_size), "double_size": u64::from(p.double_size),
        "float_size": u64::from(p.float_size), "integer_size": u64::from(p.integer_size),
        "long_double_size": u64::from(p.long_double_size), "long_long_size": u64::from(p.long_long_size),
        "long_size": u64::from(p.long_size), "pointer_size": u64::from(p.pointer_size),
        "short_size": u64::from(p.short_size),
    })
}

fn props_from_json(v: &Value) -> DatatypeProperties {
    let g = |k: &str| ByteSize::new(v[k].as_u64().expect("size"));
    DatatypeProperties {
        char_size: g("char_size"),
        double_size: g("double_size"),
        float_size: g("float_size"),
        integer_size: g("integer_size"),
        long_double_size: g("long_double_size"),
        long_long_size: g("long_long_size"),
        long_size: g("long_size"),
        pointer_size: g("pointer_size"),
        short_size: g("short_size"),
    }
}

fn dt_name(d: &Datatype) -> &'static str {
    match d {
        Datatype::Char => "Char",
        Datatype::Double => "Double",
        Datatype::Float => "Float",
        Datatype::Integer => "Integer",
        Datatype::LongDouble => "LongDouble",
        Datatype::LongLong => "LongLong",
        Datatype::Long => "Long",
        Datatype::Pointer => "Pointer",
        Datatype::Short => "Short",
    }
}

/// the real code, canonicalised
fn eval(s: &str, p: &DatatypeProperties) -> String {
    let s2 = s.to_string();
    let p2 = p.clone();
    match catch(move || parse_format_string_parameters(&s2, &p2)) {
        Ok(Ok(v)) => format!(
            "ok:{}",
            v.iter().map(|(d, sz)| format!("{}/{}", dt_name(d), u64::from(*sz))).collect::<Vec<_>>().join(",")
        ),
        Ok(Err(_)) => "err".into(),
        Err(m) => format!("panic:{}", m.replace(' ', "_")),
    }
}

fn digits(rng: &mut Rng, max: u64) -> String {
    let n = rng.below(max + 1);
    (0..n).map(|_| char::from(b'0' + rng.below(10) as u8)).collect()
}

/// literal text: never contains `%`, but a lot of characters that matter to the regex
fn gen_lit(rng: &mut Rng) -> String {
    const POOL: &[&str] = &[
        "d", "s", "l", "ll", "h", "L", "i", "u", "f", "c", "x", "n", "p", "0", "1", "42", ".", "+", "-", "#", " ", "*",
        ":", "/", "\"", "\\", "\n", "\t", "'", "=", "hd", "lu", "lld", "Lf", "errno", "abc", "ä", "٣", "۹", "€", "𝟙", "z",
    ];
    let n = 1 + rng.below(3);
    (0..n).map(|_| *rng.pick(POOL)).collect()
}

/// one supported conversion; `allow_long`: l/ll integer and L float forms may be chosen
fn gen_conv(rng: &mut Rng, allow_long: bool) -> (Value, String, bool) {
    let flag = if rng.chance(1, 3) { *rng.pick(&["+", "-", "#", "0"]) } else { "" };
    let width = if rng.chance(1, 3) { digits(rng, 3) } else { String::new() };
    let prec: Option<String> = if rng.chance(1, 4) { Some(digits(rng, 3)) } else { None };
    let (len, cv, long) = match rng.below(if allow_long { 12 } else { 9 }) {
        0..=5 => ("", *rng.pick(SINGLE), false),
        6 | 7 => ("h", *rng.pick(DIU), false),
        8 => ("l", *rng.pick(FLOATS), false),
        9 => ("l", *rng.pick(DIU), true),
        10 => ("ll", *rng.pick(DIU), true),
        _ => ("L", *rng.pick(FLOATS), true),
    };
    let mut text = format!("%{}{}", flag, width);
    if let Some(p) = &prec {
        text.push('.');
        text.push_str(p);
    }
    text.push_str(len);
    text.push_str(cv);
    (json!({"f": flag, "w": width, "p": prec, "l": len, "c": cv}), text, long)
}

fn gen_grammar(rng: &mut Rng) -> (Vec<Value>, String, bool, bool, usize) {
    let n = match rng.below(10) {
        0 => 0,
        1 | 2 => 1,
        3..=7 => 2 + rng.below(4),
        _ => 6 + rng.below(8),
    };
    let allow_long = rng.chance(1, 6);
    let (mut items, mut s, mut long, mut esc, mut nconv) = (Vec::new(), String::new(), false, false, 0);
    for _ in 0..n {
        match rng.below(10) {
            0..=2 => {
                let t = gen_lit(rng);
                s.push_str(&t);
                items.push(json!({ "t": t }));
            }
            3 | 4 => {
                s.push_str("%%");
                items.push(json!({"e": 1}));
                esc = true;
            }
            _ => {
                let (j, t, l) = gen_conv(rng, allow_long);
                s.push_str(&t);
                items.push(j);
                long |= l;
                nconv += 1;
            }
        }
    }
    (items, s, long, esc, nconv)
}

fn gen_malformed(rng: &mut Rng) -> String {
    const FIXED: &[&str] = &[
        "%", "%%", "%%%", "%hh", "%hhd", "%h", "%l", "%ll", "%L", "%5", "123", "%.", "%..5d", "%+-d", "%5%d", "% d",
        "%*d", "%lx", "%lo", "%hx", "%zu", "%ls", "%lc", "%lld%", "%llx", "%Ld", "%lL", "%l%d", "%ll%i", "%.%s",
        "%+%s", "%٣d", "%1٣.۹f", "%-", "%0", "%00d", "%0.0.0d", "%#+d", "%lli", "%hli", "%%%%d", "%%%c", "",
    ];
    if rng.chance(1, 5) {
        return rng.pick(FIXED).to_string();
    }
    const ALPHA: &[&str] = &[
        "%", "%", "%", "%", "+", "-", "#", "0", "1", "9", ".", ".", "c", "d", "i", "u", "x", "s", "f", "e", "g", "a",
        "n", "p", "S", "h", "h", "l", "l", "l", "L", "L", "E", "G", " ", "*", "z", "٣", "j", "q",
    ];
    let n = 1 + rng.below(10);
    (0..n).map(|_| *rng.pick(ALPHA)).collect()
}

fn emit(out: &mut Out, s: &str, p: &DatatypeProperties, items: Option<&Vec<Value>>) {
    let r = eval(s, p);
    let mut line = json!({"s": s, "p": props_json(p), "impl": r});
    if let Some(it) = items {
        line["items"] = Value::Array(it.clone());
    }
    out.count(if items.is_some() { "stream:grammar" } else { "stream:malformed" });
    out.count(&format!("res:{}", r.split(':').next().unwrap()));
    let nontrivial = r.starts_with("ok:") && r.len() > 3;
    if nontrivial {
        out.count_n("params_returned", r.matches('/').count() as u64);
    }
    let key = format!("{}|{}", s, props_json(p));
    out.case(&line.to_string(), if nontrivial { Some(&key) } else { None });
}

fn main() {
    quiet_panics();
    let args = Args::parse();
    let mut out = Out::new(
        &args,
        "grammar stream: random derivations (0-13 items; literal text incl. digits/length letters/non-ASCII, '%%', \
         conversions with optional flag/width/precision over all 45 supported specifiers, 1/6 of the strings may use \
         long forms) with random DatatypeProperties (half of them nine pairwise different sizes); malformed stream: \
         random strings over the regex alphabet + fixed edge cases; non-trivial = Ok with at least one parameter; \
         distinct by (format string, sizes)",
    );
    if let Some(lines) = args.replay_lines() {
        for line in lines {
            let v: Value = serde_json::from_str(&line).expect("replay line");
            let p = props_from_json(&v["p"]);
            let items = v.get("items").and_then(|i| i.as_array()).cloned();
            emit(&mut out, v["s"].as_str().expect("s"), &p, items.as_ref());
        }
        out.finish();
        return;
    }
    let mut rng = Rng::new(args.seed);
    let n_grammar = args.num("grammar", 36000, 600000);
    let n_malformed = args.num("malformed", 12000, 200000);
    // every supported specifier once, alone and after an escape, with distinct sizes
    let all: Vec<(&str, &str)> = SINGLE
        .iter()
        .map(|c| ("", *c))
        .chain(DIU.iter().flat_map(|c| [("h", *c), ("l", *c), ("ll", *c)]))
        .chain(FLOATS.iter().flat_map(|c| [("l", *c), ("L", *c)]))
        .collect();
    for (l, c) in &all {
        let p = props_from_json(&json!({"char_size":1,"double_size":8,"float_size":5,"integer_size":4,
            "long_double_size":16,"long_long_size":9,"long_size":7,"pointer_size":6,"short_size":2}));
        let conv = json!({"f":"","w":"","p":null,"l":l,"c":c});
        emit(&mut out, &format!("%{}{}", l, c), &p, Some(&vec![conv.clone()]));
        emit(&mut out, &format!("%%{}{}%{}{}", l, c, l, c), &p,
             Some(&vec![json!({"e":1}), json!({"t": format!("{}{}", l, c)}), conv]));
    }
    for _ in 0..n_grammar {
        let p = gen_props(&mut rng);
        let (items, s, long, esc, nconv) = gen_grammar(&mut rng);
        if long {
            out.count("grammar:long");
        }
        if esc {
            out.count("grammar:with-escape");
        }
        out.count(&format!("grammar:nconv={}", if nconv >= 4 { "4+".to_string() } else { nconv.to_string() }));
        emit(&mut out, &s, &p, Some(&items));
    }
    for _ in 0..n_malformed {
        let p = gen_props(&mut rng);
        let s = gen_malformed(&mut rng);
        emit(&mut out, &s, &p, None);
    }
    out.finish();
}
