//! Shared by h_c10 / h_c12: generator of well-sized IR functions (register/temporary arithmetic, loads,
//! stores, conditional chains with shared conditions, empty forwarding blocks, stack-pointer masking,
//! calls, sub-register idioms) and the drivers of the real normalization passes.
//!
//! Disciplines the generator keeps (the Lean driver checks them dynamically and tags violations):
//!  * a temporary is read only where it is assigned on every path since function entry / the last call,
//!  * operands of boolean operations are boolean-valued: comparisons, boolean operations, constants 0/1,
//!    flag registers and boolean temporaries that hold such a value on every path (flags are boolean at
//!    function entry, unknown after a call).
#![allow(dead_code)]
use cwe_checker_lib::intermediate_representation::*;
use std::collections::{BTreeMap, BTreeSet};
use verif_harness::ir::*;
use verif_harness::*;

pub const REG8: [&str; 8] = ["RAX", "RBX", "RCX", "RDX", "RSI", "RDI", "RBP", "R8"];
pub const FLAGS: [&str; 4] = ["ZF", "CF", "SF", "OF"];
pub const TMP8: [&str; 3] = ["$U1", "$U2", "$U3"];
pub const TMP4: [&str; 1] = ["$W1"];
pub const TMPB: [&str; 2] = ["$B1", "$B2"];

/// variables whose "readable / boolean" status is tracked
fn tracked_all() -> Vec<String> {
    FLAGS.iter().chain(TMP8.iter()).chain(TMP4.iter()).chain(TMPB.iter()).map(|s| s.to_string()).collect()
}

#[derive(Clone, Copy, PartialEq, Eq, Debug)]
pub enum Flavor {
    /// C10: behaviour preservation (all rule patterns, control-flow shapes)
    Behaviour,
    /// C12: more piece/subpiece/cast nesting and sub-register idioms
    Sizes,
}

pub struct Gen<'a> {
    pub rng: &'a mut Rng,
    pub flavor: Flavor,
    /// tracked variables that may be read at the current point
    pub avail: BTreeSet<String>,
    pub counts: BTreeMap<String, u64>,
}

fn boxed(e: Expression) -> Box<Expression> {
    Box::new(e)
}

impl<'a> Gen<'a> {
    pub fn new(rng: &'a mut Rng, flavor: Flavor) -> Gen<'a> {
        Gen { rng, flavor, avail: BTreeSet::new(), counts: BTreeMap::new() }
    }
    fn count(&mut self, k: &str) {
        *self.counts.entry(k.to_string()).or_insert(0) += 1;
    }
    fn chance(&mut self, n: u64, d: u64) -> bool {
        self.rng.chance(n, d)
    }

    pub fn special_const(&mut self, size: u64) -> Expression {
        let bits = (8 * size) as u32;
        let bits = bits.min(64);
        let v = match self.rng.below(8) {
            0 => 0,
            1 => 1,
            2 => u64::MAX,
            3 => 1u64 << (bits - 1),
            4 => (1u64 << (bits - 1)).wrapping_sub(1),
            5 => self.rng.below(64),
            _ => self.rng.biased(bits),
        };
        if size > 8 {
            // 16-byte constant: sign- or zero-extended 64-bit value
            let c = bv(v, 8);
            let op = if self.chance(1, 2) { CastOpType::IntSExt } else { CastOpType::IntZExt };
            Expression::Const(c.cast(op, ByteSize::new(size)).unwrap())
        } else {
            e_const(v, size)
        }
    }

    fn leaf(&mut self, size: u64) -> Expression {
        match size {
            8 => {
                let k = self.rng.below(10);
                if k < 5 {
                    e_var(*self.rng.pick(&REG8), 8)
                } else if k == 5 {
                    e_var("RSP", 8)
                } else if k < 8 {
                    let t = *self.rng.pick(&TMP8);
                    if self.avail.contains(t) {
                        Expression::Var(tmp(t, 8))
                    } else {
                        e_var(*self.rng.pick(&REG8), 8)
                    }
                } else {
                    self.special_const(8)
                }
            }
            4 => {
                let t = TMP4[0];
                if self.avail.contains(t) && self.chance(1, 2) {
                    Expression::Var(tmp(t, 4))
                } else if self.chance(1, 2) {
                    let lb = if self.chance(1, 2) { 0 } else { 4 };
                    e_sub(lb, 4, e_var(*self.rng.pick(&REG8), 8))
                } else {
                    self.special_const(4)
                }
            }
            1 => {
                if self.chance(1, 2) {
                    let lb = self.rng.below(8);
                    e_sub(lb, 1, e_var(*self.rng.pick(&REG8), 8))
                } else {
                    self.special_const(1)
                }
            }
            16 => {
                if self.chance(1, 2) {
                    let a = self.leaf(8);
                    let b = self.leaf(8);
                    e_bin(BinOpType::Piece, a, b)
                } else {
                    self.special_const(16)
                }
            }
            n => {
                if self.chance(1, 2) && n < 8 {
                    let lb = self.rng.below(8 - n + 1);
                    e_sub(lb, n, e_var(*self.rng.pick(&REG8), 8))
                } else {
                    self.special_const(n)
                }
            }
        }
    }

    /// integer expression of `size` bytes (not necessarily boolean when size = 1)
    pub fn int_expr(&mut self, size: u64, depth: u32) -> Expression {
        use BinOpType::*;
        if depth == 0 || self.chance(1, 5) {
            return self.leaf(size);
        }
        let d = depth - 1;
        let k = self.rng.below(if self.flavor == Flavor::Sizes { 30 } else { 24 });
        match k {
            0..=6 => {
                // same-size arithmetic / bitwise, biased to equal operands and special constants
                let op = *self.rng.pick(&[IntAdd, IntSub, IntAnd, IntOr, IntXOr, IntAdd, IntSub, IntMult, IntXOr, IntAnd, IntOr]);
                let a = self.int_expr(size, d);
                let b = match self.rng.below(6) {
                    0 | 1 => a.clone(),
                    2 | 3 => self.special_const(size),
                    _ => self.int_expr(size, d),
                };
                if size > 8 && op == IntMult {
                    return e_bin(IntAdd, a, b);
                }
                self.count("e:arith");
                if self.chance(1, 4) {
                    e_bin(op, b, a)
                } else {
                    e_bin(op, a, b)
                }
            }
            7 => {
                // constant chains: (x ± c1) ± c2, (c1 + x) + c2
                let x = self.int_expr(size, d);
                let c1 = self.special_const(size);
                let c2 = self.special_const(size);
                self.count("e:const-chain");
                match self.rng.below(5) {
                    0 => e_bin(IntSub, e_bin(IntSub, x, c1), c2),
                    1 => e_bin(IntAdd, e_bin(IntAdd, x, c1), c2),
                    2 => e_bin(IntAdd, e_bin(IntAdd, c1, x), c2),
                    3 => e_bin(IntSub, e_bin(IntAdd, x, c1), c2),
                    _ => e_bin(if self.chance(1, 2) { IntAdd } else { IntSub }, c1, c2),
                }
            }
            8 | 9 => {
                let op = *self.rng.pick(&[IntLeft, IntRight, IntSRight]);
                let a = self.int_expr(size, d);
                let amount_size = if self.chance(1, 2) { size } else { 1 };
                let amount = if self.chance(2, 3) {
                    let v = *self.rng.pick(&[0u64, 1, 3, 7, 8, 31, 32, 63, 64, 65, 200]);
                    e_const(v, amount_size.min(8))
                } else {
                    self.int_expr(amount_size.min(8), 0)
                };
                self.count("e:shift");
                e_bin(op, a, amount)
            }
            10 => {
                if size > 8 {
                    return self.leaf(size);
                }
                let op = *self.rng.pick(&[IntDiv, IntRem, IntSDiv, IntSRem]);
                let a = self.int_expr(size, d);
                let b = if self.chance(2, 3) {
                    let v = *self.rng.pick(&[1u64, 2, 3, 7, u64::MAX, 16]);
                    e_const(v, size)
                } else {
                    self.int_expr(size, d)
                };
                self.count("e:div");
                e_bin(op, a, b)
            }
            11 | 12 => {
                let op = if self.chance(1, 2) { UnOpType::Int2Comp } else { UnOpType::IntNegate };
                let a = self.int_expr(size, d);
                self.count("e:unop");
                if self.chance(1, 3) {
                    let op2 = if self.chance(3, 4) { op } else { UnOpType::IntNegate };
                    e_un(op, e_un(op2, a))
                } else {
                    e_un(op, a)
                }
            }
            13..=15 if size >= 2 => {
                // extension from a smaller size; sometimes two nested extensions, sometimes same size
                let op = if self.chance(1, 2) { CastOpType::IntZExt } else { CastOpType::IntSExt };
                let from = match self.rng.below(10) {
                    0 => size,
                    _ => *self.rng.pick(&[1u64, 2, 4, 8]),
                };
                let from = if from > size { size / 2 } else { from };
                let inner = self.int_expr(from, d);
                self.count("e:ext");
                if self.chance(1, 4) && from * 2 <= size {
                    let mid = from * 2;
                    // every ordered pair of kinds (the mixed pairs must not be merged)
                    let op2 = if self.chance(1, 2) { CastOpType::IntZExt } else { CastOpType::IntSExt };
                    e_cast(op, size, e_cast(op2, mid, inner))
                } else {
                    e_cast(op, size, inner)
                }
            }
            16 | 17 if size >= 2 && size % 2 == 0 => {
                let hi = self.int_expr(size / 2, d);
                let lo = self.int_expr(size / 2, d);
                self.count("e:piece");
                e_bin(Piece, hi, lo)
            }
            18..=20 if size <= 8 => {
                // subpiece of something larger (incl. the patterns the rules look for)
                let big = *self.rng.pick(&[2 * size, 2 * size, 8, 16]);
                let big = if big <= size { 2 * size } else { big };
                self.count("e:subpiece");
                match self.rng.below(6) {
                    0 => {
                        // subpiece(0, size, ext(x)) with x of `size` bytes
                        let op = if self.chance(1, 2) { CastOpType::IntZExt } else { CastOpType::IntSExt };
                        let x = self.int_expr(size, d);
                        e_sub(0, size, e_cast(op, big, x))
                    }
                    1 => {
                        // exactly the high or low part of a piece
                        let hi = self.int_expr(size, d);
                        let lo = self.int_expr(size, d);
                        let lb = if self.chance(1, 2) { 0 } else { size };
                        e_sub(lb, size, e_bin(Piece, hi, lo))
                    }
                    2 => {
                        // subpiece of subpiece
                        let inner_lb = self.rng.below(big - size + 1);
                        let rest = big - inner_lb;
                        let mid = size + self.rng.below(rest - size + 1);
                        let lb = self.rng.below(mid - size + 1);
                        let x = self.int_expr(big, d);
                        e_sub(lb, size, e_sub(inner_lb, mid, x))
                    }
                    3 => {
                        // full-size subpiece
                        let x = self.int_expr(size, d);
                        e_sub(0, size, x)
                    }
                    _ => {
                        let lb = self.rng.below(big - size + 1);
                        let x = self.int_expr(big, d);
                        e_sub(lb, size, x)
                    }
                }
            }
            21 => {
                let op = if self.chance(1, 2) { CastOpType::PopCount } else { CastOpType::LzCount };
                let from = *self.rng.pick(&[1u64, 4, 8]);
                let a = self.int_expr(from, d);
                self.count("e:popcount");
                e_cast(op, size, a)
            }
            22 if size == 8 => {
                // sub-register write idioms: low 4 bytes (zero extension), low 2 / low 1 / second byte (piece)
                let base = e_var(*self.rng.pick(&REG8), 8);
                self.count("e:subreg-idiom");
                match self.rng.below(4) {
                    0 => {
                        let v = self.int_expr(4, d);
                        e_cast(CastOpType::IntZExt, 8, v)
                    }
                    1 => {
                        let v = self.int_expr(2, d);
                        e_bin(Piece, e_sub(2, 6, base), v)
                    }
                    2 => {
                        let v = self.int_expr(1, d);
                        e_bin(Piece, e_sub(1, 7, base), v)
                    }
                    _ => {
                        let v = self.int_expr(1, d);
                        e_bin(Piece, e_bin(Piece, e_sub(2, 6, base.clone()), v), e_sub(0, 1, base))
                    }
                }
            }
            23 if size == 1 => {
                // a boolean used as a byte
                self.bool_expr(d)
            }
            24..=29 => {
                // Sizes flavor: deeper nesting of piece / subpiece / casts
                match self.rng.below(3) {
                    0 if size % 2 == 0 && size >= 2 => {
                        let hi = self.int_expr(size / 2, d);
                        let lo = self.int_expr(size / 2, d);
                        e_bin(Piece, hi, lo)
                    }
                    1 if size < 16 => {
                        let big = if size < 8 { 8 } else { 16 };
                        let lb = self.rng.below(big - size + 1);
                        let x = self.int_expr(big, d);
                        e_sub(lb, size, x)
                    }
                    _ if size >= 2 => {
                        let from = *self.rng.pick(&[1u64, 2, 4]);
                        let from = if from >= size { size / 2 } else { from };
                        let x = self.int_expr(from.max(1), d);
                        let op = if self.chance(1, 2) { CastOpType::IntZExt } else { CastOpType::IntSExt };
                        e_cast(op, size, x)
                    }
                    _ => self.leaf(size),
                }
            }
            _ => {
                if self.chance(1, 12) {
                    self.count("e:unknown");
                    e_unknown(*self.rng.pick(&["fpu", "simd"]), size)
                } else {
                    self.leaf(size)
                }
            }
        }
    }

    fn bool_leaf(&mut self) -> Expression {
        let k = self.rng.below(8);
        if k < 4 {
            let f = *self.rng.pick(&FLAGS);
            if self.avail.contains(f) {
                return e_var(f, 1);
            }
        }
        if k < 6 {
            let t = *self.rng.pick(&TMPB);
            if self.avail.contains(t) {
                return Expression::Var(tmp(t, 1));
            }
        }
        if k == 7 {
            return e_const(self.rng.below(2), 1);
        }
        self.comparison(0)
    }

    fn comparison(&mut self, depth: u32) -> Expression {
        use BinOpType::*;
        let size = *self.rng.pick(&[8u64, 8, 8, 4, 1]);
        let op = *self.rng.pick(&[IntEqual, IntNotEqual, IntLess, IntSLess, IntLessEqual, IntSLessEqual, IntCarry, IntSCarry, IntSBorrow]);
        let a = self.int_expr(size, depth);
        let b = match self.rng.below(5) {
            0 => a.clone(),
            1 => self.special_const(size),
            _ => self.int_expr(size, depth),
        };
        self.count("e:cmp");
        e_bin(op, a, b)
    }

    /// boolean-valued expression (1 byte, value 0/1 whenever it evaluates)
    pub fn bool_expr(&mut self, depth: u32) -> Expression {
        use BinOpType::*;
        if depth == 0 {
            return self.bool_leaf();
        }
        let d = depth - 1;
        match self.rng.below(16) {
            0..=2 => self.comparison(d),
            3 | 4 => {
                let op = *self.rng.pick(&[BoolAnd, BoolOr, BoolXOr]);
                let a = self.bool_expr(d);
                let b = match self.rng.below(5) {
                    0 => a.clone(),
                    1 | 2 => e_const(self.rng.below(2), 1),
                    _ => self.bool_expr(d),
                };
                self.count("e:boolop");
                if self.chance(1, 2) {
                    e_bin(op, a, b)
                } else {
                    e_bin(op, b, a)
                }
            }
            5 | 6 => {
                let a = self.bool_expr(d);
                self.count("e:boolneg");
                if self.chance(1, 3) {
                    e_un(UnOpType::BoolNegate, e_un(UnOpType::BoolNegate, a))
                } else {
                    e_un(UnOpType::BoolNegate, a)
                }
            }
            7 | 8 => {
                // c == x - y  /  x - y != c   with c in {0, 1, other}
                let size = *self.rng.pick(&[8u64, 4, 1]);
                let x = self.int_expr(size, d);
                let y = if self.chance(1, 4) { x.clone() } else { self.int_expr(size, d) };
                let c = match self.rng.below(4) {
                    0 | 1 => e_const(0, size),
                    2 => e_const(1, size),
                    _ => self.special_const(size),
                };
                let op = if self.chance(1, 2) { IntEqual } else { IntNotEqual };
                let diff = e_bin(IntSub, x, y);
                self.count("e:cmp-with-sub");
                if self.chance(1, 2) {
                    e_bin(op, c, diff)
                } else {
                    e_bin(op, diff, c)
                }
            }
            9 | 10 => {
                // x < y || x == y ; x <= y && x != y (signed and unsigned, operands possibly swapped)
                let size = *self.rng.pick(&[8u64, 4]);
                let x = self.int_expr(size, d);
                let y = self.int_expr(size, d);
                let signed = self.chance(1, 2);
                let (outer, first, second) = if self.chance(1, 2) {
                    (BoolOr, if signed { IntSLess } else { IntLess }, IntEqual)
                } else {
                    (BoolAnd, if signed { IntSLessEqual } else { IntLessEqual }, IntNotEqual)
                };
                let a = e_bin(first, x.clone(), y.clone());
                let b = match self.rng.below(4) {
                    0 => e_bin(second, y, x),
                    1 => {
                        let z = self.int_expr(size, d);
                        e_bin(second, x, z)
                    }
                    _ => e_bin(second, x, y),
                };
                self.count("e:cmp-pair");
                if self.chance(1, 2) {
                    e_bin(outer, a, b)
                } else {
                    e_bin(outer, b, a)
                }
            }
            11 | 12 => {
                // (a - b <s 0) != (a sborrow b)   and variants
                let size = *self.rng.pick(&[8u64, 4, 1]);
                let a = self.int_expr(size, d);
                let b = self.int_expr(size, d);
                let zero = if self.chance(5, 6) { e_const(0, size) } else { e_const(1, size) };
                let less = e_bin(IntSLess, e_bin(IntSub, a.clone(), b.clone()), zero);
                let borrow = if self.chance(5, 6) { e_bin(IntSBorrow, a, b) } else { e_bin(IntSBorrow, b, a) };
                let op = if self.chance(1, 2) { IntNotEqual } else { IntEqual };
                self.count("e:sless-idiom");
                if self.chance(1, 2) {
                    e_bin(op, less, borrow)
                } else {
                    e_bin(op, borrow, less)
                }
            }
            13 => {
                // negated comparison
                let c = self.comparison(d);
                e_un(UnOpType::BoolNegate, c)
            }
            _ => self.bool_leaf(),
        }
    }

    fn address(&mut self) -> Expression {
        use BinOpType::*;
        match self.rng.below(8) {
            0..=2 => e_bin(IntAdd, e_var("RSP", 8), e_const(8 * self.rng.below(6), 8)),
            3 | 4 => e_bin(IntSub, e_var("RBP", 8), e_const(8 * (1 + self.rng.below(4)), 8)),
            5 => e_var(*self.rng.pick(&REG8), 8),
            6 => e_const(0x1000 + 4 * self.rng.below(8), 8),
            _ => self.int_expr(8, 1),
        }
    }
}

/// what a block's terminator looks like before its expressions are generated
#[derive(Clone, Debug)]
pub enum TermPlan {
    None,
    Branch(usize),
    Cond(usize, usize, usize), // condition index in the shared pool, if-target, else-target
    Return,
    Call { callee: String, ret: Option<usize>, kind: u8 }, // kind 0 direct, 1 indirect, 2 callother
    BranchInd(Vec<usize>),
}

#[derive(Clone, Debug)]
pub enum DefPlan {
    Assign8(String, bool), // name, is_temp
    AssignFlag(String),
    AssignTmpB(String),
    AssignTmp4(String),
    Load(String, u64, bool),
    LoadFlag(String),
    Store(u64),
    SpAdjust,
    /// `RSP = RSP - c` / `RSP = RSP + c`
    SpMove,
    /// `RSP = RSP & -16`
    SpAlign,
    SameVarTwice(String),
}

impl DefPlan {
    /// tracked variables made readable / boolean, and those invalidated
    fn effect(&self, gen_set: &mut BTreeSet<String>) {
        match self {
            DefPlan::Assign8(n, true) | DefPlan::AssignTmpB(n) | DefPlan::AssignTmp4(n) | DefPlan::AssignFlag(n) => {
                gen_set.insert(n.clone());
            }
            DefPlan::Load(n, _, true) => {
                gen_set.insert(n.clone());
            }
            DefPlan::LoadFlag(n) => {
                gen_set.remove(n);
            }
            _ => (),
        }
    }
}

pub struct FnPlan {
    pub name: String,
    pub terms: Vec<TermPlan>,
    pub defs: Vec<Vec<DefPlan>>,
}

pub struct ProgShape {
    pub nsubs: usize,
    pub externs: Vec<String>,
}

fn plan_function(rng: &mut Rng, idx: usize, shape: &ProgShape, flavor: Flavor) -> FnPlan {
    let n = 1 + rng.below(if flavor == Flavor::Sizes { 4 } else { 8 }) as usize;
    let mut terms = Vec::new();
    let mut defs = Vec::new();
    let target = |rng: &mut Rng, i: usize| -> usize {
        // mostly forward, sometimes backward (loops, incl. back to the entry block)
        if i + 1 < n && !rng.chance(1, 5) {
            i + 1 + rng.below((n - i - 1) as u64) as usize
        } else {
            rng.below(n as u64) as usize
        }
    };
    for i in 0..n {
        let last = i + 1 == n;
        let k = rng.below(40);
        let t = if k < 10 && !last {
            TermPlan::Branch(target(rng, i))
        } else if k < 26 {
            let c = rng.below(3) as usize;
            TermPlan::Cond(c, target(rng, i), target(rng, i))
        } else if k < 31 || (last && k < 36) {
            TermPlan::Return
        } else if k < 36 {
            let kind = match rng.below(10) {
                0 => 1,
                1 => 2,
                _ => 0,
            };
            let callee = if rng.chance(1, 2) && !shape.externs.is_empty() {
                rng.pick(&shape.externs).clone()
            } else {
                format!("sub_{}", rng.below(shape.nsubs as u64))
            };
            let ret = if rng.chance(1, 10) { None } else { Some(target(rng, i)) };
            TermPlan::Call { callee, ret, kind }
        } else if k < 38 {
            let nt = rng.below(3) as usize;
            TermPlan::BranchInd((0..nt).map(|_| target(rng, i)).collect())
        } else if k == 38 {
            TermPlan::None
        } else {
            TermPlan::Branch(target(rng, i))
        };
        terms.push(t);
        // defs plan
        let mut d = Vec::new();
        let empty = rng.chance(1, 3) && i > 0 || (i == 0 && rng.chance(1, 6));
        if !empty {
            let nd = 1 + rng.below(5);
            if i == 0 && rng.chance(1, 2) {
                if rng.chance(1, 2) {
                    // typical prologue: move the stack pointer, something else, align it (not adjacent,
                    // adjacent assignments to the same register are merged by expression propagation)
                    for _ in 0..(1 + rng.below(2)) {
                        d.push(DefPlan::SpMove);
                        if rng.chance(1, 2) {
                            d.push(DefPlan::Store(8));
                        }
                    }
                    d.push(DefPlan::Assign8(rng.pick(&REG8).to_string(), false));
                    d.push(DefPlan::SpAlign);
                    if rng.chance(1, 2) {
                        d.push(DefPlan::Store(8));
                        d.push(DefPlan::SpMove);
                        d.push(DefPlan::AssignFlag(rng.pick(&FLAGS).to_string()));
                        d.push(DefPlan::SpAlign);
                    }
                } else {
                    for _ in 0..(1 + rng.below(3)) {
                        d.push(DefPlan::SpAdjust);
                    }
                }
            }
            for _ in 0..nd {
                let k = rng.below(30);
                let p = if k < 9 {
                    DefPlan::Assign8(rng.pick(&REG8).to_string(), false)
                } else if k < 13 {
                    DefPlan::Assign8(rng.pick(&TMP8).to_string(), true)
                } else if k < 17 {
                    DefPlan::AssignFlag(rng.pick(&FLAGS).to_string())
                } else if k < 19 {
                    DefPlan::AssignTmpB(rng.pick(&TMPB).to_string())
                } else if k < 20 {
                    DefPlan::AssignTmp4(TMP4[0].to_string())
                } else if k < 23 {
                    if rng.chance(1, 2) {
                        DefPlan::Load(rng.pick(&REG8).to_string(), 8, false)
                    } else {
                        DefPlan::Load(rng.pick(&TMP8).to_string(), 8, true)
                    }
                } else if k < 27 {
                    DefPlan::Store(*rng.pick(&[8u64, 8, 4, 1]))
                } else if k < 28 {
                    DefPlan::SameVarTwice(rng.pick(&REG8).to_string())
                } else if k < 29 {
                    if rng.chance(1, 4) {
                        DefPlan::LoadFlag(rng.pick(&FLAGS).to_string())
                    } else {
                        DefPlan::SpAdjust
                    }
                } else {
                    DefPlan::Assign8("RSP".to_string(), false)
                };
                d.push(p);
            }
        }
        defs.push(d);
    }
    FnPlan { name: format!("sub_{}", idx), terms, defs }
}

/// forward must-analysis: tracked variables readable at the start of each block
fn avail_in(plan: &FnPlan) -> Vec<BTreeSet<String>> {
    let n = plan.terms.len();
    let all: BTreeSet<String> = tracked_all().into_iter().collect();
    let entry: BTreeSet<String> = FLAGS.iter().map(|s| s.to_string()).collect();
    // None = not reached yet (top)
    let mut inn: Vec<Option<BTreeSet<String>>> = vec![None; n];
    inn[0] = Some(entry.clone());
    let mut changed = true;
    while changed {
        changed = false;
        for i in 0..n {
            let Some(start) = inn[i].clone() else { continue };
            let mut out = start;
            for d in &plan.defs[i] {
                d.effect(&mut out);
            }
            let mut edges: Vec<(usize, BTreeSet<String>)> = Vec::new();
            match &plan.terms[i] {
                TermPlan::Branch(t) => edges.push((*t, out.clone())),
                TermPlan::Cond(_, a, b) => {
                    edges.push((*a, out.clone()));
                    edges.push((*b, out.clone()));
                }
                TermPlan::Call { ret: Some(r), .. } => edges.push((*r, BTreeSet::new())),
                TermPlan::BranchInd(ts) => {
                    for t in ts {
                        edges.push((*t, out.clone()));
                    }
                }
                _ => (),
            }
            for (t, v) in edges {
                let new = match &inn[t] {
                    None => v,
                    Some(old) => old.intersection(&v).cloned().collect(),
                };
                // the entry block keeps at most the entry set
                let new: BTreeSet<String> = if t == 0 { new.intersection(&entry).cloned().collect() } else { new };
                if inn[t].as_ref() != Some(&new) {
                    inn[t] = Some(new);
                    changed = true;
                }
            }
        }
    }
    let _ = all;
    inn.into_iter().map(|o| o.unwrap_or_default()).collect()
}

fn sp_adjust(g: &mut Gen) -> Expression {
    use BinOpType::*;
    let sp = e_var("RSP", 8);
    let k = g.rng.below(40);
    g.count("sp-adjust");
    if k < 10 {
        e_bin(IntSub, sp, e_const(*g.rng.pick(&[8u64, 16, 24, 0x28, 4, 1, 0x100]), 8))
    } else if k < 14 {
        e_bin(IntAdd, sp, e_const(*g.rng.pick(&[8u64, 16, 0xfffffffffffffff8, 0xfffffffffffffff0, 3]), 8))
    } else if k < 15 {
        e_bin(IntAdd, e_const(*g.rng.pick(&[8u64, 0xfffffffffffffff8]), 8), sp)
    } else if k < 30 {
        // alignment masks: mostly 16, sometimes weaker or stronger alignments
        let m = match g.rng.below(12) {
            0 => 0xfffffffffffffff8u64,
            1 => 0xfffffffffffffffc,
            2 => 0xffffffffffffffe0,
            3 => 0xffffffffffffff00,
            4 => 0xffffffffffffffff,
            _ => 0xfffffffffffffff0,
        };
        g.count("sp-mask");
        if g.chance(1, 4) {
            e_bin(IntAnd, e_const(m, 8), sp)
        } else {
            e_bin(IntAnd, sp, e_const(m, 8))
        }
    } else if k < 32 {
        // masks that are no alignment
        let m = *g.rng.pick(&[0xffu64, 0xfffffffffffffff7, 0x7ffffffffffffff0, 0xf]);
        g.count("sp-mask-odd");
        e_bin(IntAnd, sp, e_const(m, 8))
    } else if k < 34 {
        g.count("sp-const-minus-sp");
        e_bin(IntSub, e_const(*g.rng.pick(&[8u64, 4, 16, 0]), 8), sp)
    } else if k < 36 {
        g.count("sp-other-reg-mask");
        let r = e_var(*g.rng.pick(&REG8), 8);
        e_bin(IntAnd, r, e_const(0xfffffffffffffff0, 8))
    } else if k < 37 {
        e_bin(*g.rng.pick(&[IntOr, IntXOr]), sp, e_const(*g.rng.pick(&[0xfu64, 8]), 8))
    } else if k < 38 {
        e_var("RBP", 8)
    } else if k < 39 {
        e_bin(IntSub, e_var("RBP", 8), e_const(16, 8))
    } else {
        e_bin(IntAnd, sp.clone(), sp)
    }
}

/// the conditions shared by the conditional blocks of a function
fn cond_pool(g: &mut Gen) -> Vec<Expression> {
    use BinOpType::*;
    let f = *g.rng.pick(&FLAGS);
    let base: Expression = match g.rng.below(4) {
        0 | 1 => e_var(f, 1),
        2 => e_bin(IntEqual, e_var(*g.rng.pick(&REG8), 8), e_const(0, 8)),
        _ => e_bin(*g.rng.pick(&[IntSLess, IntLess, IntNotEqual]), e_var("RAX", 8), e_var("RBX", 8)),
    };
    let neg = e_un(UnOpType::BoolNegate, base.clone());
    let other = match g.rng.below(3) {
        0 => e_var(*g.rng.pick(&FLAGS), 1),
        1 => e_un(UnOpType::BoolNegate, e_un(UnOpType::BoolNegate, base.clone())),
        _ => e_bin(IntEqual, e_var("RCX", 8), e_const(1, 8)),
    };
    vec![base, neg, other]
}

fn uses_only_avail(e: &Expression, avail: &BTreeSet<String>) -> bool {
    e.input_vars().iter().all(|v| {
        let tracked = v.is_temp || FLAGS.contains(&v.name.as_str());
        !tracked || avail.contains(&v.name)
    })
}

pub fn gen_function(rng: &mut Rng, idx: usize, shape: &ProgShape, flavor: Flavor, counts: &mut BTreeMap<String, u64>) -> Term<Sub> {
    let plan = plan_function(rng, idx, shape, flavor);
    let avail = avail_in(&plan);
    let mut g = Gen::new(rng, flavor);
    let pool = cond_pool(&mut g);
    let depth = if flavor == Flavor::Sizes { 3 } else { 2 };
    let mut blocks = Vec::new();
    for (i, term) in plan.terms.iter().enumerate() {
        let bname = format!("s{}_b{}", idx, i);
        g.avail = avail[i].clone();
        let mut defs: Vec<Term<Def>> = Vec::new();
        let mut dn = 0;
        let mut push = |defs: &mut Vec<Term<Def>>, d: Def| {
            defs.push(Term { tid: tid(&format!("{}_d{}", bname, dn)), term: d });
            dn += 1;
        };
        for dp in &plan.defs[i] {
            match dp {
                DefPlan::Assign8(n, is_temp) => {
                    let e = if n == "RSP" { sp_adjust(&mut g) } else { g.int_expr(8, depth) };
                    let v = if *is_temp { tmp(n, 8) } else { var(n, 8) };
                    push(&mut defs, Def::Assign { var: v, value: e });
                    g.count("def:assign8");
                }
                DefPlan::AssignFlag(n) => {
                    let e = g.bool_expr(depth);
                    push(&mut defs, Def::Assign { var: var(n, 1), value: e });
                    g.count("def:assign-flag");
                }
                DefPlan::AssignTmpB(n) => {
                    let e = g.bool_expr(depth);
                    push(&mut defs, Def::Assign { var: tmp(n, 1), value: e });
                    g.count("def:assign-tmpbool");
                }
                DefPlan::AssignTmp4(n) => {
                    let e = g.int_expr(4, depth);
                    push(&mut defs, Def::Assign { var: tmp(n, 4), value: e });
                }
                DefPlan::Load(n, size, is_temp) => {
                    let a = g.address();
                    let v = if *is_temp { tmp(n, *size) } else { var(n, *size) };
                    push(&mut defs, Def::Load { var: v, address: a });
                    g.count("def:load");
                }
                DefPlan::LoadFlag(n) => {
                    let a = g.address();
                    push(&mut defs, Def::Load { var: var(n, 1), address: a });
                }
                DefPlan::Store(size) => {
                    let a = g.address();
                    let e = if *size == 1 && g.chance(1, 2) { g.bool_expr(1) } else { g.int_expr(*size, depth) };
                    push(&mut defs, Def::Store { address: a, value: e });
                    g.count("def:store");
                }
                DefPlan::SpAdjust => {
                    let e = sp_adjust(&mut g);
                    push(&mut defs, Def::Assign { var: var("RSP", 8), value: e });
                }
                DefPlan::SpMove => {
                    let c = *g.rng.pick(&[8u64, 8, 16, 0x18, 0x28, 0x100, 4, 1, 0xfffffffffffffff8, 0x7fffffffffffffff]);
                    let op = if g.chance(3, 4) { BinOpType::IntSub } else { BinOpType::IntAdd };
                    let e = if op == BinOpType::IntAdd && g.chance(1, 3) {
                        e_bin(op, e_const(c, 8), e_var("RSP", 8))
                    } else {
                        e_bin(op, e_var("RSP", 8), e_const(c, 8))
                    };
                    g.count("sp-move");
                    push(&mut defs, Def::Assign { var: var("RSP", 8), value: e });
                }
                DefPlan::SpAlign => {
                    let m = e_const(0xfffffffffffffff0, 8);
                    let e = if g.chance(1, 4) {
                        e_bin(BinOpType::IntAnd, m, e_var("RSP", 8))
                    } else {
                        e_bin(BinOpType::IntAnd, e_var("RSP", 8), m)
                    };
                    g.count("sp-align16");
                    push(&mut defs, Def::Assign { var: var("RSP", 8), value: e });
                }
                DefPlan::SameVarTwice(n) => {
                    let e1 = g.int_expr(8, 1);
                    let x = e_var(n, 8);
                    let e2 = match g.rng.below(3) {
                        0 => e_bin(BinOpType::IntAdd, x, e_const(1, 8)),
                        1 => e_bin(BinOpType::IntXOr, x.clone(), x),
                        _ => g.int_expr(8, 1),
                    };
                    push(&mut defs, Def::Assign { var: var(n, 8), value: e1 });
                    push(&mut defs, Def::Assign { var: var(n, 8), value: e2 });
                    g.count("def:same-var-twice");
                }
            }
            dp.effect(&mut g.avail);
        }
        // terminator
        let j0 = format!("{}_j0", bname);
        let j1 = format!("{}_j1", bname);
        let bt = |k: usize| format!("s{}_b{}", idx, k);
        let mut hints = Vec::new();
        let jmps: Vec<Term<Jmp>> = match term {
            TermPlan::None => vec![],
            TermPlan::Branch(t) => vec![j_branch(&j0, &bt(*t))],
            TermPlan::Cond(c, a, b) => {
                let mut cond = pool[*c].clone();
                if !uses_only_avail(&cond, &g.avail) || g.chance(1, 8) {
                    cond = g.bool_expr(1);
                }
                g.count("jmp:cond");
                vec![j_cbranch(&j0, &bt(*a), cond), j_branch(&j1, &bt(*b))]
            }
            TermPlan::Return => {
                g.count("jmp:return");
                let e = match g.rng.below(6) {
                    0 => e_var("RAX", 8),
                    1 => e_const(0x401000, 8),
                    2 | 3 => {
                        let t = *g.rng.pick(&TMP8);
                        if g.avail.contains(t) {
                            Expression::Var(tmp(t, 8))
                        } else {
                            e_var("RCX", 8)
                        }
                    }
                    _ => g.int_expr(8, 1),
                };
                vec![j_return(&j0, e)]
            }
            TermPlan::Call { callee, ret, kind } => {
                let r = ret.map(|k| bt(k));
                g.count("jmp:call");
                match kind {
                    0 => vec![j_call(&j0, callee, r.as_deref())],
                    1 => {
                        let e = g.int_expr(8, 1);
                        vec![j_call_ind(&j0, e, r.as_deref())]
                    }
                    _ => vec![j_call_other(&j0, "syscall", r.as_deref())],
                }
            }
            TermPlan::BranchInd(ts) => {
                for t in ts {
                    hints.push(tid(&bt(*t)));
                }
                g.count("jmp:branchind");
                let e = g.int_expr(8, 1);
                vec![j_branch_ind(&j0, e)]
            }
        };
        let mut b = blk(&bname, defs, jmps);
        b.term.indirect_jmp_targets = hints;
        blocks.push(b);
    }
    for (k, v) in g.counts.iter() {
        *counts.entry(k.clone()).or_insert(0) += v;
    }
    sub(&plan.name, &plan.name, blocks, Some("__stdcall"))
}

// ---------------------------------------------------------------------------------------------------
// assignment cycles across a block boundary (expression propagation, `update_def`)
//
// `Y = f(X); X = g(Y)` (or a cycle through three registers): the right-hand side of the last assignment does
// not mention the assigned register, but its EXTENSION with the table does (`g(f(X))`), so the entry must not
// stay in the table that is sent to the successors. The successor reads `X` in an observable position.

/// `f(v)`: an expression over the register `v` (never mentioning the registers in `avoid`)
fn cycle_fn(rng: &mut Rng, v: &str, avoid: &[&str]) -> Expression {
    use BinOpType::*;
    let x = || e_var(v, 8);
    let others: Vec<&str> = REG8.iter().copied().filter(|r| *r != v && !avoid.contains(r)).collect();
    let w = e_var(*rng.pick(&others), 8);
    let c = *rng.pick(&[1u64, 2, 3, 8, 0x10, 0xff, 0xfffffffffffffff8, 0x7fffffff]);
    match rng.below(14) {
        0 => e_bin(IntAdd, x(), e_const(c, 8)),
        1 => e_bin(IntSub, x(), e_const(c, 8)),
        2 => e_bin(IntAdd, x(), x()),
        3 => e_bin(IntXOr, x(), e_const(c, 8)),
        4 => e_bin(IntAdd, x(), w),
        5 => e_bin(IntSub, w, x()),
        6 => e_bin(IntAdd, e_bin(IntAdd, x(), e_const(c, 8)), e_const(1, 8)), // rule pattern (x + c1) + c2
        7 => e_bin(IntSub, e_bin(IntSub, x(), e_const(c, 8)), e_const(2, 8)), // rule pattern (x - c1) - c2
        8 => e_bin(IntMult, x(), e_const(3, 8)),
        9 => e_un(UnOpType::Int2Comp, x()),
        10 => e_cast(CastOpType::IntZExt, 8, e_sub(0, 4, x())), // sub-register idiom
        11 => e_bin(IntLeft, x(), e_const(1, 8)),
        12 => e_bin(IntOr, e_bin(IntAnd, x(), e_const(0xff, 8)), w),
        _ => e_bin(IntAdd, e_const(c, 8), x()),
    }
}

/// the defs of one cycle through the registers `regs` (`regs[0]` is reassigned last), plus harmless defs between them
fn cycle_defs(rng: &mut Rng, regs: &[&str], fns: &[Expression], bname: &str, dn: &mut usize) -> Vec<Term<Def>> {
    let mut defs = Vec::new();
    let mut push = |defs: &mut Vec<Term<Def>>, d: Def| {
        defs.push(Term { tid: tid(&format!("{}_d{}", bname, *dn)), term: d });
        *dn += 1;
    };
    let n = regs.len();
    for k in 0..n {
        // regs[1] = f0(regs[0]); regs[2] = f1(regs[1]); …; regs[0] = f_{n-1}(regs[n-1])
        let target = regs[(k + 1) % n];
        push(&mut defs, Def::Assign { var: var(target, 8), value: fns[k].clone() });
        if k + 1 < n && rng.chance(1, 4) {
            // a store in between does not touch the tables
            push(&mut defs, Def::Store { address: e_bin(BinOpType::IntSub, e_var("RSP", 8), e_const(0x20, 8)), value: e_var(target, 8) });
        }
    }
    defs
}

/// observable reads of the register `x` at the start of a successor block; returns the defs and the jumps
fn cycle_reads(rng: &mut Rng, x: &str, avoid: &[&str], bname: &str, fname: &str, terminal: bool) -> (Vec<Term<Def>>, Vec<Term<Jmp>>, Vec<Term<Blk>>) {
    use BinOpType::*;
    let mut defs = Vec::new();
    let mut dn = 0;
    let mut push = |defs: &mut Vec<Term<Def>>, d: Def| {
        defs.push(Term { tid: tid(&format!("{}_d{}", bname, dn)), term: d });
        dn += 1;
    };
    let others: Vec<&str> = REG8.iter().copied().filter(|r| *r != x && !avoid.contains(r)).collect();
    let xv = || e_var(x, 8);
    let nreads = 1 + rng.below(3);
    for _ in 0..nreads {
        match rng.below(5) {
            0 => push(&mut defs, Def::Store { address: e_bin(IntSub, e_var("RSP", 8), e_const(8, 8)), value: xv() }),
            1 => push(&mut defs, Def::Store { address: e_bin(IntAdd, xv(), e_const(*rng.pick(&[0u64, 8, 0x10]), 8)), value: e_var(*rng.pick(&others), 8) }),
            2 => push(&mut defs, Def::Load { var: var(*rng.pick(&others), 8), address: xv() }),
            3 => push(&mut defs, Def::Assign { var: var(*rng.pick(&others), 8), value: xv() }),
            _ => push(&mut defs, Def::Assign { var: var(*rng.pick(&others), 8), value: e_bin(IntAdd, xv(), e_const(1, 8)) }),
        }
    }
    let mut extra = Vec::new();
    let jmps = if !terminal {
        vec![]
    } else {
        match rng.below(4) {
            0 => vec![j_return(&format!("{}_j0", bname), xv())], // return target
            1 => {
                // jump condition
                let c = match rng.below(3) {
                    0 => e_bin(IntEqual, xv(), e_const(*rng.pick(&[0u64, 1, 12]), 8)),
                    1 => e_bin(IntSLess, xv(), e_var(*rng.pick(&others), 8)),
                    _ => e_bin(IntLess, e_const(0x100, 8), xv()),
                };
                let bt = format!("{}_t", bname);
                let bf = format!("{}_f", bname);
                extra.push(blk(&bt, vec![d_assign(&format!("{}_d0", bt), var("RAX", 8), e_const(1, 8))], vec![j_return(&format!("{}_j0", bt), e_const(0x401000, 8))]));
                extra.push(blk(&bf, vec![d_assign(&format!("{}_d0", bf), var("RAX", 8), e_const(2, 8))], vec![j_return(&format!("{}_j0", bf), e_const(0x401000, 8))]));
                vec![j_cbranch(&format!("{}_j0", bname), &bt, c), j_branch(&format!("{}_j1", bname), &bf)]
            }
            2 => vec![j_call(&format!("{}_j0", bname), "ext_a", None)],
            _ => vec![j_return(&format!("{}_j0", bname), e_const(0x401000, 8))],
        }
    };
    let _ = fname;
    (defs, jmps, extra)
}

/// a function with an assignment cycle followed by a block boundary and reads of the reassigned register
pub fn gen_cycle_function(rng: &mut Rng, idx: usize, counts: &mut BTreeMap<String, u64>) -> Term<Sub> {
    let fname = format!("sub_{}", idx);
    let bn = |i: usize| format!("s{}_b{}", idx, i);
    let mut regs: Vec<&str> = REG8.to_vec();
    rng.shuffle(&mut regs);
    let n = if rng.chance(1, 3) { 3 } else { 2 };
    let regs: Vec<&str> = regs[..n].to_vec();
    let x = regs[0];
    // f_k reads regs[k] and must not mention any other register of the cycle
    let fns: Vec<Expression> = (0..n).map(|k| cycle_fn(rng, regs[k], &regs)).collect();
    let mut count = |k: &str| *counts.entry(k.to_string()).or_insert(0) += 1;
    count(&format!("cycle:len{}", n));
    let mut blocks = Vec::new();
    let mut prefix = |rng: &mut Rng, bname: &str, dn: &mut usize| -> Vec<Term<Def>> {
        // sometimes a def before the cycle (a constant or a copy into a register outside the cycle)
        let mut d = Vec::new();
        if rng.chance(1, 3) {
            let others: Vec<&str> = REG8.iter().copied().filter(|r| !regs.contains(r)).collect();
            let e = if rng.chance(1, 2) { e_const(rng.below(100), 8) } else { e_bin(BinOpType::IntAdd, e_var(x, 8), e_const(4, 8)) };
            d.push(Term { tid: tid(&format!("{}_d{}", bname, *dn)), term: Def::Assign { var: var(*rng.pick(&others), 8), value: e } });
            *dn += 1;
        }
        d
    };
    match rng.below(3) {
        0 => {
            // unconditional jump
            count("cycle:jump");
            let mut dn = 0;
            let mut d0 = prefix(rng, &bn(0), &mut dn);
            d0.extend(cycle_defs(rng, &regs, &fns, &bn(0), &mut dn));
            blocks.push(blk(&bn(0), d0, vec![j_branch(&format!("{}_j0", bn(0)), &bn(1))]));
            let (d1, j1, extra) = cycle_reads(rng, x, &regs, &bn(1), &fname, true);
            blocks.push(blk(&bn(1), d1, j1));
            blocks.extend(extra);
        }
        1 => {
            // conditional diamond whose arms agree (they do not touch the registers of the cycle)
            count("cycle:diamond");
            let mut dn = 0;
            let mut d0 = prefix(rng, &bn(0), &mut dn);
            d0.extend(cycle_defs(rng, &regs, &fns, &bn(0), &mut dn));
            let cond = if rng.chance(1, 2) { e_var(*rng.pick(&FLAGS), 1) } else { e_bin(BinOpType::IntSLess, e_var(regs[1], 8), e_const(0, 8)) };
            blocks.push(blk(&bn(0), d0, vec![j_cbranch(&format!("{}_j0", bn(0)), &bn(1), cond), j_branch(&format!("{}_j1", bn(0)), &bn(2))]));
            let others: Vec<&str> = REG8.iter().copied().filter(|r| !regs.contains(r)).collect();
            let arm = |rng: &mut Rng, i: usize| -> Term<Blk> {
                let defs = if rng.chance(1, 2) {
                    vec![d_assign(&format!("{}_d0", bn(i)), var(*rng.pick(&others), 8), e_const(rng.below(50), 8))]
                } else {
                    vec![]
                };
                blk(&bn(i), defs, vec![j_branch(&format!("{}_j0", bn(i)), &bn(3))])
            };
            let a1 = arm(rng, 1);
            let a2 = arm(rng, 2);
            blocks.push(a1);
            blocks.push(a2);
            let (d3, j3, extra) = cycle_reads(rng, x, &regs, &bn(3), &fname, true);
            blocks.push(blk(&bn(3), d3, j3));
            blocks.extend(extra);
        }
        _ => {
            // loop back-edge: the loop body reads the register and repeats the same cycle
            count("cycle:loop");
            let mut dn = 0;
            let d0 = cycle_defs(rng, &regs, &fns, &bn(0), &mut dn);
            blocks.push(blk(&bn(0), d0, vec![j_branch(&format!("{}_j0", bn(0)), &bn(1))]));
            let (mut d1, _, _) = cycle_reads(rng, x, &regs, &bn(1), &fname, false);
            let mut dn1 = d1.len();
            d1.extend(cycle_defs(rng, &regs, &fns, &bn(1), &mut dn1));
            let cond = if rng.chance(1, 2) { e_var(*rng.pick(&FLAGS), 1) } else { e_bin(BinOpType::IntLess, e_var(x, 8), e_const(0x1000, 8)) };
            blocks.push(blk(&bn(1), d1, vec![j_cbranch(&format!("{}_j0", bn(1)), &bn(1), cond), j_branch(&format!("{}_j1", bn(1)), &bn(2))]));
            let (d2, j2, extra) = cycle_reads(rng, x, &regs, &bn(2), &fname, true);
            blocks.push(blk(&bn(2), d2, j2));
            blocks.extend(extra);
        }
    }
    sub(&fname, &fname, blocks, Some("__stdcall"))
}

// ---------------------------------------------------------------------------------------------------
// nested extension casts (trivial expression substitution, directly and after expression propagation)
//
// `outer(s, inner(m, x))` for every ordered pair of {IntZExt, IntSExt}, `x` a sub-piece of a register (1, 2 or
// 4 bytes), written directly or through a temporary that expression propagation inlines (in the same block or
// across a jump); the result reaches an observable.

fn castnest_temp(m: u64) -> Variable {
    match m {
        2 => tmp("$H1", 2),
        4 => tmp("$W1", 4),
        8 => tmp("$U1", 8),
        _ => tmp("$Q1", m),
    }
}

/// defs / jumps that make the value `e` (of `s` bytes) observable
fn castnest_use(rng: &mut Rng, e: Expression, s: u64, bname: &str, dn0: usize) -> (Vec<Term<Def>>, Vec<Term<Jmp>>, Vec<Term<Blk>>) {
    use BinOpType::*;
    let mut defs = Vec::new();
    let mut dn = dn0;
    let mut push = |defs: &mut Vec<Term<Def>>, d: Def| {
        defs.push(Term { tid: tid(&format!("{}_d{}", bname, dn)), term: d });
        dn += 1;
    };
    let mut extra = Vec::new();
    let ret = |t: &str| j_return(t, e_const(0x401000, 8));
    let slot = e_bin(IntSub, e_var("RSP", 8), e_const(0x18, 8));
    let two_way = |c: Expression, extra: &mut Vec<Term<Blk>>| -> Vec<Term<Jmp>> {
        let bt = format!("{}_t", bname);
        let bf = format!("{}_f", bname);
        extra.push(blk(&bt, vec![d_assign(&format!("{}_d0", bt), var("RAX", 8), e_const(1, 8))], vec![ret(&format!("{}_j0", bt))]));
        extra.push(blk(&bf, vec![d_assign(&format!("{}_d0", bf), var("RAX", 8), e_const(2, 8))], vec![ret(&format!("{}_j0", bf))]));
        vec![j_cbranch(&format!("{}_j0", bname), &bt, c), j_branch(&format!("{}_j1", bname), &bf)]
    };
    let jmps = match rng.below(5) {
        0 => {
            // store value
            push(&mut defs, Def::Store { address: slot, value: e });
            vec![ret(&format!("{}_j0", bname))]
        }
        1 if s == 8 => {
            // store address
            push(&mut defs, Def::Store { address: e, value: e_var("RBX", 8) });
            vec![ret(&format!("{}_j0", bname))]
        }
        2 if s == 8 => {
            // register at a return / call site
            push(&mut defs, Def::Assign { var: var(*rng.pick(&["RAX", "RDX", "RDI"]), 8), value: e });
            if rng.chance(1, 2) {
                vec![ret(&format!("{}_j0", bname))]
            } else {
                vec![j_call(&format!("{}_j0", bname), "ext_a", None)]
            }
        }
        3 if s <= 8 => {
            // condition via comparison
            let c = match rng.below(3) {
                0 => e_bin(IntSLess, e, e_const(0, s)),
                1 => e_bin(IntLess, e_const(if s == 8 { 0xffffffff } else { 0xffff }, s), e),
                _ => e_bin(IntEqual, e_bin(IntRight, e, e_const(8 * s - 1, s)), e_const(1, s)),
            };
            two_way(c, &mut extra)
        }
        _ => {
            if s == 16 {
                // the high half of a 16-byte value
                push(&mut defs, Def::Assign { var: var("RAX", 8), value: e_sub(8, 8, e) });
            } else if s == 8 {
                push(&mut defs, Def::Assign { var: var("RCX", 8), value: e_bin(IntAdd, e, e_const(1, 8)) });
            } else {
                push(&mut defs, Def::Store { address: slot, value: e });
            }
            vec![ret(&format!("{}_j0", bname))]
        }
    };
    (defs, jmps, extra)
}

/// a function built around one nested extension `outer(s, inner(m, x))`
pub fn gen_castnest_function(rng: &mut Rng, idx: usize, counts: &mut BTreeMap<String, u64>) -> Term<Sub> {
    use CastOpType::*;
    let fname = format!("sub_{}", idx);
    let bn = |i: usize| format!("s{}_b{}", idx, i);
    let mut count = |k: &str| *counts.entry(k.to_string()).or_insert(0) += 1;
    let (n, m, s) = *rng.pick(&[(1u64, 2u64, 4u64), (1, 2, 8), (1, 4, 8), (1, 4, 8), (2, 4, 8), (2, 4, 8), (1, 2, 4), (4, 8, 16)]);
    let outer = if rng.chance(1, 2) { IntZExt } else { IntSExt };
    let inner = if rng.chance(1, 2) { IntZExt } else { IntSExt };
    count(&format!("castnest:{}", match (outer, inner) {
        (IntZExt, IntSExt) => "zext-of-sext",
        (IntSExt, IntZExt) => "sext-of-zext",
        (IntZExt, _) => "zext-of-zext",
        _ => "sext-of-sext",
    }));
    let reg = *rng.pick(&REG8);
    let lb = if rng.chance(1, 2) { 0 } else { rng.below(8 - n + 1) };
    let src = if rng.chance(1, 5) {
        e_sub(lb, n, e_bin(BinOpType::IntAdd, e_var(reg, 8), e_const(*rng.pick(&[1u64, 0x80, 0x7f]), 8)))
    } else {
        e_sub(lb, n, e_var(reg, 8))
    };
    let mid = e_cast(inner, m, src);
    let mut blocks = Vec::new();
    match rng.below(3) {
        0 => {
            // directly nested
            count("castnest:direct");
            let (d, j, extra) = castnest_use(rng, e_cast(outer, s, mid), s, &bn(0), 0);
            blocks.push(blk(&bn(0), d, j));
            blocks.extend(extra);
        }
        1 => {
            // through a temporary in the same block (block-local insertion)
            count("castnest:temp-local");
            let t = castnest_temp(m);
            let mut d0 = vec![Term { tid: tid(&format!("{}_d0", bn(0))), term: Def::Assign { var: t.clone(), value: mid } }];
            let (d, j, extra) = castnest_use(rng, e_cast(outer, s, Expression::Var(t)), s, &bn(0), 1);
            d0.extend(d);
            blocks.push(blk(&bn(0), d0, j));
            blocks.extend(extra);
        }
        _ => {
            // through a temporary across a jump (the fixpoint tables)
            count("castnest:temp-jump");
            let t = castnest_temp(m);
            let d0 = vec![Term { tid: tid(&format!("{}_d0", bn(0))), term: Def::Assign { var: t.clone(), value: mid } }];
            blocks.push(blk(&bn(0), d0, vec![j_branch(&format!("{}_j0", bn(0)), &bn(1))]));
            let (d, j, extra) = castnest_use(rng, e_cast(outer, s, Expression::Var(t)), s, &bn(1), 0);
            blocks.push(blk(&bn(1), d, j));
            blocks.extend(extra);
        }
    }
    sub(&fname, &fname, blocks, Some("__stdcall"))
}

/// directed programs for the nested-extension shape (always run by h_c10, and kept in corpus/C10)
pub fn castnest_directed_programs() -> Vec<(&'static str, Program)> {
    use BinOpType::*;
    use CastOpType::*;
    let ext = || vec![extern_symbol("ext_a", "ext_a", vec![], vec![], false)];
    let one_fn = |blocks: Vec<Term<Blk>>| program(vec![sub("sub_0", "sub_0", blocks, Some("__stdcall"))], ext(), vec![tid("sub_0")]);
    let ret = |t: &str| j_return(t, e_const(0x401000, 8));
    let cl = || e_sub(0, 1, e_var("RCX", 8));
    let mut v = Vec::new();
    // `$W1 = SExt:4(CL); RAX = ZExt:8($W1)` — the demo of the seeded change C10-d
    v.push((
        "cast-zext-of-sext-temp",
        one_fn(vec![blk(
            "b0",
            vec![
                d_assign("b0_d0", tmp("$W1", 4), e_cast(IntSExt, 4, cl())),
                d_assign("b0_d1", var("RAX", 8), e_cast(IntZExt, 8, Expression::Var(tmp("$W1", 4)))),
            ],
            vec![ret("b0_j0")],
        )]),
    ));
    // all four ordered pairs, directly nested, stored to memory
    v.push((
        "cast-pairs-direct",
        one_fn(vec![blk(
            "b0",
            vec![
                d_store("b0_d0", e_bin(IntSub, e_var("RSP", 8), e_const(8, 8)), e_cast(IntZExt, 8, e_cast(IntSExt, 4, cl()))),
                d_store("b0_d1", e_bin(IntSub, e_var("RSP", 8), e_const(16, 8)), e_cast(IntSExt, 8, e_cast(IntZExt, 4, cl()))),
                d_store("b0_d2", e_bin(IntSub, e_var("RSP", 8), e_const(24, 8)), e_cast(IntZExt, 8, e_cast(IntZExt, 2, e_sub(1, 1, e_var("RDX", 8))))),
                d_store("b0_d3", e_bin(IntSub, e_var("RSP", 8), e_const(32, 8)), e_cast(IntSExt, 8, e_cast(IntSExt, 4, e_sub(2, 2, e_var("RBX", 8))))),
            ],
            vec![ret("b0_j0")],
        )]),
    ));
    // the temporary is assigned in one block and extended in the next; the result decides a branch
    v.push((
        "cast-zext-of-sext-jump-cond",
        one_fn(vec![
            blk("b0", vec![d_assign("b0_d0", tmp("$H1", 2), e_cast(IntSExt, 2, e_sub(0, 1, e_var("RSI", 8))))], vec![j_branch("b0_j0", "b1")]),
            blk(
                "b1",
                vec![],
                vec![
                    j_cbranch("b1_j0", "b2", e_bin(IntLess, e_const(0xffff, 8), e_cast(IntZExt, 8, Expression::Var(tmp("$H1", 2))))),
                    j_branch("b1_j1", "b3"),
                ],
            ),
            blk("b2", vec![d_assign("b2_d0", var("RAX", 8), e_const(1, 8))], vec![ret("b2_j0")]),
            blk("b3", vec![d_assign("b3_d0", var("RAX", 8), e_const(2, 8))], vec![ret("b3_j0")]),
        ]),
    ));
    // the extended value is a store address; 2-byte sub-piece from the middle of a register
    v.push((
        "cast-zext-of-sext-address",
        one_fn(vec![blk(
            "b0",
            vec![
                d_assign("b0_d0", tmp("$W1", 4), e_cast(IntSExt, 4, e_sub(2, 2, e_var("RDI", 8)))),
                d_store("b0_d1", e_cast(IntZExt, 8, Expression::Var(tmp("$W1", 4))), e_var("RBX", 8)),
            ],
            vec![j_call("b0_j0", "ext_a", None)],
        )]),
    ));
    v
}

// ---------------------------------------------------------------------------------------------------
// loads (stores, assignments) that read the register they overwrite (dead variable elimination)
//
// `R = <non-foldable expression>; R = load [.. R ..]`: the load reads `R` before it overwrites it, so the earlier
// assignment is alive. Non-foldable: self-dependent, or defined differently on two predecessors (otherwise
// expression propagation inlines it into the address and the assignment really is dead).

/// an address expression (8 bytes) that reads the 8-byte expression `r`
fn self_address(rng: &mut Rng, r: Expression, avoid: &str) -> Expression {
    use BinOpType::*;
    let others: Vec<&str> = REG8.iter().copied().filter(|x| *x != avoid).collect();
    match rng.below(5) {
        0 => r,
        1 => e_bin(IntAdd, r, e_const(*rng.pick(&[8u64, 0x10, 0xfffffffffffffff8]), 8)),
        2 => e_bin(IntAdd, e_bin(IntLeft, r, e_const(3, 8)), e_var(*rng.pick(&others), 8)),
        3 => e_bin(IntSub, e_var("RSP", 8), e_bin(IntAnd, r, e_const(0xf8, 8))),
        _ => e_bin(IntAdd, e_var(*rng.pick(&others), 8), r),
    }
}

pub fn gen_loadself_function(rng: &mut Rng, idx: usize, counts: &mut BTreeMap<String, u64>) -> Term<Sub> {
    use BinOpType::*;
    let fname = format!("sub_{}", idx);
    let bn = |i: usize| format!("s{}_b{}", idx, i);
    let mut count = |k: &str| *counts.entry(k.to_string()).or_insert(0) += 1;
    let r = *rng.pick(&REG8);
    let others: Vec<&str> = REG8.iter().copied().filter(|x| *x != r).collect();
    let rv = || e_var(r, 8);
    let ret = |t: &str| j_return(t, e_const(0x401000, 8));
    // the overwriting def: a load, or (less often) an assignment that reads the register
    let kind = rng.below(4);
    let over = |rng: &mut Rng, t: &str| -> Term<Def> {
        if kind < 3 {
            d_load(t, var(r, 8), self_address(rng, rv(), r))
        } else {
            d_assign(t, var(r, 8), e_bin(*rng.pick(&[IntAdd, IntXOr, IntSub]), rv(), e_var(*rng.pick(&others), 8)))
        }
    };
    count(if kind < 3 { "loadself:load" } else { "loadself:assign" });
    // what makes the register observable afterwards
    let observe = |rng: &mut Rng, bname: &str, dn: usize| -> (Vec<Term<Def>>, Vec<Term<Jmp>>) {
        match rng.below(4) {
            0 => (vec![d_store(&format!("{}_d{}", bname, dn), e_bin(IntSub, e_var("RSP", 8), e_const(8, 8)), rv())], vec![ret(&format!("{}_j0", bname))]),
            1 => (vec![], vec![j_return(&format!("{}_j0", bname), rv())]),
            2 => (vec![d_store(&format!("{}_d{}", bname, dn), rv(), e_var(*rng.pick(&others), 8))], vec![ret(&format!("{}_j0", bname))]),
            _ => (vec![], vec![ret(&format!("{}_j0", bname))]), // a physical register at the return site
        }
    };
    let mut blocks = Vec::new();
    match rng.below(3) {
        0 => {
            // one block; a store between the two defs keeps them from being merged
            count("loadself:local");
            let mut d = vec![d_assign(&format!("{}_d0", bn(0)), var(r, 8), cycle_fn(rng, r, &[]))];
            let mut dn = 1;
            if kind == 3 || rng.chance(1, 2) {
                d.push(d_store(&format!("{}_d1", bn(0)), e_bin(IntSub, e_var("RSP", 8), e_const(0x20, 8)), e_var(*rng.pick(&others), 8)));
                dn = 2;
            }
            d.push(over(rng, &format!("{}_d{}", bn(0), dn)));
            let (od, oj) = observe(rng, &bn(0), dn + 1);
            d.extend(od);
            blocks.push(blk(&bn(0), d, oj));
        }
        1 => {
            // across a jump
            count("loadself:jump");
            blocks.push(blk(&bn(0), vec![d_assign(&format!("{}_d0", bn(0)), var(r, 8), cycle_fn(rng, r, &[]))], vec![j_branch(&format!("{}_j0", bn(0)), &bn(1))]));
            let mut d = vec![over(rng, &format!("{}_d0", bn(1)))];
            let (od, oj) = observe(rng, &bn(1), 1);
            d.extend(od);
            blocks.push(blk(&bn(1), d, oj));
        }
        _ => {
            // defined differently on the two predecessors
            count("loadself:diamond");
            blocks.push(blk(&bn(0), vec![], vec![j_cbranch(&format!("{}_j0", bn(0)), &bn(1), e_var(*rng.pick(&FLAGS), 1)), j_branch(&format!("{}_j1", bn(0)), &bn(2))]));
            let o1 = *rng.pick(&others);
            let o2 = *rng.pick(&others);
            blocks.push(blk(&bn(1), vec![d_assign(&format!("{}_d0", bn(1)), var(r, 8), e_bin(IntAdd, e_var(o1, 8), e_const(1 + rng.below(64), 8)))], vec![j_branch(&format!("{}_j0", bn(1)), &bn(3))]));
            blocks.push(blk(&bn(2), vec![d_assign(&format!("{}_d0", bn(2)), var(r, 8), e_bin(IntSub, e_var(o2, 8), e_const(2 + rng.below(64), 8)))], vec![j_branch(&format!("{}_j0", bn(2)), &bn(3))]));
            let mut d = vec![over(rng, &format!("{}_d0", bn(3)))];
            let (od, oj) = observe(rng, &bn(3), 1);
            d.extend(od);
            blocks.push(blk(&bn(3), d, oj));
        }
    }
    sub(&fname, &fname, blocks, Some("__stdcall"))
}

/// directed programs for loads / stores / assignments that read the register they overwrite (always run by
/// h_c10, and kept in corpus/C10)
pub fn loadself_directed_programs() -> Vec<(&'static str, Program)> {
    use BinOpType::*;
    let ext = || vec![extern_symbol("ext_a", "ext_a", vec![], vec![], false)];
    let one_fn = |blocks: Vec<Term<Blk>>| program(vec![sub("sub_0", "sub_0", blocks, Some("__stdcall"))], ext(), vec![tid("sub_0")]);
    let r = |n: &str| e_var(n, 8);
    let ret = |t: &str| j_return(t, e_const(0x401000, 8));
    let slot = |k: u64| e_bin(IntSub, e_var("RSP", 8), e_const(k, 8));
    let w1 = || Expression::Var(tmp("$W1", 4));
    let mut v = Vec::new();
    // `RAX = RAX + RCX; RAX = load [RAX + 8]` in one block
    v.push((
        "dve-load-self-address",
        one_fn(vec![blk(
            "b0",
            vec![
                d_assign("b0_d0", var("RAX", 8), e_bin(IntAdd, r("RAX"), r("RCX"))),
                d_load("b0_d1", var("RAX", 8), e_bin(IntAdd, r("RAX"), e_const(8, 8))),
                d_store("b0_d2", slot(8), r("RAX")),
            ],
            vec![ret("b0_j0")],
        )]),
    ));
    // `RDI = load [RDI]` exactly, the register is copied and returned
    v.push((
        "dve-load-self-plain",
        one_fn(vec![blk(
            "b0",
            vec![
                d_assign("b0_d0", var("RDI", 8), e_bin(IntSub, r("RDI"), r("RBP"))),
                d_load("b0_d1", var("RDI", 8), r("RDI")),
                d_assign("b0_d2", var("RAX", 8), r("RDI")),
            ],
            vec![j_return("b0_j0", r("RDI"))],
        )]),
    ));
    // across a jump: self-dependent assignment, then the load in the successor
    v.push((
        "dve-load-self-jump",
        one_fn(vec![
            blk("b0", vec![d_assign("b0_d0", var("RBX", 8), e_bin(IntXOr, r("RBX"), r("RDX")))], vec![j_branch("b0_j0", "b1")]),
            blk(
                "b1",
                vec![d_load("b1_d0", var("RBX", 8), e_bin(IntAdd, r("RBX"), e_const(0x10, 8))), d_store("b1_d1", r("RBX"), r("RCX"))],
                vec![j_return("b1_j0", r("RBX"))],
            ),
        ]),
    ));
    // defined differently on the two predecessors; the address mentions the register inside a larger expression
    v.push((
        "dve-load-self-diamond",
        one_fn(vec![
            blk("b0", vec![], vec![j_cbranch("b0_j0", "b1", e_var("ZF", 1)), j_branch("b0_j1", "b2")]),
            blk("b1", vec![d_assign("b1_d0", var("RSI", 8), e_bin(IntAdd, r("RCX"), e_const(1, 8)))], vec![j_branch("b1_j0", "b3")]),
            blk("b2", vec![d_assign("b2_d0", var("RSI", 8), e_bin(IntSub, r("RDX"), e_const(2, 8)))], vec![j_branch("b2_j0", "b3")]),
            blk(
                "b3",
                vec![
                    d_load("b3_d0", var("RSI", 8), e_bin(IntAdd, e_bin(IntLeft, r("RSI"), e_const(3, 8)), r("RDI"))),
                    d_store("b3_d1", slot(16), r("RSI")),
                ],
                vec![ret("b3_j0")],
            ),
        ]),
    ));
    // a 4-byte register (temporary) defined on both arms, then a 4-byte load through it
    v.push((
        "dve-load-self-4byte",
        one_fn(vec![
            blk("b0", vec![], vec![j_cbranch("b0_j0", "b1", e_var("CF", 1)), j_branch("b0_j1", "b2")]),
            blk("b1", vec![d_assign("b1_d0", tmp("$W1", 4), e_sub(0, 4, r("RCX")))], vec![j_branch("b1_j0", "b3")]),
            blk("b2", vec![d_assign("b2_d0", tmp("$W1", 4), e_sub(4, 4, r("RDX")))], vec![j_branch("b2_j0", "b3")]),
            blk(
                "b3",
                vec![
                    d_load("b3_d0", tmp("$W1", 4), e_bin(IntAdd, e_cast(CastOpType::IntZExt, 8, w1()), e_const(0x10, 8))),
                    d_store("b3_d1", slot(8), w1()),
                ],
                vec![ret("b3_j0")],
            ),
        ]),
    ));
    // 4-byte, one block: self-dependent (kept apart by a store), then the load
    v.push((
        "dve-load-self-4byte-local",
        one_fn(vec![blk(
            "b0",
            vec![
                d_assign("b0_d0", tmp("$W1", 4), e_sub(0, 4, r("RBX"))),
                d_store("b0_d1", slot(0x20), r("RCX")),
                d_assign("b0_d2", tmp("$W1", 4), e_bin(IntAdd, w1(), e_sub(0, 4, r("RSI")))),
                d_load("b0_d3", tmp("$W1", 4), e_cast(CastOpType::IntZExt, 8, w1())),
                d_assign("b0_d4", var("RAX", 8), e_cast(CastOpType::IntZExt, 8, w1())),
            ],
            vec![ret("b0_j0")],
        )]),
    ));
    // the analogous assignment and store shapes: `R = R op x` after an assignment that looks dead, and a store
    // whose address and value read the register that is overwritten afterwards
    v.push((
        "dve-assign-store-self",
        one_fn(vec![blk(
            "b0",
            vec![
                d_assign("b0_d0", var("RDX", 8), e_bin(IntXOr, r("RDX"), r("RCX"))),
                d_store("b0_d1", slot(8), r("RBX")),
                d_assign("b0_d2", var("RDX", 8), e_bin(IntAdd, r("RDX"), r("RSI"))),
                d_assign("b0_d3", var("R8", 8), e_bin(IntAdd, r("R8"), e_const(1, 8))),
                d_store("b0_d4", r("R8"), r("R8")),
                d_assign("b0_d5", var("R8", 8), e_const(0, 8)),
            ],
            vec![ret("b0_j0")],
        )]),
    ));
    v
}

// ---------------------------------------------------------------------------------------------------
// a block precondition invalidated by a LOAD (control flow propagation, `get_block_precondition_after_defs`)
//
// A non-entry block entered only under the condition `c` (or only under `¬c`) overwrites a variable of `c`, then
// jumps (directly or through an empty forwarding block) to a def-less block branching on the same condition. The
// entry block stores the opposite value into the cell that is loaded, so the precondition is false after the defs.

#[derive(Clone, Copy)]
pub struct CfPre {
    /// 0: flag register, 1: `R s< 0`, 2: `R != 0`
    pub kind: u8,
    /// the block is entered by the conditional jump (`c` holds) / by the fall-through (`¬c` holds)
    pub positive: bool,
    /// number of empty forwarding blocks between the block and the branching block
    pub fwd: usize,
    /// overwrite by a load (otherwise by an assignment: the control shape)
    pub load: bool,
    /// the block ends with a conditional jump and a fall-through (both lead on)
    pub two_jumps: bool,
}

pub fn cf_precondition_function(p: CfPre, flag: &str, reg: &str, idx: usize) -> Term<Sub> {
    use BinOpType::*;
    let fname = format!("sub_{}", idx);
    let b = |n: &str| format!("s{}_{}", idx, n);
    let ret = |t: &str| j_return(t, e_const(0x401000, 8));
    let slot = e_bin(IntSub, e_var("RSP", 8), e_const(0x18, 8));
    let (cond, target, opposite): (Expression, Variable, Expression) = match p.kind {
        0 => (e_var(flag, 1), var(flag, 1), e_un(UnOpType::BoolNegate, e_var(flag, 1))),
        1 => (
            e_bin(IntSLess, e_var(reg, 8), e_const(0, 8)),
            var(reg, 8),
            e_bin(IntXOr, e_var(reg, 8), e_const(0x8000000000000000, 8)),
        ),
        _ => (
            e_bin(IntNotEqual, e_var(reg, 8), e_const(0, 8)),
            var(reg, 8),
            e_cast(CastOpType::IntZExt, 8, e_bin(IntEqual, e_var(reg, 8), e_const(0, 8))),
        ),
    };
    let other_flag = if flag == "CF" { "SF" } else { "CF" };
    let mut blocks = Vec::new();
    // entry: remember the opposite value, branch on the condition
    let (if_t, else_t) = if p.positive { (b("a"), b("other")) } else { (b("other"), b("a")) };
    blocks.push(blk(
        &b("entry"),
        vec![d_store(&format!("{}_d0", b("entry")), slot.clone(), opposite.clone())],
        vec![j_cbranch(&format!("{}_j0", b("entry")), &if_t, cond.clone()), j_branch(&format!("{}_j1", b("entry")), &else_t)],
    ));
    // the block with the precondition: overwrite the variable of the condition
    let next = if p.fwd > 0 { b("f0") } else { b("c") };
    let over = if p.load {
        d_load(&format!("{}_d0", b("a")), target.clone(), slot.clone())
    } else {
        d_assign(&format!("{}_d0", b("a")), target.clone(), opposite)
    };
    let a_jmps = if p.two_jumps {
        vec![j_cbranch(&format!("{}_j0", b("a")), &next, e_var(other_flag, 1)), j_branch(&format!("{}_j1", b("a")), &next)]
    } else {
        vec![j_branch(&format!("{}_j0", b("a")), &next)]
    };
    blocks.push(blk(&b("a"), vec![over], a_jmps));
    for k in 0..p.fwd {
        let nxt = if k + 1 < p.fwd { b(&format!("f{}", k + 1)) } else { b("c") };
        blocks.push(blk(&b(&format!("f{}", k)), vec![], vec![j_branch(&format!("{}_j0", b(&format!("f{}", k))), &nxt)]));
    }
    // the def-less block branching on the same condition
    blocks.push(blk(&b("c"), vec![], vec![j_cbranch(&format!("{}_j0", b("c")), &b("t"), cond), j_branch(&format!("{}_j1", b("c")), &b("e"))]));
    for (n, k) in [("t", 1u64), ("e", 2), ("other", 3)] {
        blocks.push(blk(&b(n), vec![d_assign(&format!("{}_d0", b(n)), var("RAX", 8), e_const(k, 8))], vec![ret(&format!("{}_j0", b(n)))]));
    }
    sub(&fname, &fname, blocks, Some("__stdcall"))
}

pub fn gen_cfpre_function(rng: &mut Rng, idx: usize, counts: &mut BTreeMap<String, u64>) -> Term<Sub> {
    let p = CfPre {
        kind: rng.below(3) as u8,
        positive: rng.chance(1, 2),
        fwd: rng.below(3) as usize,
        load: !rng.chance(1, 4),
        two_jumps: rng.chance(1, 4),
    };
    *counts.entry(format!("cfpre:{}", if p.load { "load" } else { "assign" })).or_insert(0) += 1;
    let flag = *rng.pick(&FLAGS);
    let reg = *rng.pick(&["RBX", "RCX", "RDX", "RSI", "RDI", "RBP", "R8"]);
    cf_precondition_function(p, flag, reg, idx)
}

/// directed programs for the precondition shape (always run by h_c10, and kept in corpus/C10)
pub fn cfpre_directed_programs() -> Vec<(&'static str, Program)> {
    let ext = || vec![extern_symbol("ext_a", "ext_a", vec![], vec![], false)];
    let one = |p: CfPre, flag: &str, reg: &str| program(vec![cf_precondition_function(p, flag, reg, 0)], ext(), vec![tid("sub_0")]);
    let base = CfPre { kind: 0, positive: true, fwd: 0, load: true, two_jumps: false };
    vec![
        // the demo of the seeded change C10-f: `ZF := load`, jump to the block branching on ZF
        ("cf-load-overwrites-condition", one(base, "ZF", "RBX")),
        ("cf-load-flag-negative-forward", one(CfPre { positive: false, fwd: 1, ..base }, "SF", "RBX")),
        ("cf-load-flag-two-jumps", one(CfPre { two_jumps: true, ..base }, "CF", "RBX")),
        ("cf-load-reg-sless", one(CfPre { kind: 1, fwd: 1, ..base }, "ZF", "RCX")),
        ("cf-load-reg-sless-negative", one(CfPre { kind: 1, positive: false, ..base }, "ZF", "RDI")),
        ("cf-load-reg-nonzero", one(CfPre { kind: 2, ..base }, "ZF", "RSI")),
        ("cf-load-reg-zero-forward2", one(CfPre { kind: 2, positive: false, fwd: 2, ..base }, "ZF", "RDX")),
        // controls: the same with an assignment
        ("cf-assign-flag-control", one(CfPre { load: false, ..base }, "ZF", "RBX")),
        ("cf-assign-reg-control", one(CfPre { kind: 1, load: false, fwd: 1, ..base }, "ZF", "RCX")),
    ]
}

/// directed programs for the assignment-cycle shape (always run by h_c10, and kept in corpus/C10)
pub fn cycle_directed_programs() -> Vec<(&'static str, Program)> {
    use BinOpType::*;
    let ext = || vec![extern_symbol("ext_a", "ext_a", vec![], vec![], false)];
    let one_fn = |blocks: Vec<Term<Blk>>| program(vec![sub("sub_0", "sub_0", blocks, Some("__stdcall"))], ext(), vec![tid("sub_0")]);
    let r = |n: &str| e_var(n, 8);
    let ret = |t: &str| j_return(t, e_const(0x401000, 8));
    let mut v = Vec::new();
    // `RBX = RAX + 1; RAX = RBX + RBX; jmp` — the successor stores RAX and copies it
    v.push((
        "prop-cycle-jump",
        one_fn(vec![
            blk(
                "b0",
                vec![
                    d_assign("b0_d0", var("RBX", 8), e_bin(IntAdd, r("RAX"), e_const(1, 8))),
                    d_assign("b0_d1", var("RAX", 8), e_bin(IntAdd, r("RBX"), r("RBX"))),
                ],
                vec![j_branch("b0_j0", "b1")],
            ),
            blk(
                "b1",
                vec![
                    d_store("b1_d0", e_bin(IntSub, r("RSP"), e_const(8, 8)), r("RAX")),
                    d_assign("b1_d1", var("RCX", 8), r("RAX")),
                ],
                vec![ret("b1_j0")],
            ),
        ]),
    ));
    // a diamond whose arms agree; the join block uses the register as load address and in its condition
    v.push((
        "prop-cycle-diamond",
        one_fn(vec![
            blk(
                "b0",
                vec![
                    d_assign("b0_d0", var("RDX", 8), e_bin(IntXOr, r("RSI"), e_const(0xff, 8))),
                    d_assign("b0_d1", var("RSI", 8), e_bin(IntSub, r("RDX"), e_const(8, 8))),
                ],
                vec![j_cbranch("b0_j0", "b1", e_var("ZF", 1)), j_branch("b0_j1", "b2")],
            ),
            blk("b1", vec![d_assign("b1_d0", var("RCX", 8), e_const(7, 8))], vec![j_branch("b1_j0", "b3")]),
            blk("b2", vec![], vec![j_branch("b2_j0", "b3")]),
            blk(
                "b3",
                vec![d_load("b3_d0", var("RDI", 8), r("RSI"))],
                vec![j_cbranch("b3_j0", "b4", e_bin(IntEqual, r("RSI"), e_const(0xf7, 8))), j_branch("b3_j1", "b5")],
            ),
            blk("b4", vec![d_assign("b4_d0", var("RAX", 8), e_const(1, 8))], vec![ret("b4_j0")]),
            blk("b5", vec![d_assign("b5_d0", var("RAX", 8), e_const(2, 8))], vec![ret("b5_j0")]),
        ]),
    ));
    // a loop whose body repeats the cycle of the entry block and stores the register on every iteration
    v.push((
        "prop-cycle-loop",
        one_fn(vec![
            blk(
                "b0",
                vec![
                    d_assign("b0_d0", var("R8", 8), e_bin(IntAdd, r("RBP"), r("RBP"))),
                    d_assign("b0_d1", var("RBP", 8), e_bin(IntAdd, r("R8"), e_const(3, 8))),
                ],
                vec![j_branch("b0_j0", "b1")],
            ),
            blk(
                "b1",
                vec![
                    d_store("b1_d0", e_bin(IntSub, r("RSP"), e_const(16, 8)), r("RBP")),
                    d_assign("b1_d1", var("R8", 8), e_bin(IntAdd, r("RBP"), r("RBP"))),
                    d_assign("b1_d2", var("RBP", 8), e_bin(IntAdd, r("R8"), e_const(3, 8))),
                ],
                vec![j_cbranch("b1_j0", "b1", e_bin(IntLess, r("RBP"), e_const(0x40, 8))), j_branch("b1_j1", "b2")],
            ),
            blk("b2", vec![d_assign("b2_d0", var("RAX", 8), r("RBP"))], vec![ret("b2_j0")]),
        ]),
    ));
    // a cycle through three registers; the successor uses the register as store address and return target
    v.push((
        "prop-cycle3-return",
        one_fn(vec![
            blk(
                "b0",
                vec![
                    d_assign("b0_d0", var("RBX", 8), e_bin(IntSub, r("RCX"), e_const(2, 8))),
                    d_assign("b0_d1", var("RDX", 8), e_bin(IntAdd, r("RBX"), r("RDI"))),
                    d_assign("b0_d2", var("RCX", 8), e_un(UnOpType::Int2Comp, r("RDX"))),
                ],
                vec![j_branch("b0_j0", "b1")],
            ),
            blk("b1", vec![d_store("b1_d0", r("RCX"), r("RAX"))], vec![j_return("b1_j0", r("RCX"))]),
        ]),
    ));
    v
}

pub fn gen_program(rng: &mut Rng, flavor: Flavor, counts: &mut BTreeMap<String, u64>) -> Program {
    if flavor == Flavor::Behaviour && rng.chance(1, 8) {
        // assignment cycle across a block boundary (one function, sometimes followed by an ordinary one)
        let nsubs = if rng.chance(1, 4) { 2 } else { 1 };
        let shape = ProgShape { nsubs, externs: vec!["ext_a".to_string(), "ext_b".to_string()] };
        let mut subs = vec![gen_cycle_function(rng, 0, counts)];
        if nsubs == 2 {
            subs.push(gen_function(rng, 1, &shape, flavor, counts));
        }
        let externs = vec![extern_symbol("ext_a", "ext_a", vec![], vec![], false), extern_symbol("ext_b", "ext_b", vec![], vec![], false)];
        return program(subs, externs, vec![tid("sub_0")]);
    }
    if flavor == Flavor::Behaviour && rng.chance(1, 14) {
        // a block precondition invalidated by a load / an assignment
        let subs = vec![gen_cfpre_function(rng, 0, counts)];
        let externs = vec![extern_symbol("ext_a", "ext_a", vec![], vec![], false), extern_symbol("ext_b", "ext_b", vec![], vec![], false)];
        return program(subs, externs, vec![tid("sub_0")]);
    }
    if flavor == Flavor::Behaviour && rng.chance(1, 12) {
        // a load / assignment that reads the register it overwrites, after a non-foldable assignment to it
        let subs = vec![gen_loadself_function(rng, 0, counts)];
        let externs = vec![extern_symbol("ext_a", "ext_a", vec![], vec![], false), extern_symbol("ext_b", "ext_b", vec![], vec![], false)];
        return program(subs, externs, vec![tid("sub_0")]);
    }
    if flavor == Flavor::Behaviour && rng.chance(1, 10) {
        // nested extension casts reaching an observable
        let subs = vec![gen_castnest_function(rng, 0, counts)];
        let externs = vec![extern_symbol("ext_a", "ext_a", vec![], vec![], false), extern_symbol("ext_b", "ext_b", vec![], vec![], false)];
        return program(subs, externs, vec![tid("sub_0")]);
    }
    let nsubs = 1 + [0usize, 0, 0, 1, 1, 2][rng.below(6) as usize];
    let shape = ProgShape { nsubs, externs: vec!["ext_a".to_string(), "ext_b".to_string()] };
    let subs: Vec<Term<Sub>> = (0..nsubs).map(|i| gen_function(rng, i, &shape, flavor, counts)).collect();
    let externs = vec![extern_symbol("ext_a", "ext_a", vec![], vec![], false), extern_symbol("ext_b", "ext_b", vec![], vec![], false)];
    program(subs, externs, vec![tid("sub_0")])
}

/// the optimizing passes in the order of `Project::normalize_optimize`
pub const PASSES: [&str; 5] = ["prop", "triv", "dve", "cf", "sa"];

/// run one pass of the REAL code; returns the log texts (stack alignment only)
pub fn run_pass(project: &mut Project, pass: &str) -> Vec<String> {
    match pass {
        "prop" => {
            cwe_checker_lib::analysis::expression_propagation::propagate_input_expression(project);
            vec![]
        }
        "triv" => {
            project.substitute_trivial_expressions();
            vec![]
        }
        "dve" => {
            cwe_checker_lib::analysis::dead_variable_elimination::remove_dead_var_assignments(project);
            vec![]
        }
        "cf" => {
            cwe_checker_lib::intermediate_representation::propagate_control_flow::propagate_control_flow(project);
            vec![]
        }
        "sa" => cwe_checker_lib::analysis::stack_alignment_substitution::substitute_and_on_stackpointer(project)
            .unwrap_or_default()
            .into_iter()
            .map(|m| m.text)
            .collect(),
        _ => panic!("unknown pass"),
    }
}

/// The tables of insertable expressions at the start of every block, computed with the REAL transfer
/// functions (`expression_propagation::Context`: `update_def`, `merge`, call/return edges) and the REAL
/// fixpoint engine, on the program after the real `merge_def_assignments_to_same_var`. The few lines of
/// glue repeat the private `compute_expression_propagation` / `extract_results` of the pass (the pass
/// does not export its tables); the Lean driver checks that the real pass output is the block-local
/// insertion of exactly these tables, so a divergence of the glue shows up as a disagreement.
pub fn real_propagation_tables(project: &Project) -> Value {
    use cwe_checker_lib::analysis::expression_propagation::Context;
    use cwe_checker_lib::analysis::forward_interprocedural_fixpoint::create_computation;
    use cwe_checker_lib::analysis::graph::Node;
    use cwe_checker_lib::analysis::interprocedural_fixpoint_generic::NodeValue;
    let mut merged = project.clone();
    for sub in merged.program.term.subs.values_mut() {
        for blk in sub.term.blocks.iter_mut() {
            cwe_checker_lib::analysis::expression_propagation::merge_def_assignments_to_same_var(blk);
        }
    }
    let graph = cwe_checker_lib::analysis::graph::get_program_cfg(&merged.program);
    let context = Context::new(&graph);
    let mut computation = create_computation(context, None);
    for node in graph.node_indices() {
        if let Node::BlkStart(_blk, _sub) = graph[node] {
            if graph.neighbors_directed(node, petgraph::Incoming).next().is_none()
                || graph[node].get_sub().term.blocks.first() == Some(graph[node].get_block())
            {
                computation.set_node_value(node, NodeValue::Value(std::collections::HashMap::new()));
            }
        }
    }
    computation.compute_with_max_steps(100);
    let mut tables: Vec<(String, Value)> = Vec::new();
    for node in graph.node_indices() {
        if let Node::BlkStart(blk, _sub) = graph[node] {
            if let Some(NodeValue::Value(t)) = computation.get_node_value(node) {
                let mut entries: Vec<(String, Value)> = t
                    .iter()
                    .map(|(v, e)| (format!("{}:{}:{}", v.name, v.size, v.is_temp), json!([serde_json::to_value(v).unwrap(), serde_json::to_value(e).unwrap()])))
                    .collect();
                entries.sort_by(|a, b| a.0.cmp(&b.0));
                tables.push((
                    format!("{}", blk.tid),
                    json!([serde_json::to_value(&blk.tid).unwrap(), entries.into_iter().map(|x| x.1).collect::<Vec<_>>()]),
                ));
            }
        }
    }
    tables.sort_by(|a, b| a.0.cmp(&b.0));
    Value::Array(tables.into_iter().map(|x| x.1).collect())
}

pub fn panic_token(p: &str) -> String {
    format!("panic:{}", p.replace(' ', "_"))
}

/// hand-written programs for the defects found in the unchanged tree (one function `sub_0` each)
pub fn crafted_programs() -> Vec<(&'static str, Program)> {
    use BinOpType::*;
    let rsp = || e_var("RSP", 8);
    let one_fn = |blocks: Vec<Term<Blk>>| program(vec![sub("sub_0", "sub_0", blocks, Some("__stdcall"))], vec![], vec![tid("sub_0")]);
    let mut v = Vec::new();
    // D2: `1 == x - y` is not `x != y`
    v.push((
        "d2-one-eq-sub",
        one_fn(vec![blk(
            "b0",
            vec![
                d_assign("d0", var("ZF", 1), e_bin(IntEqual, e_const(1, 8), e_bin(IntSub, e_var("RAX", 8), e_var("RBX", 8)))),
                d_assign("d1", var("CF", 1), e_bin(IntNotEqual, e_bin(IntSub, e_var("RAX", 8), e_var("RBX", 8)), e_const(1, 8))),
            ],
            vec![j_return("j0", e_var("RCX", 8))],
        )]),
    ));
    // D3: a load into RAX invalidates the propagated expression for RAX
    v.push((
        "d3-load-kills-entry",
        one_fn(vec![
            blk(
                "b0",
                vec![
                    d_assign("d0", var("RAX", 8), e_bin(IntAdd, e_var("RBX", 8), e_const(1, 8))),
                    d_load("d1", var("RAX", 8), rsp()),
                ],
                vec![j_branch("j0", "b1")],
            ),
            blk("b1", vec![d_store("d2", e_var("RCX", 8), e_var("RAX", 8))], vec![j_return("j1", e_var("RDX", 8))]),
        ]),
    ));
    // D4: the def-free entry block loses its only incoming edge and must stay
    v.push((
        "d4-entry-orphaned",
        one_fn(vec![
            blk("b0", vec![], vec![j_cbranch("j0", "bA", e_var("ZF", 1)), j_branch("j1", "bB")]),
            blk("bA", vec![], vec![j_return("j2", e_var("RCX", 8))]),
            blk(
                "bB",
                vec![d_assign("d0", var("RAX", 8), e_bin(IntAdd, e_var("RAX", 8), e_const(1, 8)))],
                vec![j_cbranch("j3", "b0", e_var("ZF", 1)), j_branch("j4", "bA")],
            ),
        ]),
    ));
    // dead-variable elimination: the temporary read by the return target is alive
    v.push((
        "dve-return-target",
        one_fn(vec![blk(
            "b0",
            vec![
                d_assign("d0", tmp("$U1", 8), e_bin(IntAdd, e_var("RBX", 8), e_const(8, 8))),
                d_assign("d1", var("RBX", 8), e_const(0, 8)),
            ],
            vec![j_return("j0", Expression::Var(tmp("$U1", 8)))],
        )]),
    ));
    // known limitation: the CFG (graph.rs) has no edge from a CallOther to its return site, so the
    // analyses do not see the control flow b0 -> b2
    v.push((
        "known-callother-prop",
        one_fn(vec![
            blk("b0", vec![], vec![j_call_other("j0", "syscall", Some("b2"))]),
            blk("b1", vec![d_assign("d0", var("RAX", 8), e_const(1, 8))], vec![j_branch("j1", "b2")]),
            blk("b2", vec![d_store("d1", e_var("RCX", 8), e_var("RAX", 8))], vec![j_return("j2", e_var("RDX", 8))]),
        ]),
    ));
    v.push((
        "known-callother-cf",
        one_fn(vec![
            blk("b0", vec![], vec![j_call_other("j0", "syscall", Some("b2"))]),
            blk("b1", vec![], vec![j_cbranch("j1", "b2", e_bin(IntSLess, e_var("RCX", 8), e_const(0, 8))), j_branch("j2", "b3")]),
            blk(
                "b2",
                vec![d_assign("d0", var("RAX", 8), e_const(1, 8))],
                vec![j_cbranch("j3", "b3", e_bin(IntSLess, e_var("RCX", 8), e_const(0, 8))), j_branch("j4", "b4")],
            ),
            blk("b3", vec![d_assign("d1", var("RBX", 8), e_const(3, 8))], vec![j_return("j5", e_var("RDX", 8))]),
            blk("b4", vec![], vec![j_cbranch("j6", "b5", e_bin(IntSLess, e_var("RCX", 8), e_const(0, 8))), j_branch("j7", "b6")]),
            blk("b5", vec![d_assign("d2", var("RBX", 8), e_const(5, 8))], vec![j_return("j8", e_var("RDX", 8))]),
            blk("b6", vec![d_assign("d3", var("RBX", 8), e_const(6, 8))], vec![j_return("j9", e_var("RDX", 8))]),
        ]),
    ));
    // stack alignment: shapes that must not be substituted (or substituted correctly)
    let mask16 = 0xfffffffffffffff0u64;
    let sa = |name: &'static str, defs: Vec<Term<Def>>| (name, one_fn(vec![blk("b0", defs, vec![j_return("j0", e_var("RCX", 8))])]));
    v.push(sa(
        "sa-aligned-16",
        vec![
            d_assign("d0", var("RSP", 8), e_bin(IntSub, rsp(), e_const(0x28, 8))),
            d_assign("d1", var("RSP", 8), e_bin(IntAnd, rsp(), e_const(mask16, 8))),
            d_store("d2", rsp(), e_var("RAX", 8)),
        ],
    ));
    v.push(sa(
        "sa-const-minus-sp",
        vec![
            d_assign("d0", var("RSP", 8), e_bin(IntSub, e_const(4, 8), rsp())),
            d_assign("d1", var("RSP", 8), e_bin(IntAnd, rsp(), e_const(mask16, 8))),
        ],
    ));
    v.push(sa("sa-other-register", vec![d_assign("d0", var("RSP", 8), e_bin(IntAnd, e_var("RAX", 8), e_const(mask16, 8)))]));
    v.push(sa(
        "sa-load-into-sp",
        vec![d_load("d0", var("RSP", 8), e_var("RAX", 8)), d_assign("d1", var("RSP", 8), e_bin(IntAnd, rsp(), e_const(mask16, 8)))],
    ));
    v.push(sa("sa-align-32", vec![d_assign("d0", var("RSP", 8), e_bin(IntAnd, rsp(), e_const(0xffffffffffffffe0, 8)))]));
    v.push(sa("sa-mask-low-byte", vec![d_assign("d0", var("RSP", 8), e_bin(IntAnd, rsp(), e_const(0xff, 8)))]));
    v.push((
        "sa-entry-reentered",
        one_fn(vec![
            blk(
                "b0",
                vec![
                    d_assign("d0", var("RSP", 8), e_bin(IntSub, rsp(), e_const(8, 8))),
                    d_assign("d1", var("RSP", 8), e_bin(IntAnd, rsp(), e_const(mask16, 8))),
                    d_assign("d2", var("RSP", 8), e_bin(IntSub, rsp(), e_const(8, 8))),
                    d_store("d3", rsp(), e_var("RAX", 8)),
                ],
                vec![j_cbranch("j0", "b0", e_bin(IntSLess, e_var("RAX", 8), e_const(0, 8))), j_branch("j1", "b1")],
            ),
            blk("b1", vec![], vec![j_return("j2", e_var("RCX", 8))]),
        ]),
    ));
    v.push(sa(
        "sa-aligned-twice",
        vec![
            d_assign("d0", var("RSP", 8), e_bin(IntSub, rsp(), e_const(8, 8))),
            d_assign("d1", var("RSP", 8), e_bin(IntAnd, rsp(), e_const(mask16, 8))),
            d_assign("d2", var("RAX", 8), e_const(1, 8)),
            d_assign("d3", var("RSP", 8), e_bin(IntAnd, rsp(), e_const(mask16, 8))),
            d_store("d4", rsp(), e_var("RAX", 8)),
        ],
    ));
    v.extend(cycle_directed_programs());
    v.extend(castnest_directed_programs());
    v.extend(loadself_directed_programs());
    v.extend(cfpre_directed_programs());
    v.push(sa(
        "sa-align-8",
        vec![
            d_assign("d0", var("RSP", 8), e_bin(IntSub, rsp(), e_const(4, 8))),
            d_assign("d1", var("RSP", 8), e_bin(IntAnd, rsp(), e_const(0xfffffffffffffff8, 8))),
        ],
    ));
    v
}
