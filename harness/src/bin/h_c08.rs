//! C08 harness: drives the real `get_program_cfg` / `get_entry_nodes_of_subs` on generated programs
//! (already normalized, raw -> real `normalize_basic`, and raw) and writes the canonical dump of the
//! graph (nodes and edges identified by TIDs, sorted).
use cwe_checker_lib::analysis::graph::{get_entry_nodes_of_subs, get_program_cfg, Edge, Node};
use cwe_checker_lib::intermediate_representation::*;
use petgraph::visit::EdgeRef;
use verif_harness::ir::*;
use verif_harness::*;

fn tid_s(t: &Tid) -> String {
    if t.address == "UNKNOWN" {
        format!("{}", t)
    } else {
        format!("{}@{}", t, t.address)
    }
}
fn bs_s(b: &Term<Blk>, s: &Term<Sub>) -> String {
    format!("{},{}", tid_s(&b.tid), tid_s(&s.tid))
}
fn node_s(n: &Node) -> String {
    match n {
        Node::BlkStart(b, s) => format!("S({})", bs_s(b, s)),
        Node::BlkEnd(b, s) => format!("E({})", bs_s(b, s)),
        Node::CallReturn { call, return_ } => format!("R({};{})", bs_s(call.0, call.1), bs_s(return_.0, return_.1)),
        Node::CallSource { source, target } => format!("C({};{})", bs_s(source.0, source.1), bs_s(target.0, target.1)),
    }
}
fn label_s(e: &Edge) -> String {
    match e {
        Edge::Block => "B".into(),
        Edge::Jump(j, u) => format!("J({},{})", tid_s(&j.tid), u.map(|k| tid_s(&k.tid)).unwrap_or("-".into())),
        Edge::Call(j) => format!("Call({})", tid_s(&j.tid)),
        Edge::ExternCallStub(j) => format!("X({})", tid_s(&j.tid)),
        Edge::CrCallStub => "CrC".into(),
        Edge::CrReturnStub => "CrR".into(),
        Edge::CallCombine(j) => format!("CC({})", tid_s(&j.tid)),
        Edge::ReturnCombine(j) => format!("RC({})", tid_s(&j.tid)),
    }
}

/// run the real graph construction; canonical dump or "panic:…"
fn eval(prog: &Program) -> (Value, usize, usize) {
    let term = Term { tid: tid("program"), term: prog.clone() };
    let r = catch(std::panic::AssertUnwindSafe(|| {
        let g = get_program_cfg(&term);
        let mut nodes: Vec<String> = g.node_indices().map(|i| node_s(&g[i])).collect();
        let mut edges: Vec<String> = g
            .edge_references()
            .map(|e| format!("{}>{}:{}", node_s(&g[e.source()]), node_s(&g[e.target()]), label_s(e.weight())))
            .collect();
        let mut entry: Vec<String> =
            get_entry_nodes_of_subs(&g).iter().map(|(t, n)| format!("{}={}", tid_s(t), node_s(&g[*n]))).collect();
        nodes.sort();
        edges.sort();
        entry.sort();
        let non_block = g.edge_references().filter(|e| !matches!(e.weight(), Edge::Block)).count();
        (json!({"n": nodes, "e": edges, "x": entry}), g.node_count(), non_block)
    }));
    match r {
        Ok(v) => v,
        Err(p) => (Value::String(format!("panic:{}", p.replace(' ', "_"))), 0, 0),
    }
}

#[derive(Clone, Copy, PartialEq)]
enum Mode {
    /// generated well-formed (targets inside the function, unique TIDs, jump shape)
    Gen,
    /// raw program (shared blocks, dangling targets, duplicate TIDs, …) -> real normalize_basic
    Norm,
    /// raw program given to the graph construction as it is
    Raw,
}

struct Shape {
    /// number of blocks of each sub
    nblocks: Vec<usize>,
    nexterns: usize,
}

fn blk_name(s: usize, i: usize) -> String {
    format!("f{}b{}", s, i)
}

fn pick_target(rng: &mut Rng, sh: &Shape, s: usize, raw: bool) -> String {
    if raw {
        let c = rng.below(20);
        if c < 3 {
            // block of another function ("shared" block before normalisation)
            let others: Vec<usize> = (0..sh.nblocks.len()).filter(|&o| o != s && sh.nblocks[o] > 0).collect();
            if !others.is_empty() {
                let o = *rng.pick(&others);
                return blk_name(o, rng.below(sh.nblocks[o] as u64) as usize);
            }
        } else if c == 3 {
            return "nowhere".to_string();
        }
    }
    if sh.nblocks[s] == 0 {
        return "nowhere".to_string();
    }
    blk_name(s, rng.below(sh.nblocks[s] as u64) as usize)
}

fn cond() -> Expression {
    e_var("ZF", 1)
}

fn gen_jmps(rng: &mut Rng, out: &mut Out, sh: &Shape, s: usize, i: usize, raw: bool, hints: &mut Vec<Tid>) -> Vec<Term<Jmp>> {
    let b = blk_name(s, i);
    let j0 = format!("{}j0", b);
    let j1 = format!("{}j1", b);
    let nsubs = sh.nblocks.len();
    let ret_opt = |rng: &mut Rng| -> Option<String> {
        if rng.chance(1, 5) {
            None
        } else {
            Some(pick_target(rng, sh, s, raw))
        }
    };
    let mut single = |rng: &mut Rng, out: &mut Out, t: &str, allow_all: bool| -> Term<Jmp> {
        let k = rng.below(if allow_all { 16 } else { 5 });
        match k {
            0 | 1 | 2 => {
                out.count("jmp:branch");
                j_branch(t, &pick_target(rng, sh, s, raw))
            }
            3 | 4 => {
                out.count("jmp:branchind");
                let n = rng.below(4);
                for _ in 0..n {
                    hints.push(tid(&pick_target(rng, sh, s, raw)));
                }
                j_branch_ind(t, e_var("RAX", 8))
            }
            5 | 6 | 7 | 8 => {
                // direct call to an internal function (possibly empty, possibly itself)
                out.count("jmp:call-internal");
                let callee = if raw && rng.chance(1, 15) { "fnone".to_string() } else { format!("f{}", rng.below(nsubs as u64)) };
                let r = ret_opt(rng);
                if r.is_none() {
                    out.count("jmp:call-noreturn");
                }
                j_call(t, &callee, r.as_deref())
            }
            9 | 10 => {
                out.count("jmp:call-extern");
                let callee = if sh.nexterns == 0 { "x0".to_string() } else { format!("x{}", rng.below(sh.nexterns as u64)) };
                let r = ret_opt(rng);
                if r.is_none() {
                    out.count("jmp:call-noreturn");
                }
                j_call(t, &callee, r.as_deref())
            }
            11 => {
                out.count("jmp:callind");
                let r = ret_opt(rng);
                j_call_ind(t, e_var("RBX", 8), r.as_deref())
            }
            12 => {
                out.count("jmp:callother");
                let r = ret_opt(rng);
                j_call_other(t, "syscall", r.as_deref())
            }
            _ => {
                out.count("jmp:return");
                j_return(t, e_var("RCX", 8))
            }
        }
    };
    let c = rng.below(20);
    if c == 0 {
        out.count("blk:nojmp");
        vec![]
    } else if c < 12 {
        vec![single(rng, out, &j0, true)]
    } else if c < 19 || !raw {
        // conditional + second jump
        out.count("blk:conditional");
        let first = j_cbranch(&j0, &pick_target(rng, sh, s, raw), cond());
        // mostly an unconditional (indirect) jump, sometimes any other jump
        let allow_all = rng.chance(1, 3);
        vec![first, single(rng, out, &j1, allow_all)]
    } else {
        // malformed shapes (raw only): first jump not conditional / three jumps
        if rng.chance(1, 2) {
            out.count("blk:first-not-conditional");
            vec![single(rng, out, &j0, true), single(rng, out, &j1, true)]
        } else {
            out.count("blk:three-jumps");
            let j2 = format!("{}j2", b);
            vec![j_cbranch(&j0, &pick_target(rng, sh, s, raw), cond()), single(rng, out, &j1, false), single(rng, out, &j2, false)]
        }
    }
}

fn gen_program(rng: &mut Rng, out: &mut Out, raw: bool) -> Program {
    let nsubs = 1 + [0usize, 0, 1, 1, 2, 2, 3, 4, 5][rng.below(9) as usize];
    let mut budget = if rng.chance(1, 6) { 10 } else { 8 } as usize;
    let mut nblocks = Vec::new();
    for _ in 0..nsubs {
        let n = if rng.chance(1, 7) { 0 } else { 1 + rng.below(4) as usize };
        let n = n.min(budget);
        budget -= n;
        nblocks.push(n);
    }
    let sh = Shape { nblocks, nexterns: rng.below(3) as usize };
    let mut subs = Vec::new();
    for s in 0..nsubs {
        if sh.nblocks[s] == 0 {
            out.count("sub:empty");
        }
        let mut blocks = Vec::new();
        for i in 0..sh.nblocks[s] {
            let mut hints = Vec::new();
            let jmps = gen_jmps(rng, out, &sh, s, i, raw, &mut hints);
            if !raw {
                // hints of blocks without indirect jump are still targets of the same function
            } else if rng.chance(1, 10) {
                hints.push(tid(&pick_target(rng, &sh, s, raw)));
            }
            let defs = if rng.chance(1, 4) {
                vec![d_assign(&format!("{}d0", blk_name(s, i)), var("RAX", 8), e_var("RBX", 8))]
            } else {
                vec![]
            };
            let mut b = blk(&blk_name(s, i), defs, jmps);
            b.term.indirect_jmp_targets = hints;
            blocks.push(b);
        }
        if raw && rng.chance(1, 25) && !blocks.is_empty() {
            // duplicate block TID inside the function
            out.count("raw:duplicate-block-tid");
            let mut d = blocks[0].clone();
            d.term.jmps.clear();
            blocks.push(d);
        }
        subs.push(sub(&format!("f{}", s), &format!("fun{}", s), blocks, None));
    }
    if raw && rng.chance(1, 25) && nsubs >= 2 && !subs[0].term.blocks.is_empty() {
        // the same block TID listed in two functions
        out.count("raw:block-in-two-subs");
        let d = subs[0].term.blocks[0].clone();
        subs[1].term.blocks.push(d);
    }
    let externs = (0..sh.nexterns).map(|i| extern_symbol(&format!("x{}", i), &format!("ext{}", i), vec![], vec![], i == 1)).collect();
    program(subs, externs, vec![tid("f0")])
}

fn emit(out: &mut Out, kind: &str, prog: &Program) {
    let (r, nodes, non_block) = eval(prog);
    let pj = program_to_json(prog);
    let key = pj.to_string();
    if r.is_string() {
        out.count("impl:panic");
    } else {
        out.count("impl:graph");
        let pairs: usize = prog.subs.values().map(|s| s.term.blocks.len()).sum();
        if nodes > 2 * pairs {
            out.count("graph:has-call-nodes-or-copies");
        }
    }
    out.count(&format!("kind:{}", kind));
    let line = json!({"kind": kind, "prog": pj, "impl": r}).to_string();
    out.case(&line, if non_block > 0 { Some(&key) } else { None });
}

fn main() {
    quiet_panics();
    let args = Args::parse();
    let mut out = Out::new(
        &args,
        "random programs of 1-6 functions (some empty) and up to 10 blocks with direct/conditional/indirect jumps (0-3 hints), \
         internal (incl. recursive, to empty functions)/extern/indirect/CallOther calls with and without return site, returns; \
         three kinds: generated normalized, raw (shared blocks, dangling targets, duplicate TIDs, malformed jump lists) after the real \
         normalize_basic, raw as is; non-trivial = graph has at least one edge besides Block edges; distinct by program",
    );
    if let Some(lines) = args.replay_lines() {
        for line in lines {
            let v: Value = serde_json::from_str(&line).expect("replay line");
            let prog = program_from_json(&v["prog"]);
            emit(&mut out, v["kind"].as_str().unwrap_or("replay"), &prog);
        }
        out.finish();
        return;
    }
    let mut rng = Rng::new(args.seed);
    let n = args.num("programs", 5000, 200000);
    for i in 0..n {
        match i % 5 {
            0 | 1 => {
                let p = gen_program(&mut rng, &mut out, false);
                emit(&mut out, "gen", &p);
            }
            2 | 3 => {
                let p = gen_program(&mut rng, &mut out, true);
                let mut project = project_x64(p);
                let r = catch(std::panic::AssertUnwindSafe(|| {
                    let _ = project.normalize_basic();
                }));
                if r.is_err() {
                    out.count("normalize:panic");
                    continue;
                }
                emit(&mut out, "norm", &project.program.term);
            }
            _ => {
                let p = gen_program(&mut rng, &mut out, true);
                emit(&mut out, "raw", &p);
            }
        }
    }
    out.finish();
}
