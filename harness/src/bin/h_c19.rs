//! C19 harness: drives the real `RuntimeMemoryImage` queries.
use apint::Width;
use cwe_checker_lib::intermediate_representation::*;
use cwe_checker_lib::utils::binary::MemorySegment;
use verif_harness::*;

struct Layout {
    segs: Vec<MemorySegment>,
    le: bool,
}

fn gen_layout(rng: &mut Rng, big: bool) -> Layout {
    let n = 1 + rng.below(4) as usize;
    let mut base: u64 = if big && rng.chance(1, 8) {
        // near the top of the 64-bit space (no overflow of base+len)
        u64::MAX - 200 + rng.below(40)
    } else {
        [0u64, 3, 0x1000, 0x7fff_fff0, 0xffff_fff0][rng.below(5) as usize] + rng.below(8)
    };
    let mut segs = Vec::new();
    for _ in 0..n {
        let maxlen = if rng.chance(1, 3) { 40 } else { 9 };
        let len = 1 + rng.below(maxlen) as usize;
        let mut bytes = Vec::with_capacity(len);
        for _ in 0..len {
            let b = match rng.below(10) {
                0 | 1 => 0u8,
                2 => 0x80 + rng.below(0x80) as u8,
                3 => rng.below(256) as u8,
                _ => 0x20 + rng.below(0x5f) as u8,
            };
            bytes.push(b);
        }
        segs.push(MemorySegment {
            bytes,
            base_address: base,
            read_flag: rng.chance(3, 4),
            write_flag: rng.chance(1, 3),
            execute_flag: rng.chance(1, 3),
        });
        // next segment: adjacent (kernel-module / bare-metal style) or after a gap
        let gap = if rng.chance(1, 2) { 0 } else { 1 + rng.below(6) };
        base = base + len as u64 + gap;
    }
    if rng.chance(1, 3) {
        rng.shuffle(&mut segs);
    }
    Layout { segs, le: rng.chance(1, 2) }
}

fn segs_json(l: &Layout) -> Value {
    Value::Array(
        l.segs
            .iter()
            .map(|s| json!({"b": s.base_address, "d": hex(&s.bytes), "r": s.read_flag, "w": s.write_flag, "x": s.execute_flag}))
            .collect(),
    )
}

fn image(l: &Layout, off: u64) -> RuntimeMemoryImage {
    let mut img = RuntimeMemoryImage {
        memory_segments: l.segs.clone(),
        is_little_endian: l.le,
        is_lkm: false,
    };
    if off != 0 {
        img.add_global_memory_offset(off);
    }
    img
}

fn bv(addr: u64, bytes: u64) -> Bitvector {
    Bitvector::from_u64(addr).into_resize_unsigned(ByteSize::new(bytes))
}

fn show_bool(r: Result<bool, anyhow::Error>) -> String {
    match r {
        Ok(b) => b.to_string(),
        Err(_) => "err".into(),
    }
}

/// evaluate one query on the real code; canonical result string
fn eval(img: &RuntimeMemoryImage, q: &str, a: u64, n: u64) -> String {
    let img = std::panic::AssertUnwindSafe(img);
    let q2 = q.to_string();
    let r = catch(move || match q2.as_str() {
        "read" => match img.read(&bv(a, 8), ByteSize::new(n)) {
            // full-width decimal value (reads wider than 8 bytes are legal: SSE / x87 constants)
            Ok(Some(v)) => {
                let w = u64::from(ByteSize::from(v.width()));
                if w != n {
                    format!("some-wrong-width:{}", w)
                } else if w <= 16 {
                    format!("some:{}", v.into_resize_unsigned(ByteSize::new(16)).try_to_u128().unwrap())
                } else {
                    format!("some-wide:{:?}", v)
                }
            }
            Ok(None) => "none".into(),
            Err(_) => "err".into(),
        },
        "glob" => img.is_global_memory_address(&bv(a, n)).to_string(),
        "str" => match img.read_string_until_null_terminator(&bv(a, 8)) {
            Ok(s) => format!("ok:{}", hex(s.as_bytes())),
            Err(_) => "err".into(),
        },
        "w" => show_bool(img.is_address_writeable(&bv(a, 8))),
        "ir" => show_bool(img.is_interval_readable(a, n)),
        "iw" => show_bool(img.is_interval_writeable(a, n)),
        "ro" => match img.get_ro_data_pointer_at_address(&bv(a, 8)) {
            Ok((slice, idx)) => {
                // identify the segment by its base address
                let base = img
                    .memory_segments
                    .iter()
                    .find(|s| std::ptr::eq(s.bytes.as_ptr(), slice.as_ptr()))
                    .map(|s| s.base_address)
                    .unwrap_or(u64::MAX);
                format!("ok:{}:{}", base, idx)
            }
            Err(_) => "err".into(),
        },
        _ => "unknown-query".into(),
    });
    match r {
        Ok(s) => s,
        Err(p) => format!("panic:{}", p.replace(' ', "_")),
    }
}

fn emit(out: &mut Out, l: &Layout, off: u64, q: &str, a: u64, n: u64) {
    let img = image(l, off);
    let r = eval(&img, q, a, n);
    let line = json!({"q": q, "le": l.le, "segs": segs_json(l), "off": off, "a": a, "n": n, "impl": r}).to_string();
    let nontrivial = r != "err" && r != "false";
    out.count(&format!("q:{}", q));
    out.count(&format!("res:{}", r.split(':').next().unwrap()));
    let key = format!("{}|{}|{}|{}|{}", q, segs_json(l), off, a, n);
    out.case(&line, if nontrivial { Some(&key) } else { None });
}

fn seg_str(s: &MemorySegment) -> String {
    format!("{}:{}:{}{}{}", s.base_address, hex(&s.bytes), s.read_flag as u8, s.write_flag as u8, s.execute_flag as u8)
}

/// evaluate one constructor case on the real code. `v` holds the inputs.
fn eval_ctor(v: &Value) -> String {
    let bin: Vec<u8> = {
        let d = v["bin"].as_str().unwrap();
        (0..d.len() / 2).map(|i| u8::from_str_radix(&d[2 * i..2 * i + 2], 16).unwrap()).collect()
    };
    let n = |k: &str| v[k].as_u64().unwrap();
    let kind = v["q"].as_str().unwrap().to_string();
    let v2 = v.clone();
    let r = catch(move || match kind.as_str() {
        "elfseg" => {
            let mut ph = goblin::elf::ProgramHeader::default();
            ph.p_type = goblin::elf::program_header::PT_LOAD;
            ph.p_offset = n("off");
            ph.p_filesz = n("filesz");
            ph.p_vaddr = n("vaddr");
            ph.p_memsz = n("memsz");
            ph.p_flags = n("flags") as u32;
            seg_str(&MemorySegment::from_elf_segment(&bin, &ph))
        }
        "elfsec" => {
            let mut sh = goblin::elf::SectionHeader::default();
            sh.sh_type = n("shtype") as u32;
            sh.sh_flags = n("flags");
            sh.sh_offset = n("off");
            sh.sh_size = n("size");
            sh.sh_addralign = n("align");
            seg_str(&MemorySegment::from_elf_section(&bin, n("base"), &sh))
        }
        "pesec" => {
            let mut st = goblin::pe::section_table::SectionTable::default();
            st.pointer_to_raw_data = n("rawptr") as u32;
            st.size_of_raw_data = n("rawsize") as u32;
            st.virtual_size = n("vsize") as u32;
            st.virtual_address = n("vaddr") as u32;
            st.characteristics = n("chars") as u32;
            seg_str(&MemorySegment::from_pe_section(&bin, &st))
        }
        "hex" => match cwe_checker_lib::utils::binary::parse_hex_string_to_u64(v2["s"].as_str().unwrap()) {
            Ok(x) => format!("ok:{}", x),
            Err(_) => "err".into(),
        },
        "bare" => {
            let cfg = cwe_checker_lib::utils::binary::BareMetalConfig {
                processor_id: v2["pid"].as_str().unwrap().to_string(),
                flash_base_address: v2["flash"].as_str().unwrap().to_string(),
                ram_base_address: v2["ram"].as_str().unwrap().to_string(),
                ram_size: v2["ramsize"].as_str().unwrap().to_string(),
            };
            match RuntimeMemoryImage::new_from_bare_metal(&bin, &cfg) {
                Ok(img) => format!(
                    "ok:{}:{}:{}",
                    img.is_little_endian as u8,
                    img.is_lkm as u8,
                    img.memory_segments.iter().map(seg_str).collect::<Vec<_>>().join(";")
                ),
                Err(_) => "err".into(),
            }
        }
        _ => "unknown-query".into(),
    });
    match r {
        Ok(s) => s,
        Err(_) => "panic".into(),
    }
}

fn emit_ctor(out: &mut Out, mut v: Value) {
    let r = eval_ctor(&v);
    v["impl"] = json!(r);
    out.count(&format!("q:{}", v["q"].as_str().unwrap()));
    out.count(&format!("ctor-res:{}", r.split(':').next().unwrap()));
    let line = v.to_string();
    out.case(&line, if r != "err" && r != "panic" { Some(&line) } else { None });
}

fn rand_hexstr(rng: &mut Rng) -> String {
    let v = match rng.below(6) { 0 => 0, 1 => rng.below(0x100), 2 => rng.below(0x1_0000_0000), 3 => u64::MAX - rng.below(64), _ => rng.below(0x10000) };
    match rng.below(10) {
        0 => format!("{:x}", v),
        1 => format!("0X{:x}", v),
        2 => format!("0x{:X}", v),
        3 => format!("0x+{:x}", v),
        4 => "0x".to_string(),
        5 => format!("0x{:x}g", v),
        6 => format!("0x1{:016x}", v),
        _ => format!("0x{:x}", v),
    }
}

fn gen_ctor(out: &mut Out, rng: &mut Rng) {
    let blen = rng.below(24) as usize;
    let bin: Vec<u8> = (0..blen).map(|_| rng.below(256) as u8).collect();
    match rng.below(5) {
        0 => {
            let off = rng.below(blen as u64 + 2);
            let filesz = rng.below(blen as u64 + 2);
            let memsz = if rng.chance(1, 2) { filesz } else { rng.below(40) };
            emit_ctor(out, json!({"q":"elfseg","bin":hex(&bin),"off":off,"filesz":filesz,"vaddr":rng.below(0x10000),"memsz":memsz,"flags":rng.below(8)}));
        }
        1 => {
            let off = rng.below(blen as u64 + 2);
            let size = rng.below(blen as u64 + 2);
            let shtype = *rng.pick(&[1u64, 1, 8, 3, 0]);
            let align = *rng.pick(&[0u64, 1, 2, 3, 4, 8, 16, 24, 32]);
            emit_ctor(out, json!({"q":"elfsec","bin":hex(&bin),"base":rng.below(200),"shtype":shtype,"flags":rng.below(8) | if rng.chance(1,8) {1u64<<32} else {0},"off":off,"size":size,"align":align}));
        }
        2 => {
            let rawptr = rng.below(blen as u64 + 2);
            let rawsize = rng.below(blen as u64 + 2);
            let vsize = if rng.chance(1, 2) { rawsize } else { rng.below(40) };
            let chars = (rng.below(8) << 29) | rng.below(0x100);
            emit_ctor(out, json!({"q":"pesec","bin":hex(&bin),"rawptr":rawptr,"rawsize":rawsize,"vsize":vsize,"vaddr":rng.below(0x10000),"chars":chars}));
        }
        3 => emit_ctor(out, json!({"q":"hex","bin":"","s":rand_hexstr(rng)})),
        _ => {
            let bits = *rng.pick(&["16", "32", "64", "8", "+32", "x", "0", "63", "65", "128"]);
            let pid = match rng.below(8) {
                0 => format!("ARM:XE:{}:v8", bits),
                1 => format!("ARM:LE"),
                2 => format!("ARM:BE:{}", bits),
                _ => format!("ARM:{}:{}:v8", if rng.chance(1, 2) { "LE" } else { "BE" }, bits),
            };
            emit_ctor(out, json!({"q":"bare","bin":hex(&bin),"pid":pid,"flash":rand_hexstr(rng),"ram":rand_hexstr(rng),"ramsize":format!("0x{:x}", rng.below(40))}));
        }
    }
}

fn main() {
    quiet_panics();
    let args = Args::parse();
    let mut out = Out::new(
        &args,
        "random layouts of 1-4 pairwise disjoint segments (half of the neighbours adjacent), every address in [base-2,end+2] \
         of every segment, sizes 1/2/3/4/8/10/16, both byte orders; non-trivial = query answered with a value/flag (not err/false); \
         distinct by (query, layout, offset, address, size)",
    );
    if let Some(lines) = args.replay_lines() {
        for line in lines {
            let v: Value = serde_json::from_str(&line).expect("replay line");
            if v.get("bin").is_some() {
                let mut v2 = v.clone();
                v2.as_object_mut().unwrap().remove("impl");
                emit_ctor(&mut out, v2);
                continue;
            }
            let segs = v["segs"]
                .as_array()
                .unwrap()
                .iter()
                .map(|s| MemorySegment {
                    bytes: (0..s["d"].as_str().unwrap().len() / 2)
                        .map(|i| u8::from_str_radix(&s["d"].as_str().unwrap()[2 * i..2 * i + 2], 16).unwrap())
                        .collect(),
                    base_address: s["b"].as_u64().unwrap(),
                    read_flag: s["r"].as_bool().unwrap(),
                    write_flag: s["w"].as_bool().unwrap(),
                    execute_flag: s["x"].as_bool().unwrap(),
                })
                .collect();
            let l = Layout { segs, le: v["le"].as_bool().unwrap() };
            emit(
                &mut out,
                &l,
                v["off"].as_u64().unwrap_or(0),
                v["q"].as_str().unwrap(),
                v["a"].as_u64().unwrap(),
                v["n"].as_u64().unwrap_or(0),
            );
        }
        out.finish();
        return;
    }
    let mut rng = Rng::new(args.seed);
    let ctors = args.num("ctors", 20_000, 400_000);
    for _ in 0..ctors {
        gen_ctor(&mut out, &mut rng);
    }
    let layouts = args.num("layouts", 150, 6000);
    for _ in 0..layouts {
        let l = gen_layout(&mut rng, true);
        let off = if rng.chance(1, 5) { 1 + rng.below(0x1000) } else { 0 };
        let top = l.segs.iter().map(|s| s.base_address + s.bytes.len() as u64).max().unwrap();
        let off = if top.checked_add(off).is_none() { 0 } else { off };
        for s in l.segs.clone().iter() {
            let lo = (s.base_address + off).saturating_sub(2);
            let hi = (s.base_address + off + s.bytes.len() as u64).saturating_add(2);
            let mut a = lo;
            loop {
                // odd and wide sizes (3, 10, 16 bytes) as well: the value is assembled byte by byte for ANY size
                for n in [3u64, 10, 16] {
                    emit(&mut out, &l, off, "read", a, n);
                }
                for n in [1u64, 2, 4, 8] {
                    emit(&mut out, &l, off, "read", a, n);
                    // the constant itself has n bytes, so only addresses representable in n bytes can be asked
                    let a_n = if n == 8 { a } else { a & ((1u64 << (8 * n)) - 1) };
                    emit(&mut out, &l, off, "glob", a_n, n);
                }
                emit(&mut out, &l, off, "str", a, 0);
                emit(&mut out, &l, off, "w", a, 0);
                emit(&mut out, &l, off, "ro", a, 0);
                let e = a.saturating_add(rng.below(12));
                emit(&mut out, &l, off, "ir", a, e);
                emit(&mut out, &l, off, "iw", a, e);
                if a == hi {
                    break;
                }
                a += 1;
            }
        }
    }
    out.finish();
}
