//! C16 harness: drives the real call-site checkers CWE676, CWE782, CWE426, CWE332 through their
//! `CWE_MODULE.run` entry points.
//!
//! One case line per (program, checker):
//! `{"chk":"CWE676","prog":<canonical program JSON>,"cfg":<the serde_json::Value handed to the module>,
//!   "impl":{"warnings":[CweWarning…],"logs":n} | "panic:…", "cfgsrc":"gen"|"repo", "graph":"cfg"|"empty"}`.
//! The warnings are in the order returned by the module (it is deterministic).
use cwe_checker_lib::analysis::graph::{get_program_cfg, Graph};
use cwe_checker_lib::checkers::{cwe_332, cwe_426, cwe_676, cwe_782};
use cwe_checker_lib::intermediate_representation::*;
use cwe_checker_lib::pipeline::AnalysisResults;
use cwe_checker_lib::CweModule;
use verif_harness::ir::*;
use verif_harness::*;

/// names of extern symbols / configuration entries; contains prefixes and extensions of the names
/// the checkers look for, and names that only occur in configurations
const NAMES: &[&str] = &[
    "system", "ioctl", "setuid", "setgid", "seteuid", "rand", "srand", "strcpy", "memcpy", "gets", "printf", "sys",
    "system_", "ioct", "ioctl2", "setuids", "ran", "srandom", "random", "", "strcp", "malloc",
];

fn modules() -> Vec<&'static CweModule> {
    vec![&cwe_676::CWE_MODULE, &cwe_782::CWE_MODULE, &cwe_426::CWE_MODULE, &cwe_332::CWE_MODULE]
}

struct Gen {
    prog: Program,
    wellformed: bool,
}

fn gen_program(rng: &mut Rng, dup_names: bool) -> Gen {
    // extern symbol table
    let n_ext = rng.below(7) as usize;
    // a third of the programs concentrate on the two names CWE426 needs together
    let focus: &[&str] = if rng.chance(1, 3) {
        &["system", "setuid", "system", "setgid", "ioctl"]
    } else {
        &["system", "ioctl", "setuid", "rand", "srand", "strcpy", "setgid"]
    };
    let mut ext: Vec<ExternSymbol> = Vec::new();
    let mut used: Vec<String> = Vec::new();
    for i in 0..n_ext {
        let name = if dup_names && !used.is_empty() && rng.chance(1, 2) {
            rng.pick(&used).clone()
        } else {
            let mut tries = 0;
            loop {
                let n = if rng.chance(3, 5) { rng.pick(focus).to_string() } else { rng.pick(NAMES).to_string() };
                tries += 1;
                if !used.contains(&n) || tries > 20 {
                    break n;
                }
            }
        };
        if !dup_names && used.contains(&name) {
            continue;
        }
        used.push(name.clone());
        // tids are not ordered like the names: the key order of the BTreeMap is the tid order
        let t = format!("ext_{}_{}", (i * 7 + 3) % 10, i);
        let mut s = extern_symbol(&t, &name, vec![], vec![], false);
        s.addresses = vec![format!("{:x}", 0x400000 + i * 16)];
        ext.push(s);
    }
    let ext_tids: Vec<Tid> = ext.iter().map(|s| s.tid.clone()).collect();
    // subs
    let n_subs = rng.below(6) as usize;
    let mut wellformed = true;
    let sub_tid = |i: usize| tid_at(&format!("sub_{}", i), &format!("{:x}", 0x1000 + i * 0x100));
    let sub_tids: Vec<Tid> = (0..n_subs).map(sub_tid).collect();
    let share_tid = rng.chance(1, 25) && !ext_tids.is_empty();
    let mut subs = Vec::new();
    let mut counter = 0;
    for si in 0..n_subs {
        let n_blocks = 1 + rng.below(3) as usize;
        let blk_id = |bi: usize| format!("blk_{}_{}", si, bi);
        let mut blocks = Vec::new();
        for bi in 0..n_blocks {
            let n_jmps = match rng.below(8) {
                0 => 0,
                1..=4 => 1,
                5 | 6 => 2,
                _ => 3 + rng.below(2) as usize,
            };
            if n_jmps > 2 {
                wellformed = false;
            }
            let mut jmps = Vec::new();
            for ji in 0..n_jmps {
                counter += 1;
                let jt = tid_at(&format!("jmp_{}", counter), &format!("{:x}", 0x1000 + si * 0x100 + bi * 0x10 + ji));
                // return to an existing block of the same sub, or nowhere
                let ret = if rng.chance(4, 5) { Some(tid(&blk_id(rng.below(n_blocks as u64) as usize))) } else { None };
                let term = match rng.below(20) {
                    0..=10 if !ext_tids.is_empty() => Jmp::Call { target: rng.pick(&ext_tids).clone(), return_: ret },
                    11 | 12 => Jmp::Call { target: rng.pick(&sub_tids).clone(), return_: ret },
                    13 => {
                        wellformed = false;
                        Jmp::Call { target: tid("nowhere"), return_: ret }
                    }
                    14 | 15 => Jmp::CallInd { target: e_var("RAX", 8), return_: ret },
                    16 => Jmp::CallOther { description: "ioctl".to_string(), return_: ret },
                    17 if !ext_tids.is_empty() => {
                        // a branch to the tid of a symbol is not a call
                        wellformed = false;
                        Jmp::Branch(rng.pick(&ext_tids).clone())
                    }
                    18 => Jmp::Branch(tid(&blk_id(rng.below(n_blocks as u64) as usize))),
                    _ => Jmp::Return(e_var("RSP", 8)),
                };
                if ji + 1 < n_jmps {
                    // only the last jump of a block may be an unconditional one in real programs
                    if !matches!(term, Jmp::Branch(_)) || n_jmps > 2 {
                        wellformed = false;
                    }
                }
                jmps.push(Term { tid: jt, term });
            }
            blocks.push(blk(&blk_id(bi), vec![], jmps));
        }
        // function names: sometimes the name of an imported symbol
        let name = if rng.chance(1, 5) { rng.pick(focus).to_string() } else { format!("fn_{}", si) };
        let t = if share_tid && si == 0 { ext_tids[0].clone() } else { sub_tids[si].clone() };
        if share_tid {
            wellformed = false;
        }
        subs.push(Term { tid: t, term: Sub { name, blocks, calling_convention: None } });
    }
    Gen { prog: program(subs, ext, vec![]), wellformed }
}

fn pick_names(rng: &mut Rng, prog: &Program, max: u64) -> Vec<String> {
    let table: Vec<String> = prog.extern_symbols.values().map(|s| s.name.clone()).collect();
    let n = rng.below(max + 1);
    (0..n)
        .map(|_| {
            if !table.is_empty() && rng.chance(1, 2) {
                rng.pick(&table).clone()
            } else {
                rng.pick(NAMES).to_string()
            }
        })
        .collect()
}

fn gen_config(rng: &mut Rng, prog: &Program, chk: &str, repo_cfg: &Value) -> (Value, &'static str) {
    if rng.chance(1, 6) && !repo_cfg[chk].is_null() {
        return (repo_cfg[chk].clone(), "repo");
    }
    let v = match chk {
        "CWE676" => json!({"symbols": pick_names(rng, prog, 6), "_comment": "generated"}),
        "CWE426" => {
            let mut names = pick_names(rng, prog, 4);
            if rng.chance(1, 2) {
                names.push("setuid".to_string());
            }
            json!({"symbols": names})
        }
        "CWE332" => {
            let n = rng.below(4);
            let mut pairs: Vec<Value> = Vec::new();
            for _ in 0..n {
                let a = pick_names(rng, prog, 1).pop().unwrap_or_else(|| "srand".to_string());
                let b = pick_names(rng, prog, 1).pop().unwrap_or_else(|| "rand".to_string());
                pairs.push(json!([a, b]));
            }
            if rng.chance(1, 2) {
                pairs.push(json!(["srand", "rand"]));
            }
            json!({"pairs": pairs})
        }
        _ => json!({"symbols": []}),
    };
    (v, "gen")
}

/// run one module on the program; canonical result
fn eval(prog: &Program, chk: &str, cfg: &Value) -> (Value, &'static str, usize) {
    let project = project_x64(prog.clone());
    // the four checkers never look at the control flow graph; build the real one where the builder
    // accepts the program, otherwise hand over an empty graph
    let pref = std::panic::AssertUnwindSafe(&project);
    let graph = catch(move || get_program_cfg(&pref.program));
    let (graph, gkind): (Graph, &'static str) = match graph {
        Ok(g) => (g, "cfg"),
        Err(_) => (Graph::new(), "empty"),
    };
    let binary: Vec<u8> = Vec::new();
    let module = modules().into_iter().find(|m| m.name == chk).expect("module");
    let results = AnalysisResults::new(&binary, &graph, &project);
    let rref = std::panic::AssertUnwindSafe(&results);
    match catch(move || (module.run)(*rref, cfg)) {
        Ok((logs, warnings)) => {
            let n = warnings.len();
            (json!({"warnings": serde_json::to_value(&warnings).unwrap(), "logs": logs.len()}), gkind, n)
        }
        Err(p) => (Value::String(format!("panic:{}", p.replace(' ', "_"))), gkind, 0),
    }
}

fn emit(out: &mut Out, prog: &Program, chk: &str, cfg: &Value, cfgsrc: &str) {
    let (r, gkind, n) = eval(prog, chk, cfg);
    out.count(&format!("chk:{}", chk));
    out.count(&format!("graph:{}", gkind));
    out.count(&format!("cfgsrc:{}", cfgsrc));
    out.count_n(&format!("warnings:{}", chk), n as u64);
    out.count(&format!("{}:{}", chk, if n == 0 { "silent" } else { "warns" }));
    let line = json!({"chk": chk, "prog": program_to_json(prog), "cfg": cfg, "impl": r, "cfgsrc": cfgsrc, "graph": gkind}).to_string();
    out.case(&line, if n > 0 { Some(&line) } else { None });
}

fn main() {
    quiet_panics();
    let args = Args::parse();
    let mut out = Out::new(
        &args,
        "random programs (0-5 functions, 1-3 blocks, 0-4 jumps per block: calls to imported symbols, to functions, to \
         non-existing Tids, indirect calls, CallOther, branches, returns; function names sometimes equal to symbol names) \
         with random extern symbol tables (names incl. prefixes/extensions of the searched names; a stream with duplicate \
         names) and random configurations (a sixth: the repo's config.json); one case per (program, checker); \
         non-trivial = at least one warning; distinct by whole case",
    );
    if let Some(lines) = args.replay_lines() {
        for line in lines {
            let v: Value = serde_json::from_str(&line).expect("replay line");
            let prog = program_from_json(&v["prog"]);
            emit(&mut out, &prog, v["chk"].as_str().unwrap(), &v["cfg"], v["cfgsrc"].as_str().unwrap_or("replay"));
        }
        out.finish();
        return;
    }
    let repo = std::env::var("VERIF_REPO").unwrap_or_else(|_| "/repo".to_string());
    let repo_cfg: Value = std::fs::read_to_string(format!("{}/src/config.json", repo))
        .ok()
        .and_then(|s| serde_json::from_str(&s).ok())
        .unwrap_or(Value::Null);
    let mut rng = Rng::new(args.seed);
    let programs = args.num("programs", 1500, 25000);
    for k in 0..programs {
        let dup = k % 5 == 4;
        let g = gen_program(&mut rng, dup);
        out.count(if dup { "stream:dupnames" } else { "stream:unique" });
        out.count(if g.wellformed { "prog:wellformed" } else { "prog:irregular" });
        for chk in ["CWE676", "CWE782", "CWE426", "CWE332"] {
            let (cfg, src) = gen_config(&mut rng, &g.prog, chk, &repo_cfg);
            emit(&mut out, &g.prog, chk, &cfg, src);
        }
    }
    out.finish();
}
