//! C04 harness: drives the real conditional refinement of `IntervalDomain`
//! (`add_signed/unsigned_less/greater_equal_bound`, `add_not_equal_bound`, `intersect`) and the five
//! bound functions of `DataDomain<IntervalDomain>`.
//!
//! Case lines: `{"k":"bound","kind":"sle|sge|ule|uge|ne","a":D,"b":"bound","impl":S|"err"}`,
//! `{"k":"isect","a":D,"b":D,"wit":[common members],"impl":S|"err"}`,
//! `{"k":"disect","size":bytes,"a":V,"b":V,"impl":"err"|"abs=…;rel=id:D,…;top=…;size=…"}` with `V = {"abs":D|null,"rel":[[id,D],…],"top":bool}`,
//! `{"k":"dbound","kind":…,"a":D|null,"rel":n,"top":bool,"b":"bound","impl":"err"|"abs=…;rel=same|changed;top=…"}`.
use cwe_checker_lib::abstract_domain::*;
use cwe_checker_lib::intermediate_representation::*;
use std::collections::BTreeMap;
use verif_harness::*;

#[path = "itv_common/mod.rs"]
mod common;
use common::*;

const KINDS: [&str; 5] = ["sle", "sge", "ule", "uge", "ne"];

fn guard<T>(f: impl FnOnce() -> T) -> Result<T, String> {
    catch(std::panic::AssertUnwindSafe(f))
}

fn panic_str(p: String) -> String {
    format!("panic:{}", p.replace(' ', "_").chars().take(80).collect::<String>())
}

fn apply<T: SpecializeByConditional>(kind: &str, v: T, b: &Bitvector) -> Result<T, anyhow::Error> {
    match kind {
        "sle" => v.add_signed_less_equal_bound(b),
        "sge" => v.add_signed_greater_equal_bound(b),
        "ule" => v.add_unsigned_less_equal_bound(b),
        "uge" => v.add_unsigned_greater_equal_bound(b),
        "ne" => v.add_not_equal_bound(b),
        _ => panic!("kind"),
    }
}

fn show_res(r: Result<Result<IntervalDomain, anyhow::Error>, String>) -> String {
    match r {
        Ok(Ok(v)) => show_impl(&v),
        Ok(Err(_)) => "err".to_string(),
        Err(p) => panic_str(p),
    }
}

fn emit_bound(out: &mut Out, kind: &str, a: &Dom, b: i128, cap: u64) {
    let ia = to_impl(a);
    let bb = bv(a.w, b);
    let imp = show_res(guard(|| apply(kind, ia, &bb)));
    let line = format!(
        "{{\"k\":\"bound\",\"kind\":\"{}\",\"a\":{},\"b\":\"{}\",\"cap\":{},\"impl\":\"{}\"}}",
        kind, dom_json(a), b, cap, imp
    );
    out.count(&format!("bound:{}", kind));
    out.count(if imp == "err" { "res:unsat" } else { "res:sat" });
    let key = format!("{}|{}|{}", kind, dom_json(a), b);
    out.case(&line, if imp == "err" { None } else { Some(&key) });
}

fn emit_isect(out: &mut Out, a: &Dom, b: &Dom, wit: &[i128], cap: u64) {
    let ia = to_impl(a);
    let ib = to_impl(b);
    let imp = show_res(guard(|| ia.intersect(&ib)));
    let w: Vec<String> = wit.iter().map(|x| format!("\"{}\"", x)).collect();
    let line = format!(
        "{{\"k\":\"isect\",\"a\":{},\"b\":{},\"wit\":[{}],\"cap\":{},\"impl\":\"{}\"}}",
        dom_json(a), dom_json(b), w.join(","), cap, imp
    );
    out.count("intersect");
    out.count(if imp == "err" { "isect:empty" } else { "isect:nonempty" });
    let key = format!("i|{}|{}", dom_json(a), dom_json(b));
    out.case(&line, if imp == "err" { None } else { Some(&key) });
}

fn ident(i: u64) -> AbstractIdentifier {
    AbstractIdentifier::from_var(
        Tid::new(format!("t{}", i)),
        &Variable { name: format!("R{}", i), size: ByteSize::new(8), is_temp: false },
    )
}

fn emit_dbound(out: &mut Out, kind: &str, a: Option<&Dom>, w: usize, rel: u64, top: bool, b: i128, cap: u64) {
    let mut d: DataDomain<IntervalDomain> = DataDomain::new_empty(ByteSize::new((w / 8) as u64));
    let mut relmap = BTreeMap::new();
    for i in 0..rel {
        relmap.insert(ident(i), to_impl(&Dom { w, s: i as i128, e: i as i128 + 4, st: 2, u: None, l: Some(-3), d: 1 }));
    }
    d.set_relative_values(relmap.clone());
    d.set_absolute_value(a.map(to_impl));
    if top {
        d.set_contains_top_flag();
    }
    let bb = bv(w, b);
    let d2 = d.clone();
    let r = guard(|| apply(kind, d2, &bb));
    let imp = match r {
        Ok(Ok(v)) => format!(
            "abs={};rel={};top={}",
            match v.get_absolute_value() {
                Some(x) => show_impl(x),
                None => "err".to_string(),
            },
            if *v.get_relative_values() == relmap && v.bytesize() == d.bytesize() { "same" } else { "changed" },
            v.contains_top()
        ),
        Ok(Err(_)) => "err".to_string(),
        Err(p) => panic_str(p),
    };
    let line = format!(
        "{{\"k\":\"dbound\",\"kind\":\"{}\",\"a\":{},\"w\":{},\"rel\":{},\"top\":{},\"b\":\"{}\",\"cap\":{},\"impl\":\"{}\"}}",
        kind,
        a.map(dom_json).unwrap_or("null".to_string()),
        w, rel, top, b, cap, imp
    );
    out.count("data-bound");
    let key = format!("d|{}|{:?}|{}|{}|{}", kind, a, rel, top, b);
    out.case(&line, if imp == "err" { None } else { Some(&key) });
}

/// a `DataDomain<IntervalDomain>` value of the harness: relative targets (id, offset) in id order,
/// absolute part, top flag
#[derive(Clone, Debug)]
struct DVal {
    rel: Vec<(u64, Dom)>,
    abs: Option<Dom>,
    top: bool,
}

fn dval_json(d: &DVal) -> String {
    let rel: Vec<String> = d.rel.iter().map(|(i, o)| format!("[{},{}]", i, dom_json(o))).collect();
    format!(
        "{{\"abs\":{},\"rel\":[{}],\"top\":{}}}",
        d.abs.as_ref().map(dom_json).unwrap_or("null".to_string()),
        rel.join(","),
        d.top
    )
}

fn dval_from_json(v: &Value) -> DVal {
    DVal {
        rel: v["rel"].as_array().unwrap().iter().map(|p| (p[0].as_u64().unwrap(), dom_from_json(&p[1]))).collect(),
        abs: if v["abs"].is_null() { None } else { Some(dom_from_json(&v["abs"])) },
        top: v["top"].as_bool().unwrap(),
    }
}

fn dval_impl(size: u64, d: &DVal) -> DataDomain<IntervalDomain> {
    let mut r: DataDomain<IntervalDomain> = DataDomain::new_empty(ByteSize::new(size));
    r.set_relative_values(d.rel.iter().map(|(i, o)| (ident(*i), to_impl(o))).collect());
    r.set_absolute_value(d.abs.as_ref().map(to_impl));
    if d.top {
        r.set_contains_top_flag();
    }
    r
}

/// canonical rendering of a `DataDomain` result
fn show_data(v: &DataDomain<IntervalDomain>) -> String {
    let rel: Vec<String> = v
        .get_relative_values()
        .iter()
        .map(|(id, o)| {
            let i = (0..16).find(|i| ident(*i) == *id).map(|i| i.to_string()).unwrap_or("?".to_string());
            format!("{}:{}", i, show_impl(o))
        })
        .collect();
    format!(
        "abs={};rel={};top={};size={}",
        v.get_absolute_value().map(show_impl).unwrap_or("none".to_string()),
        rel.join(","),
        v.contains_top(),
        u64::from(v.bytesize())
    )
}

/// `DataDomain::intersect` of the real code
fn emit_disect(out: &mut Out, size: u64, a: &DVal, b: &DVal, cap: u64) {
    let (ia, ib) = (dval_impl(size, a), dval_impl(size, b));
    let imp = match guard(|| ia.intersect(&ib)) {
        Ok(Ok(v)) => show_data(&v),
        Ok(Err(_)) => "err".to_string(),
        Err(p) => panic_str(p),
    };
    let line = format!(
        "{{\"k\":\"disect\",\"size\":{},\"a\":{},\"b\":{},\"cap\":{},\"impl\":\"{}\"}}",
        size, dval_json(a), dval_json(b), cap, imp
    );
    out.count("data-intersect");
    let shape = |d: &DVal| match (d.rel.is_empty(), d.abs.is_none()) {
        (true, true) => "none",
        (true, false) => "abs",
        (false, true) => "rel",
        (false, false) => "mixed",
    };
    out.count(&format!("disect:{}x{}", shape(a), shape(b)));
    out.count(if imp == "err" { "disect:empty" } else { "disect:nonempty" });
    let key = format!("di|{}|{}|{}", size, dval_json(a), dval_json(b));
    out.case(&line, if imp == "err" { None } else { Some(&key) });
}

/// a random `DataDomain` value of `w` bits; `like`: a value to correlate with (shared identifiers with
/// overlapping offsets, absolute part around a common member)
fn rnd_dval(rng: &mut Rng, w: usize, like: Option<&DVal>) -> DVal {
    let hints = rng.chance(1, 3);
    let mut rel: Vec<(u64, Dom)> = Vec::new();
    let nrel = match rng.below(5) { 0 | 1 => 0, 2 => 1, 3 => 2, _ => 3 };
    for _ in 0..nrel {
        let id = match like {
            Some(l) if !l.rel.is_empty() && rng.chance(2, 3) => l.rel[rng.below(l.rel.len() as u64) as usize].0,
            _ => rng.below(5),
        };
        if rel.iter().any(|(i, _)| *i == id) {
            continue;
        }
        let off = match like.and_then(|l| l.rel.iter().find(|(i, _)| *i == id)) {
            Some((_, o)) if rng.chance(3, 4) => {
                let x = rnd_member(rng, o);
                let st = if rng.chance(1, 4) { 0 } else { rnd_stride(rng, w) };
                let iv = interval_around(rng, w, x, st);
                with_hints(rng, w, iv, hints)
            }
            _ => rnd_dom(rng, w, hints),
        };
        rel.push((id, off));
    }
    rel.sort_by_key(|(i, _)| *i);
    let abs = if rng.chance(1, 3) {
        None
    } else {
        match like.and_then(|l| l.abs.as_ref()) {
            Some(o) if rng.chance(2, 3) => {
                let x = rnd_member(rng, o);
                let st = if rng.chance(1, 4) { 0 } else { rnd_stride(rng, w) };
                let iv = interval_around(rng, w, x, st);
                Some(with_hints(rng, w, iv, hints))
            }
            _ => Some(rnd_dom(rng, w, hints)),
        }
    };
    DVal { rel, abs, top: rng.chance(1, 4) }
}

/// a bound that is interesting for `a`: members, neighbours, bounds, hints, sign boundaries, random
fn rnd_bound(rng: &mut Rng, a: &Dom) -> i128 {
    let w = a.w;
    let x = match rng.below(12) {
        0 => a.s,
        1 => a.e,
        2 => rnd_member(rng, a),
        3 => rnd_member(rng, a).wrapping_add(1),
        4 => rnd_member(rng, a).wrapping_sub(1),
        5 => a.s.wrapping_sub(1 + rng.below(3) as i128),
        6 => a.e.wrapping_add(1 + rng.below(3) as i128),
        7 => a.u.unwrap_or(0),
        8 => a.l.unwrap_or(-1),
        9 => *rng.pick(&[0i128, -1, 1, smin(w), smax(w), smin(w) + 1, smax(w) - 1]),
        _ => rnd_val(rng, w),
    };
    sv(&bv(w, x))
}

/// a well-formed interval of width `w` that contains `x`
fn interval_around(rng: &mut Rng, w: usize, x: i128, stride: u64) -> (i128, i128, u64) {
    if stride == 0 {
        return (x, x, 0);
    }
    let down_room = ((x as u128).wrapping_sub(smin(w) as u128)) / stride as u128;
    let up_room = ((smax(w) as u128).wrapping_sub(x as u128)) / stride as u128;
    let pick = |rng: &mut Rng, room: u128| -> u128 {
        if room == 0 { 0 } else {
            match rng.below(5) { 0 => 0, 1 => room, 2 => 1.min(room), _ => (((rng.next() as u128) << 64 | rng.next() as u128) % (room + 1)) }
        }
    };
    let dn = pick(rng, down_room);
    let up = pick(rng, up_room);
    let s = (x as u128).wrapping_sub(dn * stride as u128) as i128;
    let e = (x as u128).wrapping_add(up * stride as u128) as i128;
    if s == e { (x, x, 0) } else { (s, e, stride) }
}

fn with_hints(rng: &mut Rng, w: usize, (s, e, st): (i128, i128, u64), hints: bool) -> Dom {
    let (u, l, d) = if hints { (rnd_hint_upper(rng, w, e), rnd_hint_lower(rng, w, s), rnd_delay(rng)) } else { (None, None, 0) };
    Dom { w, s, e, st, u, l, d }
}

fn gcd_u128(mut a: u128, mut b: u128) -> u128 {
    while b != 0 {
        let t = a % b;
        a = b;
        b = t;
    }
    a
}

/// two `u64` strides whose least common multiple lies next to the `u64` overflow boundary (just below,
/// exactly `u64::MAX`, just above) — the region where the `i128` chinese-remainder products are largest
fn boundary_strides(rng: &mut Rng) -> (u64, u64) {
    let m = u64::MAX as u128;
    match rng.below(10) {
        // fixed shapes: factors of 2^64-1 = 3*5*17*257*641*65537*6700417, powers of two, 2^32±k
        0 => {
            let f = [3u64, 5, 17, 257, 641, 65537, 6700417, 4294967295, 4294967297, 0x5555555555555555, 0x3333333333333333];
            let a = *rng.pick(&f);
            let b = if rng.chance(1, 2) { u64::MAX / a } else { u64::MAX };
            if rng.chance(1, 2) { (a, b) } else { (b, a) }
        }
        1 => {
            let k = 1 + rng.below(63);
            let a = 1u64 << k;
            let b = ((1u64 << (64 - k)) - 1).wrapping_add(2 * rng.below(2)) | 1; // 2^(64-k) ∓ 1, odd
            if rng.chance(1, 2) { (a, b) } else { (b, a) }
        }
        2 => {
            let a = (1u64 << 32).wrapping_add(rng.below(9)).wrapping_sub(4);
            let b = (1u64 << 32).wrapping_add(rng.below(9)).wrapping_sub(4);
            (a, b)
        }
        3 => {
            let a = u64::MAX - rng.below(4);
            let b = *rng.pick(&[1u64, 2, 3, 5, u64::MAX, u64::MAX - 1, 1 << 63, (1 << 63) + 1, (1 << 63) - 1]);
            if rng.chance(1, 2) { (a, b) } else { (b, a) }
        }
        // g*p and g*q with g*p*q = 2^64 + delta, delta small
        _ => {
            let g = match rng.below(4) { 0 => 1, 1 => 1 + rng.below(8) as u128, 2 => 1u128 << rng.below(20), _ => 1 + (rng.next() as u128 % 100_000) };
            let pbits = 1 + rng.below(62);
            let p = (1 + (rng.next() as u128 % (1u128 << pbits))).min(m / g);
            let target = (m as i128 + 1 + rng.below(7) as i128 - 4 - if rng.chance(1, 3) { (rng.next() % 1_000_000) as i128 } else { 0 }) as u128;
            let mut q = (target / (g * p)).max(1);
            if rng.chance(1, 3) { q += 1; }
            // make p and q co-prime so that the lcm is really g*p*q
            let mut tries = 0;
            while gcd_u128(p, q) != 1 && tries < 8 {
                if q > 1 && rng.chance(1, 2) { q -= 1 } else { q += 1 };
                tries += 1;
            }
            let (a, b) = ((g * p).min(m) as u64, (g * q).min(m) as u64);
            if rng.chance(1, 2) { (a.max(1), b.max(1)) } else { (b.max(1), a.max(1)) }
        }
    }
}

/// a 64-bit value of mixed sign, often next to the `i64` bounds
fn boundary_value(rng: &mut Rng) -> i128 {
    let lo = smin(64);
    let hi = smax(64);
    match rng.below(8) {
        0 => lo + rng.below(4) as i128,
        1 => hi - rng.below(4) as i128,
        2 => -1 - rng.below(3) as i128,
        3 => rng.below(3) as i128,
        4 => lo + (rng.next() >> 1) as i128 % 1_000_000_007,
        5 => hi - (rng.next() >> 1) as i128 % 1_000_000_007,
        _ => rnd_val(rng, 64),
    }
}

fn replay(out: &mut Out, lines: Vec<String>) {
    for line in lines {
        let v: Value = serde_json::from_str(&line).expect("replay line");
        let cap = v["cap"].as_u64().unwrap_or(64);
        match v["k"].as_str().unwrap() {
            "bound" => {
                let a = dom_from_json(&v["a"]);
                emit_bound(out, v["kind"].as_str().unwrap(), &a, v["b"].as_str().unwrap().parse().unwrap(), cap);
            }
            "isect" => {
                let a = dom_from_json(&v["a"]);
                let b = dom_from_json(&v["b"]);
                let wit: Vec<i128> = v["wit"].as_array().map(|x| x.iter().map(|y| y.as_str().unwrap().parse().unwrap()).collect()).unwrap_or_default();
                emit_isect(out, &a, &b, &wit, cap);
            }
            "dbound" => {
                let a = if v["a"].is_null() { None } else { Some(dom_from_json(&v["a"])) };
                emit_dbound(
                    out, v["kind"].as_str().unwrap(), a.as_ref(), v["w"].as_u64().unwrap() as usize,
                    v["rel"].as_u64().unwrap(), v["top"].as_bool().unwrap(), v["b"].as_str().unwrap().parse().unwrap(), cap,
                );
            }
            "disect" => {
                emit_disect(out, v["size"].as_u64().unwrap(), &dval_from_json(&v["a"]), &dval_from_json(&v["b"]), cap);
            }
            k => panic!("unknown case kind {}", k),
        }
    }
}

fn all_byte_intervals() -> Vec<(i128, i128, u64)> {
    let mut v = Vec::new();
    for s in -128i128..=127 {
        v.push((s, s, 0));
        for st in 1..=255i128 {
            let mut e = s + st;
            while e <= 127 {
                v.push((s, e, st as u64));
                e += st;
            }
        }
    }
    v
}

fn main() {
    if std::env::var("VERIF_LOUD").is_err() { quiet_panics(); }
    let args = Args::parse();
    let mut out = Out::new(
        &args,
        "well-formed strided intervals with and without widening hints: 1-byte values against bounds (all kinds) and intersection \
         partners, sampled 2/4/8-byte values (bounds next to members/hints/sign boundaries; intersection partners built around a \
         common member, co-prime / power-of-two / huge strides; 8-byte partners whose strides have an lcm just below / at / \
         above u64::MAX with start values of mixed sign next to the i64 bounds, the only common candidate inside / at the ends / one stride outside of the partner's range), DataDomain values with relative targets (bound refinements, and DataDomain::intersect on pairs of absolute-only / relative-only / mixed values with and without Top flag in both argument orders); non-trivial = refinement \
         is satisfiable; distinct by (kind, inputs)",
    );
    if let Some(lines) = args.replay_lines() {
        replay(&mut out, lines);
        out.finish();
        return;
    }
    let mut rng = Rng::new(args.seed);
    let cap = args.num("cap", 64, 256);
    let n8 = args.num("vals8", 6000, 30000);
    let nw = args.num("valsw", 4000, 40000);
    let ni8 = args.num("isect8", 20000, 200000);
    let niw = args.num("isectw", 10000, 200000);
    let nib = args.num("isectb", 8000, 150000);
    let nd = args.num("disect", 8000, 150000);
    // bounds, 1-byte
    for i in 0..n8 {
        let a = rnd_dom(&mut rng, 8, i % 2 == 0);
        for kind in KINDS {
            let b = rnd_bound(&mut rng, &a);
            emit_bound(&mut out, kind, &a, b, cap);
        }
        if i % 5 == 0 {
            let kind = *rng.pick(&KINDS);
            let b = rnd_bound(&mut rng, &a);
            let rel = rng.below(3);
            let top = rng.chance(1, 4);
            let abs = if rng.chance(1, 6) { None } else { Some(&a) };
            emit_dbound(&mut out, kind, abs, 8, rel, top, b, cap);
        }
    }
    // bounds, wider
    for i in 0..nw {
        let w = *rng.pick(&[16usize, 32, 64, 64]);
        let a = rnd_dom(&mut rng, w, i % 3 != 0);
        for kind in KINDS {
            let b = rnd_bound(&mut rng, &a);
            emit_bound(&mut out, kind, &a, b, cap.min(32));
        }
        if i % 8 == 0 {
            let kind = *rng.pick(&KINDS);
            let b = rnd_bound(&mut rng, &a);
            emit_dbound(&mut out, kind, Some(&a), w, rng.below(3), rng.chance(1, 4), b, 16);
        }
    }
    // a few 16-byte values (the stride is ignored there)
    for _ in 0..nw / 20 {
        let a = rnd_dom(&mut rng, 128, true);
        for kind in KINDS {
            let b = rnd_bound(&mut rng, &a);
            emit_bound(&mut out, kind, &a, b, 16);
        }
        let b = rnd_dom(&mut rng, 128, true);
        emit_isect(&mut out, &a, &b, &[], 16);
    }
    // intersections, 1-byte: independent pairs and pairs around a common member
    for i in 0..ni8 {
        let a = rnd_dom(&mut rng, 8, i % 2 == 0);
        let b = if rng.chance(1, 2) {
            rnd_dom(&mut rng, 8, i % 4 < 2)
        } else {
            let x = rnd_member(&mut rng, &a);
            let st = if rng.chance(1, 6) { 0 } else { rnd_stride(&mut rng, 8) };
            let iv = interval_around(&mut rng, 8, x, st);
            with_hints(&mut rng, 8, iv, i % 4 < 2)
        };
        emit_isect(&mut out, &a, &b, &[], 256);
    }
    // intersections, wider: around a common member
    for i in 0..niw {
        let w = *rng.pick(&[16usize, 32, 64, 64]);
        let a = rnd_dom(&mut rng, w, i % 2 == 0);
        let x = rnd_member(&mut rng, &a);
        let (b, wit) = if rng.chance(1, 5) {
            (rnd_dom(&mut rng, w, true), vec![])
        } else {
            let st = match rng.below(6) {
                0 => 0,
                1 => a.st,
                2 => a.st.wrapping_mul(1 + rng.below(4)).max(1),
                _ => rnd_stride(&mut rng, w),
            };
            // sometimes shift the partner off the common residue class by a multiple of gcd-ish amounts
            let x2 = if rng.chance(1, 6) { sv(&bv(w, x.wrapping_add(rng.below(5) as i128))) } else { x };
            let iv = interval_around(&mut rng, w, x2, st);
            (with_hints(&mut rng, w, iv, i % 3 == 0), vec![x])
        };
        emit_isect(&mut out, &a, &b, &wit, cap.min(32));
    }
    // intersections, 8 byte, strides whose lcm is next to the u64 overflow boundary (where the i128
    // products of the chinese-remainder computation are largest), start values near the i64 bounds
    for i in 0..nib {
        let (sa, sb) = boundary_strides(&mut rng);
        let lcm = (sa as u128 / gcd_u128(sa as u128, sb as u128)) * sb as u128;
        out.count(if lcm <= u64::MAX as u128 { "isect-boundary:lcm-fits" } else { "isect-boundary:lcm-overflow" });
        if lcm <= u64::MAX as u128 && lcm >= (1u128 << 63) { out.count("isect-boundary:lcm-top-bit"); }
        let x = boundary_value(&mut rng);
        let iva = interval_around(&mut rng, 64, x, sa);
        let a = with_hints(&mut rng, 64, iva, i % 4 == 0);
        // the partner contains x, or (1 in 5) a value off the common residue class
        let x2 = if rng.chance(1, 5) {
            let g = gcd_u128(sa as u128, sb as u128) as i128;
            let d = *rng.pick(&[1i128, -1, 2, g, g + 1, g / 2 + 1, -(g - 1).max(1), sa as i128, -(sb as i128)]);
            sv(&bv(64, x.wrapping_add(d)))
        } else { x };
        let mut ivb = interval_around(&mut rng, 64, x2, sb);
        // placement of the (for lcm > u64::MAX: only) common candidate x2 relative to the partner's range:
        // somewhere inside / first value / last value / one stride below the start / one stride above the end
        let (lo, hi) = (smin(64), smax(64));
        match rng.below(8) {
            0 => { ivb.0 = x2; out.count("isect-boundary:cand-at-start"); }
            1 => { ivb.1 = x2; out.count("isect-boundary:cand-at-end"); }
            2 if x2 + sb as i128 <= ivb.1 => { ivb.0 = x2 + sb as i128; out.count("isect-boundary:cand-below-start"); }
            3 if x2 - sb as i128 >= ivb.0 => { ivb.1 = x2 - sb as i128; out.count("isect-boundary:cand-above-end"); }
            2 if x2 + sb as i128 <= hi => { ivb = (x2 + sb as i128, x2 + sb as i128, 0); out.count("isect-boundary:cand-below-single"); }
            3 if x2 - sb as i128 >= lo => { ivb = (x2 - sb as i128, x2 - sb as i128, 0); out.count("isect-boundary:cand-above-single"); }
            _ => {}
        }
        if ivb.0 == ivb.1 { ivb.2 = 0; } else { ivb.2 = sb; }
        if ivb.1 < 0 && iva.1 < 0 { out.count("isect-boundary:negative-range"); }
        if x2 != x && gcd_u128(sa as u128, sb as u128) > 1 && (x2 - x).rem_euclid(gcd_u128(sa as u128, sb as u128) as i128) != 0 {
            out.count("isect-boundary:gcd-incompatible");
        }
        let b = with_hints(&mut rng, 64, ivb, i % 4 == 1);
        let wit = if a.s <= x && x <= a.e && b.s <= x && x <= b.e { vec![x] } else { vec![] };
        emit_isect(&mut out, &a, &b, &wit, 16);
        if i % 3 == 0 { emit_isect(&mut out, &b, &a, &wit, 16); }
    }
    // DataDomain::intersect: absolute-only / relative-only / mixed values with and without the top flag, same and
    // different identifiers, overlapping and disjoint offsets and absolute parts; always in BOTH argument orders
    for _ in 0..nd {
        let size = *rng.pick(&[1u64, 1, 2, 4, 8, 8]);
        let w = (8 * size) as usize;
        let a = rnd_dval(&mut rng, w, None);
        let b = if rng.chance(3, 4) { rnd_dval(&mut rng, w, Some(&a)) } else { rnd_dval(&mut rng, w, None) };
        emit_disect(&mut out, size, &a, &b, 32);
        emit_disect(&mut out, size, &b, &a, 32);
    }
    if args.tier == "thorough" {
        // all 1-byte intervals x all 256 bounds x all kinds would be 260 M cases; run every interval
        // against a rotating selection of bounds so that every (interval, kind) and every bound value
        // is covered, and every interval against a stratified partner set for intersect
        out.exhaustive = true;
        let all = all_byte_intervals();
        let partners: Vec<Dom> = (0..64).map(|_| rnd_dom(&mut rng, 8, true)).collect();
        for (i, iv) in all.iter().enumerate() {
            let a = with_hints(&mut rng, 8, *iv, i % 2 == 0);
            for (k, kind) in KINDS.iter().enumerate() {
                // bounds: next to start / end / a member, and a rotating value of the full range
                let bs = [a.s, a.e, a.s - 1, a.e + 1, rnd_member(&mut rng, &a) + 1, ((i * 5 + k * 51) % 256) as i128 - 128];
                for b in bs {
                    let b = sv(&bv(8, b));
                    emit_bound(&mut out, kind, &a, b, 256);
                }
            }
            for k in 0..4 {
                let b = &partners[(i * 3 + k * 17) % partners.len()];
                emit_isect(&mut out, &a, b, &[], 256);
            }
        }
    }
    out.finish();
}
