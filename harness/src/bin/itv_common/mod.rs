//! Shared by h_c02 / h_c04: plain descriptions of interval-domain values, conversion to and from the
//! real `IntervalDomain` (through its serde representation) and the generators.
use cwe_checker_lib::abstract_domain::*;
use cwe_checker_lib::intermediate_representation::*;
use verif_harness::*;
use apint::Width;

// ---------------------------------------------------------------- values

/// plain description of an interval-domain value (signed values)
#[derive(Clone, Debug, PartialEq)]
pub struct Dom {
    pub w: usize,
    pub s: i128,
    pub e: i128,
    pub st: u64,
    pub u: Option<i128>,
    pub l: Option<i128>,
    pub d: u64,
}

pub fn bv(bits: usize, v: i128) -> Bitvector {
    if bits >= 128 {
        Bitvector::from_i128(v)
    } else {
        Bitvector::from_i128(v).into_truncate(bits).unwrap()
    }
}

pub fn sv(b: &Bitvector) -> i128 {
    // widths above 128 bit are never generated
    b.try_to_i128().expect("width <= 128")
}

pub fn to_impl(d: &Dom) -> IntervalDomain {
    let j = json!({
        "interval": {"start": serde_json::to_value(bv(d.w, d.s)).unwrap(),
                     "end": serde_json::to_value(bv(d.w, d.e)).unwrap(), "stride": d.st},
        "widening_upper_bound": d.u.map(|x| serde_json::to_value(bv(d.w, x)).unwrap()),
        "widening_lower_bound": d.l.map(|x| serde_json::to_value(bv(d.w, x)).unwrap()),
        "widening_delay": d.d,
    });
    serde_json::from_value(j).expect("IntervalDomain from json")
}

/// canonical rendering of an implementation value
pub fn show_impl(v: &IntervalDomain) -> String {
    let j = serde_json::to_value(v).unwrap();
    let g = |x: &Value| -> Bitvector { serde_json::from_value(x.clone()).unwrap() };
    let start = g(&j["interval"]["start"]);
    let end = g(&j["interval"]["end"]);
    let w = start.width().to_usize();
    let mut extra = String::new();
    if end.width().to_usize() != w {
        extra.push_str("!endwidth");
    }
    let hint = |x: &Value, extra: &mut String| -> String {
        if x.is_null() {
            "-".to_string()
        } else {
            let b = g(x);
            if b.width().to_usize() != w {
                extra.push_str("!hintwidth");
            }
            sv(&b).to_string()
        }
    };
    let u = hint(&j["widening_upper_bound"], &mut extra);
    let l = hint(&j["widening_lower_bound"], &mut extra);
    format!(
        "{}|{}|{}|{}|{}|{}|{}|{}{}",
        w,
        sv(&start),
        sv(&end),
        j["interval"]["stride"].as_u64().unwrap(),
        u,
        l,
        j["widening_delay"].as_u64().unwrap(),
        if v.is_top() { "T" } else { "F" },
        extra
    )
}

pub fn dom_json(d: &Dom) -> String {
    let o = |x: &Option<i128>| match x {
        Some(v) => format!("\"{}\"", v),
        None => "null".to_string(),
    };
    format!(
        "{{\"w\":{},\"s\":\"{}\",\"e\":\"{}\",\"st\":\"{}\",\"u\":{},\"l\":{},\"d\":\"{}\"}}",
        d.w,
        d.s,
        d.e,
        d.st,
        o(&d.u),
        o(&d.l),
        d.d
    )
}

pub fn dom_from_json(v: &Value) -> Dom {
    let gi = |x: &Value| -> i128 { x.as_str().unwrap().parse().unwrap() };
    let go = |x: &Value| -> Option<i128> { if x.is_null() { None } else { Some(gi(x)) } };
    Dom {
        w: v["w"].as_u64().unwrap() as usize,
        s: gi(&v["s"]),
        e: gi(&v["e"]),
        st: v["st"].as_str().unwrap().parse().unwrap(),
        u: go(&v["u"]),
        l: go(&v["l"]),
        d: v["d"].as_str().unwrap().parse().unwrap(),
    }
}

pub fn smin(w: usize) -> i128 {
    if w >= 128 { i128::MIN } else { -(1i128 << (w - 1)) }
}
pub fn smax(w: usize) -> i128 {
    if w >= 128 { i128::MAX } else { (1i128 << (w - 1)) - 1 }
}

// ---------------------------------------------------------------- generators

/// random signed value of `w` bits biased to the boundaries
pub fn rnd_val(rng: &mut Rng, w: usize) -> i128 {
    let lo = smin(w);
    let hi = smax(w);
    match rng.below(10) {
        0 => lo,
        1 => hi,
        2 => 0,
        3 => -1,
        4 => lo + rng.below(4) as i128,
        5 => hi - rng.below(4) as i128,
        6 => rng.range(-5, 5) as i128,
        _ => {
            let r = ((rng.next() as u128) << 64 | rng.next() as u128) as i128;
            if w >= 128 { r } else { let m = 1i128 << w; let x = r.rem_euclid(m); if x > hi { x - m } else { x } }
        }
    }
}

pub fn rnd_stride(rng: &mut Rng, w: usize) -> u64 {
    let max: u128 = if w >= 64 { u64::MAX as u128 } else { (1u128 << w) - 1 };
    let s: u64 = match rng.below(12) {
        0 | 1 | 2 => 1,
        3 => 2,
        4 => 1u64 << rng.below(w.min(64) as u64),
        5 => 3,
        6 => [5u64, 6, 7, 9, 10, 12, 24][rng.below(7) as usize],
        7 => (1u64 << rng.below(w.min(64) as u64)).wrapping_add(1),
        8 => (1u64 << rng.below(w.min(64) as u64)).wrapping_mul(3),
        9 => rng.next() | 1,
        _ => 1 + rng.below(16),
    };
    let s = (s as u128 % (max + 1)) as u64;
    if s == 0 { 1 } else { s }
}

/// a well-formed interval of width `w` (bits): (start, end, stride)
pub fn rnd_interval(rng: &mut Rng, w: usize) -> (i128, i128, u64) {
    let lo = smin(w);
    let hi = smax(w);
    if rng.chance(1, 5) {
        let v = rnd_val(rng, w);
        return (v, v, 0);
    }
    if rng.chance(1, 25) {
        return (lo, hi, 1);
    }
    let stride = rnd_stride(rng, w);
    for _ in 0..20 {
        let start = rnd_val(rng, w);
        // number of steps available (hi - start can exceed i128 only for w = 128; use u128)
        let room = (hi as u128).wrapping_sub(start as u128);
        let maxn = room / stride as u128;
        if maxn == 0 {
            continue;
        }
        let n: u128 = match rng.below(6) {
            0 => 1,
            1 => maxn,
            2 => 1 + rng.below(3) as u128,
            3 => maxn - (rng.below(3) as u128).min(maxn - 1),
            _ => 1 + (((rng.next() as u128) << 64 | rng.next() as u128) % maxn),
        };
        let n = n.min(maxn).max(1);
        let end = (start as u128).wrapping_add(n * stride as u128) as i128;
        return (start, end, stride);
    }
    let v = rnd_val(rng, w);
    (v, v, 0)
}

pub fn rnd_hint_lower(rng: &mut Rng, w: usize, s: i128) -> Option<i128> {
    match rng.below(8) {
        0 | 1 | 2 | 3 => None,
        4 => Some(rnd_val(rng, w)),
        5 => Some(smin(w)),
        _ => {
            // below the start
            let room = (s as u128).wrapping_sub(smin(w) as u128);
            if room == 0 { Some(s) } else { Some((s as u128).wrapping_sub(1 + ((rng.next() as u128) % room.min(40))) as i128) }
        }
    }
}
pub fn rnd_hint_upper(rng: &mut Rng, w: usize, e: i128) -> Option<i128> {
    match rng.below(8) {
        0 | 1 | 2 | 3 => None,
        4 => Some(rnd_val(rng, w)),
        5 => Some(smax(w)),
        _ => {
            let room = (smax(w) as u128).wrapping_sub(e as u128);
            if room == 0 { Some(e) } else { Some((e as u128).wrapping_add(1 + ((rng.next() as u128) % room.min(40))) as i128) }
        }
    }
}
pub fn rnd_delay(rng: &mut Rng) -> u64 {
    match rng.below(6) {
        0 | 1 => 0,
        2 => rng.below(20),
        3 => rng.below(300),
        4 => u64::MAX - rng.below(3),
        _ => rng.next(),
    }
}

pub fn rnd_dom(rng: &mut Rng, w: usize, hints: bool) -> Dom {
    let (s, e, st) = rnd_interval(rng, w);
    let (u, l, d) = if hints {
        (rnd_hint_upper(rng, w, e), rnd_hint_lower(rng, w, s), rnd_delay(rng))
    } else {
        (None, None, 0)
    };
    Dom { w, s, e, st, u, l, d }
}

/// number of members minus one
pub fn steps(d: &Dom) -> u128 {
    if d.st == 0 { 0 } else { ((d.e as u128).wrapping_sub(d.s as u128)) / d.st as u128 }
}
pub fn member(d: &Dom, k: u128) -> i128 {
    (d.s as u128).wrapping_add(k * d.st as u128) as i128
}
pub fn rnd_member(rng: &mut Rng, d: &Dom) -> i128 {
    let n = steps(d);
    let k = match rng.below(4) {
        0 => 0,
        1 => n,
        _ => { let r = (rng.next() as u128) << 64 | rng.next() as u128; if n == u128::MAX { r } else { r % (n + 1) } }
    };
    member(d, k)
}

