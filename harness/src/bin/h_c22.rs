//! C22 harness: runs the REAL `cwe_checker` command-line binary on generated P-Code projects + ELF
//! images with many check selections (default, kernel module, `--partial` subsets incl. duplicate,
//! empty and invalid names, `--module-versions`) and records which checks' warnings appear.
#[path = "../cli.rs"]
mod cli;
use cli::*;
use std::path::Path;
use verif_harness::*;

/// labels (name, version) of the warnings in a JSON warning array, sorted + deduplicated
fn labels(stdout: &str) -> Option<Vec<(String, String)>> {
    let v: Value = serde_json::from_str(stdout).ok()?;
    let mut ls = Vec::new();
    for w in v.as_array()? {
        ls.push((w["name"].as_str()?.to_string(), w["version"].as_str()?.to_string()));
    }
    ls.sort();
    ls.dedup();
    Some(ls)
}

fn labels_json(ls: &[(String, String)]) -> Value {
    Value::Array(ls.iter().map(|(n, v)| json!([n, v])).collect())
}

/// canonical record of one CLI run
fn run_record(r: &RunResult) -> Value {
    let ls = labels(&r.stdout);
    // the name the CLI complains about, if any
    let mut err = String::new();
    if let Some(i) = r.stderr.find("Error: ") {
        let rest = &r.stderr[i + 7..];
        if let Some(j) = rest.find(" is not a valid module name.") {
            err = rest[..j].to_string();
        }
    }
    let exit = if r.timed_out { -2 } else { r.exit.unwrap_or(-1) };
    let mut note = String::new();
    if exit != 0 && err.is_empty() {
        note = r.stderr.chars().take(300).collect::<String>().replace('\n', " ");
    }
    if exit == 0 && ls.is_none() {
        note = format!("stdout-not-a-warning-array:{}", r.stdout.chars().take(120).collect::<String>().replace('\n', " "));
    }
    json!({"exit": exit, "labels": labels_json(&ls.unwrap_or_default()), "err": err, "note": note})
}

/// Checks that MUST report on the program of the recipe whenever they are selected (independent of any
/// reference run of the analyzer): the program contains their trigger sequence. With the kernel-module
/// configuration only the triggers that use kernel function names / no configuration are listed.
fn must_fire(rc: &Recipe) -> Vec<String> {
    if rc.g != "gadget" {
        return vec![];
    }
    // only the purely syntactic checks: their triggers fire regardless of the surrounding code
    const SYNTACTIC: [&str; 9] = ["CWE676", "CWE782", "CWE426", "CWE243", "CWE367", "CWE560", "CWE467", "CWE215", "CWE332"];
    const WITH_LKM_CONFIG: [&str; 5] = ["CWE676", "CWE467", "CWE215", "CWE782", "CWE560"];
    rc.gadgets
        .iter()
        .filter(|g| SYNTACTIC.contains(&g.as_str()) && (!rc.cfg_lkm || WITH_LKM_CONFIG.contains(&g.as_str())))
        .cloned()
        .collect()
}

const INVALID: [&str; 14] = [
    "CWE7", "CWE4760", "cwe476", " CWE476", "CWE476 ", "CWE", "CWE457", "memory", "all", "CWE-476", "476", "CWE78;CWE476",
    "CWE1190", "WE119",
];

fn random_partial(rng: &mut Rng, avail: &[String]) -> (String, &'static str) {
    let pick_subset = |rng: &mut Rng, lo: u64, hi: u64| -> Vec<String> {
        let mut v = avail.to_vec();
        rng.shuffle(&mut v);
        let k = (lo + rng.below(hi - lo + 1)).min(v.len() as u64) as usize;
        v.truncate(k);
        v
    };
    match rng.below(12) {
        0 | 1 | 2 => (pick_subset(rng, 1, 5).join(","), "small"),
        3 | 4 => (pick_subset(rng, 8, 19).join(","), "large"),
        5 | 6 => {
            // single check; the names that are prefixes of each other are favoured
            let fav: Vec<String> = ["CWE78", "CWE782", "CWE789", "CWE476", "Memory", "CWE416", "CWE119"]
                .iter()
                .filter(|n| avail.iter().any(|a| a == *n))
                .map(|s| s.to_string())
                .collect();
            let n = if !fav.is_empty() && rng.chance(2, 3) { rng.pick(&fav).clone() } else { rng.pick(avail).clone() };
            (n, "single")
        }
        7 | 8 => {
            // duplicates and empty entries
            let mut v = pick_subset(rng, 1, 6);
            let d = rng.pick(&v).clone();
            v.push(d);
            if rng.chance(1, 2) {
                v.insert(rng.below(v.len() as u64 + 1) as usize, String::new());
            }
            if rng.chance(1, 2) {
                v.push(String::new());
            }
            rng.shuffle(&mut v);
            (v.join(","), "dups-empties")
        }
        9 | 10 => {
            let mut v = pick_subset(rng, 0, 4);
            v.push(rng.pick(&INVALID).to_string());
            rng.shuffle(&mut v);
            (v.join(","), "invalid")
        }
        _ => (String::new(), "empty"),
    }
}

struct Job {
    input_id: usize,
    partial: Option<String>,
    tag: &'static str,
}

fn main() {
    let args = Args::parse();
    let mut out = Out::new(
        &args,
        "real cwe_checker CLI on generated P-Code projects (x86-64; PIE / EXEC / kernel-module ELF) whose code contains \
         trigger sequences for up to 19 checks; per input one all-checks run plus default/kernel-module/--partial \
         selections (random subsets, single names, duplicates, empty entries, invalid names) and --module-versions; \
         non-trivial = run whose output contains at least one warning; distinct by (input, selection)",
    );
    let cli = match build_cli() {
        Ok(c) => c,
        Err(e) => {
            eprintln!("{}", e);
            std::process::exit(3);
        }
    };
    let root = scratch_root();
    let all_names = cli_module_names(&cli);
    if all_names.is_empty() {
        eprintln!("--module-versions of the real CLI lists no modules");
        std::process::exit(3);
    }
    let limit = args.num("limit_s", 60, 60);
    let avail_lkm = names_runnable_with_lkm_config(&cli, &root, &all_names);
    out.count_n("checks_runnable_with_lkm_config", avail_lkm.len() as u64);

    // ---------------- the version listing (always)
    let emit_versions = |out: &mut Out| {
        let r = run_module_versions(&cli);
        let line = json!({"t": "versions", "impl": {"exit": r.exit.unwrap_or(-1), "out": r.stdout}}).to_string();
        out.count("mode:versions");
        out.case(&line, Some("versions"));
    };

    // recipes + selections
    let mut recipes: Vec<Recipe> = Vec::new();
    let mut jobs: Vec<Job> = Vec::new();
    if let Some(lines) = args.replay_lines() {
        for line in lines {
            let v: Value = serde_json::from_str(&line).expect("replay line");
            if v["t"] == "versions" {
                emit_versions(&mut out);
                continue;
            }
            recipes.push(Recipe::from_json(&v["gen"]));
            jobs.push(Job { input_id: recipes.len() - 1, partial: v["partial"].as_str().map(|s| s.to_string()), tag: "replay" });
        }
    } else {
        emit_versions(&mut out);
        let mut rng = Rng::new(args.seed);
        let n_inputs = args.num("inputs", 36, 400) as usize;
        let n_sel = args.num("selections", 7, 12) as usize;
        // directed, always-run: kernel modules containing triggers of checks OUTSIDE MODULES_LKM, selected with --partial
        let directed: Vec<(Vec<&str>, bool, Vec<&str>)> = vec![
            (vec!["CWE782", "CWE676"], false, vec!["CWE782", "CWE782,CWE676", "CWE676"]),
            (vec!["CWE782", "CWE676", "CWE560"], true, vec!["CWE782", "CWE560,CWE676", "CWE782,CWE560"]),
            (vec!["CWE243", "CWE476", "CWE426", "CWE367"], false, vec!["CWE243,CWE476", "CWE426", "CWE367,CWE243"]),
            (vec!["CWE332", "CWE78", "Memory", "CWE119"], false, vec!["CWE332", "Memory,CWE78", "CWE119,CWE332"]),
        ];
        for (k, (gadgets, cfg_lkm, partials)) in directed.iter().enumerate() {
            let rc = Recipe { g: "gadget".into(), state: 7001 + 2 * k as u64, kind: Kind::Lkm, gadgets: gadgets.iter().map(|s| s.to_string()).collect(),
                split: k % 2 == 1, extra: 0, cfg_lkm: *cfg_lkm, shared: false, markers: 3 };
            let id = recipes.len();
            jobs.push(Job { input_id: id, partial: None, tag: "lkm-default" });
            for p in partials {
                jobs.push(Job { input_id: id, partial: Some(p.to_string()), tag: "lkm-partial-directed" });
            }
            recipes.push(rc);
        }
        // directed, always-run: kernel modules containing the triggers of the acceptance-test checks
        // (LKM_CWE of test/src/lib.rs: CWE252, CWE467, CWE476, CWE676), default selection, both configurations
        for (k, cfg_lkm) in [true, false, true].iter().enumerate() {
            let rc = Recipe { g: "gadget".into(), state: 7301 + 2 * k as u64, kind: Kind::Lkm,
                gadgets: ["CWE467", "CWE676", "CWE252", "CWE476"].iter().map(|s| s.to_string()).collect(),
                split: k == 2, extra: 0, cfg_lkm: *cfg_lkm, shared: false, markers: 3 };
            let id = recipes.len();
            jobs.push(Job { input_id: id, partial: None, tag: "lkm-default-acceptance-directed" });
            jobs.push(Job { input_id: id, partial: Some("CWE467,CWE676".to_string()), tag: "lkm-partial-directed" });
            recipes.push(rc);
        }
        // directed, always-run: relocatable objects with exactly one / none / both kernel-module marker sections
        for (k, markers) in [1u8, 2, 0, 3].iter().enumerate() {
            let rc = Recipe { g: "gadget".into(), state: 7101 + 2 * k as u64, kind: Kind::Lkm,
                gadgets: ["CWE782", "CWE676", "CWE243", "CWE560", "CWE476", "CWE367"].iter().map(|s| s.to_string()).collect(),
                split: k % 2 == 0, extra: 0, cfg_lkm: false, shared: false, markers: *markers };
            let id = recipes.len();
            jobs.push(Job { input_id: id, partial: None, tag: "rel-default-directed" });
            for p in ["CWE782,CWE676", "CWE243", &all_names.join(",")] {
                jobs.push(Job { input_id: id, partial: Some(p.to_string()), tag: "rel-partial-directed" });
            }
            recipes.push(rc);
        }
        // directed, always-run: executables / shared objects whose SECTION TABLE contains the marker sections
        for (k, (kind, markers)) in [(Kind::Pie, 7u8), (Kind::Exec, 7), (Kind::Pie, 5), (Kind::Exec, 6)].iter().enumerate() {
            let rc = Recipe { g: "gadget".into(), state: 7201 + 2 * k as u64, kind: *kind,
                gadgets: ["CWE782", "CWE676", "CWE243", "CWE560", "CWE476", "CWE367", "CWE426"].iter().map(|s| s.to_string()).collect(),
                split: k % 2 == 1, extra: 0, cfg_lkm: false, shared: false, markers: *markers };
            let id = recipes.len();
            jobs.push(Job { input_id: id, partial: None, tag: "exec-markers-default-directed" });
            for p in ["CWE782,CWE676", "CWE243,CWE426", &all_names.join(",")] {
                jobs.push(Job { input_id: id, partial: Some(p.to_string()), tag: "exec-markers-partial-directed" });
            }
            recipes.push(rc);
        }
        let n_directed = recipes.len();
        for i in n_directed..n_directed + n_inputs {
            let rc = Recipe::random_gadget(&mut rng);
            let avail = if rc.cfg_lkm { &avail_lkm } else { &all_names };
            jobs.push(Job { input_id: i, partial: None, tag: if rc.kind == Kind::Lkm && rc.markers & 3 == 3 { "lkm-default" } else { "default" } });
            for _ in 0..n_sel {
                let (p, tag) = random_partial(&mut rng, avail);
                jobs.push(Job { input_id: i, partial: Some(p), tag });
            }
            recipes.push(rc);
        }
    }

    // build inputs, all-checks runs (in parallel)
    let th = threads();
    let prepared: Vec<(Input, Files, String, Vec<String>, RunResult)> = parallel(&recipes, th, |i, rc| {
        let inp = rc.build();
        let files = write_input(&root, i, &inp);
        let cfgp = config_path(rc.cfg_lkm);
        let avail = if rc.cfg_lkm { avail_lkm.clone() } else { all_names.clone() };
        let r = run_cli(&cli, &files, &cfgp, Some(&avail.join(",")), limit);
        (inp, files, cfgp, avail, r)
    });
    let results: Vec<RunResult> = parallel(&jobs, th, |_, j| {
        let (_, files, cfgp, _, _) = &prepared[j.input_id];
        run_cli(&cli, files, cfgp, j.partial.as_deref(), limit)
    });

    for (j, r) in jobs.iter().zip(results.iter()) {
        let rc = &recipes[j.input_id];
        let (inp, _, _, avail, all_run) = &prepared[j.input_id];
        let fired = labels(&all_run.stdout);
        let rec = run_record(r);
        let mut line = json!({
            "t": "run",
            "lkm": inp.is_lkm,
            "elf": inp.elf_facts,
            "partial": j.partial,
            "avail": avail,
            "fired_ok": all_run.exit == Some(0) && fired.is_some(),
            "fired": labels_json(&fired.clone().unwrap_or_default()),
            "impl": rec,
            "gen": rc.json(),
            // ground truth that does not go through the analyzer: checks whose trigger sequence is in the program
            // and is known to fire with the configuration used
            "must": must_fire(rc),
        });
        if all_run.exit != Some(0) || fired.is_none() {
            line["fired_note"] = json!(all_run.stderr.chars().take(300).collect::<String>());
        }
        out.count_n("cli_ms_total", r.ms);
        if r.ms > 2000 {
            out.count("cli_runs_over_2s");
        }
        if std::env::var("C22_DEBUG").is_ok() && r.ms > 1000 {
            eprintln!("slow {} ms: partial={:?} gen={}", r.ms, j.partial, rc.json());
        }
        out.count(&format!("mode:{}", j.tag));
        out.count(&format!("kind:{:?}{}", rc.kind, if rc.cfg_lkm { "+lkm_config" } else { "" }));
        out.count(&format!("exit:{}", rec["exit"]));
        let nlabels = rec["labels"].as_array().map(|a| a.len()).unwrap_or(0);
        for l in rec["labels"].as_array().unwrap() {
            out.count(&format!("label:{}", l[0].as_str().unwrap()));
        }
        let key = format!("{}|{:?}", rc.state, j.partial);
        out.case(&line.to_string(), if nlabels > 0 { Some(&key) } else { None });
    }
    if std::env::var("C22_KEEP").is_err() {
        let _ = std::fs::remove_dir_all(&root);
    } else {
        eprintln!("kept {}", root.display());
    }
    out.finish();
}
