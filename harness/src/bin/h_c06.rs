//! C06 harness: drives the real `BricksDomain` / `BrickDomain` / `CharacterInclusionDomain` code.
//!
//! One case per line: `{"op":…, "a":…, "b":…, "impl":…}`. `a`/`b` are the serde forms of the
//! operands (or, for `op = "expr"`, a construction term `{"from":s} | {"append":[t,t]} |
//! {"merge":[t,t]}` evaluated only through the public constructors). `impl` is the serde form of
//! the result, `{"panic":msg}` or `{"hang":secs}` (the operation did not return within the
//! watchdog time; the real code is run on a worker thread that is abandoned in that case).
use cwe_checker_lib::abstract_domain::*;
use std::sync::mpsc::{channel, Receiver, RecvTimeoutError, Sender};
use std::time::Duration;
use verif_harness::*;

const HANG_SECS: u64 = 4;
const MAX_HANGS: u32 = 4;

fn bricks(v: &Value) -> BricksDomain {
    serde_json::from_value(v.clone()).expect("BricksDomain json")
}
fn brick(v: &Value) -> BrickDomain {
    serde_json::from_value(v.clone()).expect("BrickDomain json")
}
fn ci(v: &Value) -> CharacterInclusionDomain {
    serde_json::from_value(v.clone()).expect("CharacterInclusionDomain json")
}
fn cs(v: &Value) -> CharacterSet {
    serde_json::from_value(v.clone()).expect("CharacterSet json")
}
fn js<T: serde::Serialize>(t: &T) -> Value {
    serde_json::to_value(t).unwrap()
}

/// evaluate a construction term through `from` / `append_string_domain` / `merge` only
fn eval_expr_bricks(t: &Value) -> BricksDomain {
    if let Some(s) = t.get("from") {
        BricksDomain::from(s.as_str().unwrap().to_string())
    } else if let Some(p) = t.get("append") {
        eval_expr_bricks(&p[0]).append_string_domain(&eval_expr_bricks(&p[1]))
    } else if let Some(p) = t.get("merge") {
        eval_expr_bricks(&p[0]).merge(&eval_expr_bricks(&p[1]))
    } else if t.get("top").is_some() {
        BricksDomain::create_top_value_domain()
    } else {
        panic!("bad term")
    }
}
fn eval_expr_ci(t: &Value) -> CharacterInclusionDomain {
    if let Some(s) = t.get("from") {
        CharacterInclusionDomain::from(s.as_str().unwrap().to_string())
    } else if let Some(p) = t.get("append") {
        eval_expr_ci(&p[0]).append_string_domain(&eval_expr_ci(&p[1]))
    } else if let Some(p) = t.get("merge") {
        eval_expr_ci(&p[0]).merge(&eval_expr_ci(&p[1]))
    } else if t.get("top").is_some() {
        CharacterInclusionDomain::create_top_value_domain()
    } else {
        panic!("bad term")
    }
}

/// the real code, one operation
fn eval_real(op: &str, a: &Value, b: &Value) -> Value {
    match op {
        "normalize" => js(&bricks(a).normalize()),
        "widen" => js(&bricks(a).widen(&bricks(b))),
        "merge" => js(&bricks(a).merge(&bricks(b))),
        "append" => js(&bricks(a).append_string_domain(&bricks(b))),
        "le" => js(&bricks(a).is_less_or_equal(&bricks(b))),
        "bwiden" => js(&brick(a).widen(&brick(b))),
        "bmerge" => js(&brick(a).merge(&brick(b))),
        "ble" => js(&brick(a).is_less_or_equal(&brick(b))),
        "expr" => js(&eval_expr_bricks(a)),
        "cimerge" => js(&ci(a).merge(&ci(b))),
        "ciappend" => js(&ci(a).append_string_domain(&ci(b))),
        "csunion" => js(&cs(a).union(cs(b))),
        "csinter" => js(&cs(a).intersection(cs(b))),
        "ciexpr" => js(&eval_expr_ci(a)),
        _ => json!({"panic": "unknown-op"}),
    }
}

type Job = (String, Value, Value);

struct Worker {
    tx: Sender<Job>,
    rx: Receiver<Value>,
}

fn spawn_worker() -> Worker {
    let (tx, jrx) = channel::<Job>();
    let (rtx, rx) = channel::<Value>();
    std::thread::Builder::new()
        .stack_size(64 << 20)
        .spawn(move || {
            while let Ok((op, a, b)) = jrx.recv() {
                let r = catch(std::panic::AssertUnwindSafe(|| eval_real(&op, &a, &b)));
                let v = match r {
                    Ok(v) => v,
                    Err(p) => json!({ "panic": p }),
                };
                if rtx.send(v).is_err() {
                    return;
                }
            }
        })
        .expect("worker thread");
    Worker { tx, rx }
}

struct Runner {
    w: Worker,
    hangs: u32,
}

impl Runner {
    fn run(&mut self, op: &str, a: &Value, b: &Value) -> Value {
        if self.hangs >= MAX_HANGS {
            return json!({"skipped": "too-many-hangs"});
        }
        self.w.tx.send((op.to_string(), a.clone(), b.clone())).expect("worker alive");
        match self.w.rx.recv_timeout(Duration::from_secs(HANG_SECS)) {
            Ok(v) => v,
            Err(RecvTimeoutError::Timeout) => {
                // the worker is stuck inside the real code: abandon it
                self.hangs += 1;
                self.w = spawn_worker();
                json!({ "hang": HANG_SECS })
            }
            Err(RecvTimeoutError::Disconnected) => {
                self.w = spawn_worker();
                json!({"panic": "worker-died"})
            }
        }
    }
}

fn emit(out: &mut Out, run: &mut Runner, op: &str, a: &Value, b: &Value) {
    let r = run.run(op, a, b);
    if r.get("skipped").is_some() {
        out.count("skipped-after-hangs");
        return;
    }
    let key = format!("{}|{}|{}", op, a, b);
    let kind = if r.get("panic").is_some() {
        "panic"
    } else if r.get("hang").is_some() {
        "hang"
    } else if r == json!("Top") {
        "top"
    } else {
        "value"
    };
    out.count(&format!("op:{}", op));
    out.count(&format!("res:{}:{}", op, kind));
    let line = json!({"op": op, "a": a, "b": b, "impl": r}).to_string();
    out.case(&line, if kind == "value" { Some(&key) } else { None });
}

// ------------------------------------------------------------------------------------------
// generators

const U32MAX: u64 = u32::MAX as u64;

fn gen_string(rng: &mut Rng, alphabet: &[char]) -> String {
    let len = match rng.below(10) {
        0 => 0,
        1..=5 => 1,
        _ => 2,
    };
    (0..len).map(|_| *rng.pick(alphabet)).collect()
}

/// (sequence, min, max); `big`: bounds around the widening thresholds
fn gen_brick_parts(rng: &mut Rng, alphabet: &[char], big: bool) -> (Vec<String>, u64, u64) {
    let nseq = match rng.below(12) {
        0 => 0,
        1..=6 => 1,
        7..=9 => 2,
        _ => 3,
    };
    let mut seq: Vec<String> = (0..nseq).map(|_| gen_string(rng, alphabet)).collect();
    seq.sort();
    seq.dedup();
    let (min, max) = if big && rng.chance(1, 3) {
        let max = *rng.pick(&[7u64, 8, 9, 10, 12, U32MAX - 1, U32MAX, U32MAX, U32MAX]);
        (rng.below(3), max)
    } else {
        match rng.below(12) {
            0..=3 => (1, 1),
            4..=6 => (0, 1 + rng.below(3)),
            7 => (0, 0),
            8 => {
                let m = 2 + rng.below(2);
                (m, m)
            }
            9 | 10 => {
                let m = 1 + rng.below(2);
                (m, m + 1 + rng.below(2))
            }
            _ => (rng.below(4), rng.below(4)), // also min > max (allowed by the type)
        }
    };
    (seq, min, max)
}

fn brick_json(seq: &[String], min: u64, max: u64) -> Value {
    json!({"Value": {"sequence": seq, "min": min, "max": max}})
}

/// cost estimate of normalising a list (size of the product sets), to keep cases small
fn cost(list: &[Value]) -> f64 {
    let mut c = 1f64;
    for b in list {
        if let Some(v) = b.get("Value") {
            let n = v["sequence"].as_array().unwrap().len().max(1) as f64;
            let m = v["min"].as_u64().unwrap().max(1) as f64;
            c *= n.powf(m.min(64.0));
        }
    }
    c
}

fn gen_list(rng: &mut Rng, alphabet: &[char], maxlen: u64, big: bool, tops: bool) -> Vec<Value> {
    loop {
        let n = rng.below(maxlen + 1);
        let mut l = Vec::new();
        let mut prev: Option<(Vec<String>, u64, u64)> = None;
        for _ in 0..n {
            if tops && rng.chance(1, 12) {
                l.push(json!("Top"));
                prev = None;
                continue;
            }
            let mut p = gen_brick_parts(rng, alphabet, big);
            // successive bricks with equal content are what steps 2/4 are about: make them frequent
            if let Some(q) = &prev {
                if rng.chance(1, 3) {
                    p.0 = q.0.clone();
                }
            }
            l.push(brick_json(&p.0, p.1, p.2));
            prev = Some(p);
        }
        if cost(&l) <= 400.0 {
            return l;
        }
    }
}

/// a list related to `a` so that the two are often comparable (widen/merge not trivially Top)
fn gen_related(rng: &mut Rng, a: &[Value], alphabet: &[char], big: bool) -> Vec<Value> {
    loop {
        let mut l = Vec::new();
        for x in a {
            match rng.below(10) {
                0 | 1 => {} // dropped: the other list gets padded
                2 | 3 => {
                    // enlarged
                    if let Some(v) = x.get("Value") {
                        let mut seq: Vec<String> =
                            v["sequence"].as_array().unwrap().iter().map(|s| s.as_str().unwrap().to_string()).collect();
                        if rng.chance(1, 2) {
                            seq.push(gen_string(rng, alphabet));
                        }
                        seq.sort();
                        seq.dedup();
                        let min = v["min"].as_u64().unwrap();
                        let max = v["max"].as_u64().unwrap();
                        let nmin = min.saturating_sub(rng.below(2));
                        let grow = if big && rng.chance(1, 3) { 7 + rng.below(4) } else { rng.below(3) };
                        let nmax = (max.saturating_add(grow)).min(U32MAX);
                        l.push(brick_json(&seq, nmin, nmax));
                    } else {
                        l.push(x.clone());
                    }
                }
                4 => {
                    let p = gen_brick_parts(rng, alphabet, big);
                    l.push(brick_json(&p.0, p.1, p.2));
                }
                _ => l.push(x.clone()),
            }
            if rng.chance(1, 8) {
                let p = gen_brick_parts(rng, alphabet, big);
                l.push(brick_json(&p.0, p.1, p.2));
            }
        }
        if cost(&l) <= 400.0 {
            return l;
        }
    }
}

fn val(l: Vec<Value>) -> Value {
    json!({ "Value": l })
}

fn gen_charset(rng: &mut Rng, alphabet: &[char], top_chance: u64) -> Value {
    if rng.chance(top_chance, 100) {
        return json!("Top");
    }
    let mut v: Vec<char> = alphabet.iter().cloned().filter(|_| rng.chance(1, 2)).collect();
    v.sort();
    json!({"Value": v.iter().map(|c| c.to_string()).collect::<Vec<_>>()})
}

fn gen_ci(rng: &mut Rng, alphabet: &[char]) -> Value {
    if rng.chance(1, 10) {
        return json!("Top");
    }
    // reachable values have certain ⊆ possible and certain != Top; also generate others rarely
    let certain = gen_charset(rng, alphabet, 3);
    let mut possible = gen_charset(rng, alphabet, 15);
    if rng.chance(4, 5) {
        // possible ⊇ certain
        if let (Some(c), Some(p)) = (certain.get("Value"), possible.get("Value")) {
            let mut v: Vec<String> =
                c.as_array().unwrap().iter().chain(p.as_array().unwrap().iter()).map(|x| x.as_str().unwrap().to_string()).collect();
            v.sort();
            v.dedup();
            possible = json!({ "Value": v });
        }
    }
    json!({"Value": [certain, possible]})
}

fn gen_expr(rng: &mut Rng, depth: u32, strings: &[&str]) -> Value {
    if depth == 0 || rng.chance(1, 4) {
        if rng.chance(1, 25) {
            return json!({"top": 1});
        }
        return json!({"from": *rng.pick(strings)});
    }
    let l = gen_expr(rng, depth - 1, strings);
    let r = if rng.chance(1, 3) { l.clone() } else { gen_expr(rng, depth - 1, strings) };
    if rng.chance(3, 5) {
        json!({"append": [l, r]})
    } else {
        json!({"merge": [l, r]})
    }
}

fn from(s: &str) -> Value {
    json!({ "from": s })
}
fn app(a: Value, b: Value) -> Value {
    json!({"append": [a, b]})
}
fn mrg(a: Value, b: Value) -> Value {
    json!({"merge": [a, b]})
}

/// construction terms aimed at the widening thresholds and at the two defects fixed in /repo
fn directed_exprs() -> Vec<Value> {
    let mut v = Vec::new();
    // "a" ⊔ "a"·"a"  → [{a}]^{1,1}[{a}]^{0,1}  (normalize used to loop forever)
    v.push(mrg(from("a"), app(from("a"), from("a"))));
    v.push(mrg(app(from("a"), from("a")), from("a")));
    // a·b^k ⊔ a  → [{a}]^{1,1}[{b}]^{0,k}; for k = 9 a further merge widens to u32::MAX
    for k in [2usize, 8, 9, 10] {
        let mut big = from("a");
        for _ in 0..k {
            big = app(big, from("b"));
        }
        let nk = mrg(big, from("a"));
        v.push(nk.clone());
        let w = mrg(nk.clone(), app(from("a"), from("b")));
        v.push(w.clone());
        // w·b·c ⊔ w·b  → … [{b}]^{0,MAX}[{b}]^{1,1}[{c}]^{0,1}
        let wb = app(w.clone(), from("b"));
        v.push(mrg(app(wb.clone(), from("c")), wb.clone()));
        // w·b ⊔ w → … [{b}]^{0,MAX}[{b}]^{0,1}  (the sum of the maxima overflowed u32)
        v.push(mrg(wb.clone(), w.clone()));
        v.push(mrg(w.clone(), wb.clone()));
        // w·b·b ⊔ w → [{b}]^{0,MAX}[{b}]^{0,1}[{b}]^{0,1}
        v.push(mrg(app(wb.clone(), from("b")), w.clone()));
    }
    // sequence threshold: nine different single-character strings merged position-wise
    let mut m = app(from("x"), from("0"));
    for c in ["1", "2", "3", "4", "5", "6", "7", "8", "9"] {
        m = mrg(m, app(from("x"), from(c)));
        v.push(m.clone());
    }
    // length threshold: more than 32 bricks
    for n in [31usize, 32, 33, 34] {
        let mut l = from("a");
        for i in 0..n {
            l = app(l, from(if i % 2 == 0 { "b" } else { "a" }));
        }
        v.push(mrg(l.clone(), app(l.clone(), from("c"))));
        v.push(mrg(app(l.clone(), from("c")), l.clone()));
    }
    v
}

fn main() {
    quiet_panics();
    let args = Args::parse();
    let mut out = Out::new(
        &args,
        "brick lists over {a,b} (+c): <=4 bricks (<=2 in the exhaustive part), strings of length <=2, bounds <=3 plus bounds at the \
         widening thresholds (7..12, u32::MAX-1, u32::MAX), Top bricks, min>max bricks; related pairs (dropped/enlarged/extra bricks) \
         for widen/merge/le; construction terms from/append/merge incl. >32 bricks and >8 strings; character-set pairs over {a,b,c} \
         incl. Top; non-trivial = the real code returned a value (not Top/panic); distinct by (op, operands)",
    );
    let mut run = Runner { w: spawn_worker(), hangs: 0 };
    let null = Value::Null;

    if let Some(lines) = args.replay_lines() {
        for line in lines {
            let v: Value = serde_json::from_str(&line).expect("replay line");
            let op = v["op"].as_str().unwrap().to_string();
            emit(&mut out, &mut run, &op, &v["a"], v.get("b").unwrap_or(&null));
        }
        out.finish();
        return;
    }

    let mut rng = Rng::new(args.seed);
    let ab = ['a', 'b'];
    let abc = ['a', 'b', 'c'];

    // ---- directed construction terms (thresholds, D11, the normalize loop)
    for e in directed_exprs() {
        emit(&mut out, &mut run, "expr", &e, &null);
    }

    // ---- exhaustive small part: every list of <= 2 bricks over a small brick universe
    let exh = args.num("exhaustive", 0, 1);
    if exh > 0 {
        let seqs: Vec<Vec<&str>> = vec![vec![], vec![""], vec!["a"], vec!["b"], vec!["a", "b"], vec!["", "a"], vec!["a", "ab"], vec!["aa"]];
        let mut universe = vec![json!("Top")];
        for s in &seqs {
            for min in 0..3u64 {
                for max in 0..3u64 {
                    let sv: Vec<String> = s.iter().map(|x| x.to_string()).collect();
                    universe.push(brick_json(&sv, min, max));
                }
            }
        }
        for x in &universe {
            emit(&mut out, &mut run, "normalize", &val(vec![x.clone()]), &null);
            for y in &universe {
                emit(&mut out, &mut run, "normalize", &val(vec![x.clone(), y.clone()]), &null);
                emit(&mut out, &mut run, "bmerge", x, y);
                emit(&mut out, &mut run, "ble", x, y);
                if rng.chance(1, 4) {
                    emit(&mut out, &mut run, "merge", &val(vec![x.clone()]), &val(vec![x.clone(), y.clone()]));
                    emit(&mut out, &mut run, "merge", &val(vec![y.clone(), x.clone()]), &val(vec![x.clone()]));
                }
            }
        }
        out.exhaustive = true;
    }

    // ---- random brick lists
    let n_norm = args.num("normalize", 900, 40000);
    for i in 0..n_norm {
        let alphabet: &[char] = if i % 5 == 0 { &abc } else { &ab };
        let l = gen_list(&mut rng, alphabet, 4, i % 3 == 0, true);
        emit(&mut out, &mut run, "normalize", &val(l), &null);
    }
    let n_pair = args.num("pairs", 500, 25000);
    for i in 0..n_pair {
        let alphabet: &[char] = if i % 5 == 0 { &abc } else { &ab };
        let big = i % 3 == 0;
        let a = gen_list(&mut rng, alphabet, 4, big, i % 4 == 0);
        let b = if rng.chance(1, 6) { gen_list(&mut rng, alphabet, 4, big, false) } else { gen_related(&mut rng, &a, alphabet, big) };
        let (a, b) = if rng.chance(1, 2) { (a, b) } else { (b, a) };
        let (va, vb) = (val(a), val(b));
        emit(&mut out, &mut run, "merge", &va, &vb);
        emit(&mut out, &mut run, "widen", &va, &vb);
        emit(&mut out, &mut run, "le", &va, &vb);
        if i % 3 == 0 {
            emit(&mut out, &mut run, "append", &va, &vb);
        }
    }
    // Top operands
    for _ in 0..10 {
        let a = val(gen_list(&mut rng, &ab, 3, false, true));
        let top = json!("Top");
        for op in ["merge", "append", "widen", "le"] {
            emit(&mut out, &mut run, op, &a, &top);
            emit(&mut out, &mut run, op, &top, &a);
        }
        emit(&mut out, &mut run, "normalize", &top, &null);
        emit(&mut out, &mut run, "merge", &top, &top);
        emit(&mut out, &mut run, "append", &top, &top);
    }
    // long lists around the length threshold
    for n in [31u64, 32, 33, 34] {
        let a: Vec<Value> = (0..n).map(|i| brick_json(&[if i % 2 == 0 { "a".to_string() } else { "b".to_string() }], 1, 1)).collect();
        let mut b = a.clone();
        b.push(brick_json(&["c".to_string()], 0, 2));
        emit(&mut out, &mut run, "widen", &val(a.clone()), &val(b.clone()));
        emit(&mut out, &mut run, "widen", &val(b.clone()), &val(a.clone()));
        emit(&mut out, &mut run, "merge", &val(a.clone()), &val(b.clone()));
    }

    // ---- single bricks
    let n_brick = args.num("bricks", 500, 20000);
    for i in 0..n_brick {
        let alphabet: &[char] = if i % 2 == 0 { &abc } else { &ab };
        let mk = |rng: &mut Rng| {
            if rng.chance(1, 15) {
                json!("Top")
            } else {
                // up to 6 strings so that unions cross the sequence threshold
                let mut seq = Vec::new();
                for _ in 0..(1 + rng.below(3)) {
                    let p = gen_brick_parts(rng, alphabet, true);
                    seq.extend(p.0);
                }
                seq.sort();
                seq.dedup();
                let p = gen_brick_parts(rng, alphabet, i % 2 == 0);
                brick_json(&seq, p.1, p.2)
            }
        };
        let a = mk(&mut rng);
        let b = if rng.chance(1, 5) { a.clone() } else { mk(&mut rng) };
        emit(&mut out, &mut run, "bmerge", &a, &b);
        emit(&mut out, &mut run, "bwiden", &a, &b);
        emit(&mut out, &mut run, "ble", &a, &b);
    }

    // ---- random construction terms
    let n_expr = args.num("exprs", 300, 10000);
    for i in 0..n_expr {
        let strings: &[&str] = if i % 2 == 0 { &["a", "b", "ab", ""] } else { &["a", "a", "b"] };
        let e = gen_expr(&mut rng, 2 + (i % 3) as u32, strings);
        emit(&mut out, &mut run, "expr", &e, &null);
        if i % 2 == 0 {
            emit(&mut out, &mut run, "ciexpr", &e, &null);
        }
    }

    // ---- character inclusion: all pairs of reachable values over {a,b} + random over {a,b,c}
    let sets2: Vec<Vec<&str>> = vec![vec![], vec!["a"], vec!["b"], vec!["a", "b"]];
    let mut civals = vec![json!("Top")];
    for c in &sets2 {
        for p in &sets2 {
            civals.push(json!({"Value": [{"Value": c}, {"Value": p}]}));
        }
        civals.push(json!({"Value": [{"Value": c}, "Top"]}));
    }
    for a in &civals {
        for b in &civals {
            emit(&mut out, &mut run, "cimerge", a, b);
            emit(&mut out, &mut run, "ciappend", a, b);
        }
    }
    let n_ci = args.num("ci", 400, 20000);
    for _ in 0..n_ci {
        let a = gen_ci(&mut rng, &abc);
        let b = if rng.chance(1, 6) { a.clone() } else { gen_ci(&mut rng, &abc) };
        emit(&mut out, &mut run, "cimerge", &a, &b);
        emit(&mut out, &mut run, "ciappend", &a, &b);
        let (x, y) = (gen_charset(&mut rng, &abc, 10), gen_charset(&mut rng, &abc, 10));
        emit(&mut out, &mut run, "csunion", &x, &y);
        emit(&mut out, &mut run, "csinter", &x, &y);
    }
    if run.hangs > 0 {
        out.count_n("hangs", run.hangs as u64);
    }
    out.finish();
    // abandoned worker threads may still be spinning inside the real code
    std::process::exit(0);
}
