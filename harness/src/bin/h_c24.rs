//! C24 harness: drives the real `get_program_callgraph` and `find_call_sequences_to_target`.
//!
//! One case line per (program, source function): the program in canonical JSON, the source Tid and
//! for EVERY target Tid (all subs of the program plus a few Tids that are no functions) the
//! returned `BTreeSet<Tid>` or `"panic"`.
//! `{"prog":…, "src":Tid, "queries":[{"tgt":Tid, "impl":[Tid…] | "panic:…"}…],
//!   "nodes":[Tid…], "edges":[[src,dst,call]…]}` — nodes/edges are the node weights and
//! (source weight, target weight, edge weight tid) of the real call graph in index order.
use cwe_checker_lib::analysis::callgraph::{find_call_sequences_to_target, get_program_callgraph};
use cwe_checker_lib::intermediate_representation::*;
use verif_harness::ir::*;
use verif_harness::*;

fn tid_json(t: &Tid) -> Value {
    serde_json::to_value(t).unwrap()
}

/// random program: up to `max_subs` subs; calls to internal subs (self-calls, cycles), extern
/// symbols, non-existing Tids, indirect calls and other jumps; occasionally duplicate jump Tids
/// and Tids that differ only in the address.
fn gen_program(rng: &mut Rng, max_subs: u64) -> (Program, Vec<Tid>) {
    let n_subs = rng.below(max_subs + 1) as usize;
    let with_addr = rng.chance(1, 6);
    let mut sub_tids: Vec<Tid> = Vec::new();
    for i in 0..n_subs {
        let t = if with_addr && i > 0 && rng.chance(1, 3) {
            // same id as the previous sub, different address: a different Tid
            tid_at(&format!("{}", sub_tids[i - 1]), &format!("{:04x}", 0x1000 + i))
        } else {
            tid(&format!("sub_{}", i))
        };
        sub_tids.push(t);
    }
    let n_ext = rng.below(3) as usize;
    let ext_tids: Vec<Tid> = (0..n_ext).map(|i| tid(&format!("ext_{}", i))).collect();
    let ghost = vec![tid("nowhere"), tid("sub_99"), tid_at("sub_0", "ffff")];
    // call density: sparse / medium / dense
    let density = 1 + rng.below(3);
    let dup_jump_tids = rng.chance(1, 8);
    let mut counter = 0;
    let mut subs = Vec::new();
    for (si, st) in sub_tids.iter().enumerate() {
        let n_blocks = rng.below(4) as usize;
        let mut blocks = Vec::new();
        for bi in 0..n_blocks {
            let n_jmps = match rng.below(6) {
                0 => 0,
                1 | 2 => 1,
                3 | 4 => 2,
                _ => 3,
            } * density as usize
                / 2
                + rng.below(2) as usize;
            let mut jmps = Vec::new();
            for _ in 0..n_jmps {
                counter += 1;
                let jt = if dup_jump_tids && rng.chance(1, 3) {
                    format!("call_{}", rng.below(4))
                } else {
                    format!("call_{}", counter)
                };
                let ret = if rng.chance(1, 2) { Some(format!("blk_{}_{}", si, bi)) } else { None };
                let ret = ret.as_deref();
                let j = match rng.below(20) {
                    0..=10 if !sub_tids.is_empty() => {
                        let tgt = if rng.chance(1, 6) { st.clone() } else { rng.pick(&sub_tids).clone() };
                        Term { tid: tid(&jt), term: Jmp::Call { target: tgt, return_: ret.map(tid) } }
                    }
                    11 | 12 if !ext_tids.is_empty() => {
                        Term { tid: tid(&jt), term: Jmp::Call { target: rng.pick(&ext_tids).clone(), return_: ret.map(tid) } }
                    }
                    13 => Term { tid: tid(&jt), term: Jmp::Call { target: rng.pick(&ghost).clone(), return_: ret.map(tid) } },
                    14 | 15 => j_call_ind(&jt, e_var("RAX", 8), ret),
                    16 => j_call_other(&jt, "syscall", ret),
                    17 => {
                        // a plain branch whose target is a function Tid: not a call
                        let tgt = if sub_tids.is_empty() { "sub_0".to_string() } else { format!("{}", rng.pick(&sub_tids)) };
                        j_branch(&jt, &tgt)
                    }
                    18 => j_cbranch(&jt, &format!("blk_{}_{}", si, bi), e_var("ZF", 1)),
                    _ => j_return(&jt, e_var("RSP", 8)),
                };
                jmps.push(j);
            }
            blocks.push(blk(&format!("blk_{}_{}", si, bi), vec![], jmps));
        }
        subs.push(Term { tid: st.clone(), term: Sub { name: format!("f{}", si), blocks, calling_convention: None } });
    }
    let externs = ext_tids.iter().map(|t| extern_symbol(&format!("{}", t), &format!("{}", t), vec![], vec![], false)).collect();
    let mut others = ext_tids.clone();
    others.push(ghost[rng.below(3) as usize].clone());
    (program(subs, externs, vec![]), others)
}

fn eval_line(prog: &Program, src: &Tid, targets: &[Tid]) -> (String, u64, u64) {
    let term = Term { tid: tid("program"), term: prog.clone() };
    let term_ref = std::panic::AssertUnwindSafe(&term);
    let graph = catch(move || get_program_callgraph(*term_ref));
    let mut nonempty = 0;
    let mut panics = 0;
    let mut queries = Vec::new();
    let (nodes, edges) = match &graph {
        Ok(g) => (
            g.node_indices().map(|n| tid_json(&g[n])).collect::<Vec<_>>(),
            g.edge_indices()
                .map(|e| {
                    let (a, b) = g.edge_endpoints(e).unwrap();
                    json!([tid_json(&g[a]), tid_json(&g[b]), tid_json(&g[e].tid)])
                })
                .collect::<Vec<_>>(),
        ),
        Err(_) => (vec![], vec![]),
    };
    for tgt in targets {
        let r = match &graph {
            Ok(g) => {
                let g = std::panic::AssertUnwindSafe(g);
                match catch(move || find_call_sequences_to_target(*g, src, tgt)) {
                    Ok(set) => {
                        if !set.is_empty() {
                            nonempty += 1;
                        }
                        Value::Array(set.iter().map(tid_json).collect())
                    }
                    Err(p) => {
                        panics += 1;
                        Value::String(format!("panic:{}", p.replace(' ', "_")))
                    }
                }
            }
            Err(p) => Value::String(format!("panic:callgraph:{}", p.replace(' ', "_"))),
        };
        queries.push(json!({"tgt": tid_json(tgt), "impl": r}));
    }
    let line = json!({"prog": program_to_json(prog), "src": tid_json(src), "queries": queries, "nodes": nodes, "edges": edges});
    (line.to_string(), nonempty, panics)
}

fn main() {
    quiet_panics();
    let args = Args::parse();
    let mut out = Out::new(
        &args,
        "random programs of 0-8 functions with direct calls (self-calls, cycles, parallel calls), calls to extern symbols and \
         non-existing Tids, indirect calls, other jumps; one case per (program, source) asking ALL targets (every function + \
         non-function Tids); non-trivial = at least one query with a non-empty result; distinct by (program, source)",
    );
    if let Some(lines) = args.replay_lines() {
        for line in lines {
            let v: Value = serde_json::from_str(&line).expect("replay line");
            let prog = program_from_json(&v["prog"]);
            let src: Tid = serde_json::from_value(v["src"].clone()).expect("src");
            let targets: Vec<Tid> =
                v["queries"].as_array().unwrap().iter().map(|q| serde_json::from_value(q["tgt"].clone()).unwrap()).collect();
            let (l, nonempty, _) = eval_line(&prog, &src, &targets);
            out.case(&l, if nonempty > 0 { Some(&l) } else { None });
        }
        out.finish();
        return;
    }
    let mut rng = Rng::new(args.seed);
    let programs = args.num("programs", 400, 8000);
    for _ in 0..programs {
        let max_subs = if rng.chance(1, 5) { 3 } else { 8 };
        let (prog, others) = gen_program(&mut rng, max_subs);
        let mut all: Vec<Tid> = prog.subs.keys().cloned().collect();
        let mut sources = all.clone();
        sources.push(rng.pick(&others).clone());
        all.extend(others);
        out.count(&format!("subs:{}", prog.subs.len()));
        for src in &sources {
            let (l, nonempty, panics) = eval_line(&prog, src, &all);
            out.count_n("queries", all.len() as u64);
            out.count_n("queries_nonempty", nonempty);
            out.count_n("queries_panic", panics);
            out.case(&l, if nonempty > 0 { Some(&l) } else { None });
        }
    }
    out.finish();
}
